(* Proofs about Model/C02.v: the derived edge table is exactly the set of consecutive corner
   pairs, once each, without fill; face_edge rows point at the edge j -> j+1. Unbounded. *)
From Coq Require Import Sorting.Mergesort Sorting.Sorted Permutation RelationClasses ZifyBool.
From Verif Require Import Base C02.

Local Open Scope Z_scope.

(* ------------------------------------------------------------------------- *)
(* small list facts                                                            *)

Lemma repeat_snoc {A} (x : A) n : repeat x n ++ [x] = repeat x (S n).
Proof. rewrite <- repeat_cons. reflexivity. Qed.

Lemma combine_app_eq {A B} (a a' : list A) (b b' : list B) :
  length a = length b -> combine (a ++ a') (b ++ b') = combine a b ++ combine a' b'.
Proof.
  revert b; induction a as [|x a IH]; intros [|y b] H; simpl in *; try discriminate; auto.
  f_equal. apply IH. lia.
Qed.

Lemma combine_removelast {A B} (l : list A) (l2 : list B) :
  S (length l2) = length l -> combine (removelast l) l2 = combine l l2.
Proof.
  revert l2; induction l as [|a l IH]; intros l2 H; simpl in H; [discriminate|].
  destruct l as [|b l].
  - destruct l2; simpl in *; [reflexivity|discriminate].
  - destruct l2 as [|y l2]; simpl in H; [discriminate|].
    change (removelast (a :: b :: l)) with (a :: removelast (b :: l)).
    simpl combine at 1. cbn [combine]. f_equal. apply IH. simpl. lia.
Qed.

Lemma is_fill_nonneg x : 0 <= x -> is_fill x = false.
Proof. unfold is_fill, FILL. intros. lia. Qed.

Lemma is_fill_FILL : is_fill FILL = true.
Proof. reflexivity. Qed.

Lemma pair_eqb_eq p q : pair_eqb p q = true <-> p = q.
Proof.
  destruct p as [a b], q as [c d]; unfold pair_eqb; simpl.
  rewrite andb_true_iff, !Z.eqb_eq. split; [intros [-> ->]; auto| intros [= -> ->]; auto].
Qed.

Lemma pair_eqb_refl p : pair_eqb p p = true.
Proof. apply pair_eqb_eq; reflexivity. Qed.

(* ------------------------------------------------------------------------- *)
(* rows in standard form                                                      *)

Lemma first_fill_std c n :
  Forall (fun x => 0 <= x) c -> first_fill (c ++ repeat FILL n) = length c.
Proof.
  induction c as [|x c IH]; intros H; simpl.
  - destruct n; simpl; auto.
  - inversion H; subst. rewrite is_fill_nonneg by assumption. f_equal; auto.
Qed.

Lemma corners_std c n :
  Forall (fun x => 0 <= x) c -> corners (c ++ repeat FILL n) = c.
Proof.
  intros H. unfold corners. rewrite first_fill_std by assumption.
  rewrite firstn_app, Nat.sub_diag, firstn_all. simpl. apply app_nil_r.
Qed.

Lemma close_row_std c n :
  Forall (fun x => 0 <= x) c ->
  close_row (c ++ repeat FILL n) = c ++ [hd FILL (c ++ repeat FILL n)] ++ repeat FILL n.
Proof.
  intros H. unfold close_row. rewrite first_fill_std by assumption.
  rewrite <- app_assoc, repeat_snoc.
  rewrite firstn_app, Nat.sub_diag, firstn_all. simpl firstn. rewrite app_nil_r.
  f_equal. f_equal.
  rewrite skipn_app.
  replace (S (length c) - length c)%nat with 1%nat by lia.
  rewrite skipn_all2 by lia. simpl. reflexivity.
Qed.

Definition junk_ok (j : list (Z * Z)) : Prop := Forall (fun p => snd p = FILL) j.

Lemma combine_repeat_junk {A} (l : list A) n : Forall (fun p : A * Z => snd p = FILL) (combine l (repeat FILL n)).
Proof.
  revert n; induction l as [|a l IH]; intros [|n]; simpl; constructor; auto.
Qed.

(* the candidate pairs of a standard row: its cyclic corner pairs, then n pairs containing FILL *)
Lemma row_pairs_std c n :
  Forall (fun x => 0 <= x) c ->
  exists junk, row_pairs (c ++ repeat FILL n) = cyc_pairs c ++ junk
               /\ junk_ok junk /\ length junk = n.
Proof.
  intros H. unfold row_pairs. rewrite close_row_std by assumption.
  destruct c as [|x c].
  - simpl app. simpl hd.
    assert (Hh : hd FILL (repeat FILL n) = FILL) by (destruct n; reflexivity).
    rewrite Hh. simpl tl.
    rewrite combine_removelast by (simpl; reflexivity).
    change (FILL :: repeat FILL n) with (repeat FILL (S n)).
    exists (combine (repeat FILL (S n)) (repeat FILL n)). split; [reflexivity|]. split.
    + apply combine_repeat_junk.
    + rewrite combine_length, !repeat_length. lia.
  - simpl hd. simpl tl.
    rewrite combine_removelast.
    2:{ simpl. rewrite ?app_length. simpl. rewrite ?app_length. simpl. lia. }
    change ((x :: c) ++ [x] ++ repeat FILL n) with ((x :: c) ++ (x :: repeat FILL n)).
    replace (c ++ x :: repeat FILL n) with ((c ++ [x]) ++ repeat FILL n)
      by (rewrite <- app_assoc; reflexivity).
    rewrite combine_app_eq by (simpl; rewrite app_length; simpl; lia).
    exists (combine (x :: repeat FILL n) (repeat FILL n)). split; [reflexivity|]. split.
    + apply combine_repeat_junk.
    + rewrite combine_length. cbn [length]. rewrite !repeat_length. lia.
Qed.

Lemma row_pairs_length c n :
  Forall (fun x => 0 <= x) c -> length (row_pairs (c ++ repeat FILL n)) = length (c ++ repeat FILL n).
Proof.
  intros H. destruct (row_pairs_std c n H) as (j & -> & _ & Hl).
  rewrite !app_length, repeat_length, Hl. f_equal.
  destruct c as [|x c]; [reflexivity|]. unfold cyc_pairs. rewrite combine_length, app_length. cbn [length]. lia.
Qed.

Lemma cyc_pairs_nonneg c : Forall (fun x => 0 <= x) c ->
  Forall (fun p => 0 <= fst p /\ 0 <= snd p) (cyc_pairs c).
Proof.
  intros H. destruct c as [|x c]; [constructor|]. unfold cyc_pairs.
  assert (H2 : Forall (fun x => 0 <= x) (c ++ [x])).
  { inversion H; subst. apply Forall_app; split; auto. }
  apply Forall_forall. intros [a b] Hin.
  pose proof (in_combine_l _ _ _ _ Hin) as Ha. pose proof (in_combine_r _ _ _ _ Hin) as Hb.
  rewrite Forall_forall in H, H2. simpl. split; auto.
Qed.

Lemma has_fill_norm p : has_fill (norm_pair p) = has_fill p.
Proof.
  destruct p as [a b]; unfold norm_pair, has_fill; simpl.
  destruct (a <=? b); simpl; auto using orb_comm.
Qed.

Lemma has_fill_nonneg p : 0 <= fst p /\ 0 <= snd p -> has_fill p = false.
Proof. intros [Ha Hb]. unfold has_fill. rewrite !is_fill_nonneg; auto. Qed.

Lemma has_fill_junk p : snd p = FILL -> has_fill p = true.
Proof. intros H. unfold has_fill. rewrite H, is_fill_FILL. apply orb_true_r. Qed.

(* ------------------------------------------------------------------------- *)
(* np.unique: sort + dedup                                                    *)

Definition lebP (p q : Z * Z) : Prop := is_true (PairOrder.leb p q).

Lemma leb_trans : Transitive lebP.
Proof.
  intros [a b] [c d] [e f]; unfold lebP, is_true, PairOrder.leb; simpl. lia.
Qed.

Lemma leb_antisym p q : lebP p q -> lebP q p -> p = q.
Proof.
  destruct p as [a b], q as [c d]; unfold lebP, is_true, PairOrder.leb; simpl.
  intros H1 H2. f_equal; lia.
Qed.

Lemma dedup_In x l : In x (dedup l) <-> In x l.
Proof.
  induction l as [|a l IH]; [simpl; tauto|].
  destruct l as [|b l].
  - simpl. tauto.
  - change (dedup (a :: b :: l)) with (if pair_eqb a b then dedup (b :: l) else a :: dedup (b :: l)).
    destruct (pair_eqb a b) eqn:E.
    + apply pair_eqb_eq in E. subst b. rewrite IH. simpl. tauto.
    + simpl In at 1. rewrite IH. simpl. tauto.
Qed.

Lemma dedup_NoDup l : StronglySorted lebP l -> NoDup (dedup l).
Proof.
  induction l as [|a l IH]; intros HS; [constructor|].
  inversion HS as [|? ? HS' Hall]; subst.
  destruct l as [|b l].
  - simpl. constructor; [intros []|constructor].
  - change (dedup (a :: b :: l)) with (if pair_eqb a b then dedup (b :: l) else a :: dedup (b :: l)).
    destruct (pair_eqb a b) eqn:E; [apply IH; assumption|].
    constructor; [|apply IH; assumption].
    rewrite dedup_In. intros Hin.
    inversion HS' as [|? ? HS'' Hall']; subst.
    assert (Hab : lebP a b) by (inversion Hall; assumption).
    assert (Hba : lebP b a).
    { destruct Hin as [->|Hin]; [exact Hab|]. rewrite Forall_forall in Hall'.
      (* a in l, so b <= a *) apply Hall'. exact Hin. }
    assert (a = b) by (apply leb_antisym; assumption). subst b.
    rewrite pair_eqb_refl in E. discriminate.
Qed.

Lemma unique_In x l : In x (unique_pairs l) <-> In x l.
Proof.
  unfold unique_pairs. rewrite dedup_In.
  split; intro H.
  - eapply Permutation_in; [apply Permutation_sym, PairSort.Permuted_sort|exact H].
  - eapply Permutation_in; [apply PairSort.Permuted_sort|exact H].
Qed.

Lemma unique_NoDup l : NoDup (unique_pairs l).
Proof.
  unfold unique_pairs. apply dedup_NoDup.
  apply PairSort.StronglySorted_sort. exact leb_trans.
Qed.

Lemma index_of_spec x u : In x u ->
  (index_of x u < length u)%nat /\ nth (index_of x u) u (FILL, FILL) = x.
Proof.
  induction u as [|y u IH]; intros H; [destruct H|].
  simpl. destruct (pair_eqb x y) eqn:E.
  - apply pair_eqb_eq in E. subst. split; [lia|reflexivity].
  - destruct H as [->|H]; [rewrite pair_eqb_refl in E; discriminate|].
    destruct (IH H). split; [lia|assumption].
Qed.

(* ------------------------------------------------------------------------- *)
(* dropping fill rows and renumbering                                         *)

Section Renum.
Variable p : Z * Z -> bool.

Fixpoint countb (l : list (Z * Z)) : nat :=
  match l with [] => 0%nat | x :: l' => ((if p x then 1 else 0) + countb l')%nat end.

Lemma where_from_ge k m : Forall (fun x => k <= x) (where_from k m).
Proof.
  revert k; induction m as [|b m IH]; intros k; simpl; [constructor|].
  assert (H : Forall (fun x => k <= x) (where_from (k + 1) m)).
  { eapply Forall_impl; [|apply IH]. simpl; intros; lia. }
  destruct b; [constructor; [lia|assumption]|assumption].
Qed.

Lemma filter_le_none k v l : v < k -> Forall (fun x => k <= x) l -> filter (fun x => x <=? v) l = [].
Proof.
  intros Hv H. induction H as [|x l Hx _ IH]; simpl; auto.
  destruct (x <=? v) eqn:E; [lia|assumption].
Qed.

Lemma searchsorted_where u : forall k i, (i < length u)%nat ->
  searchsorted_right (where_from k (map p u)) (k + Z.of_nat i)
  = Z.of_nat (countb (firstn (S i) u)).
Proof.
  unfold searchsorted_right.
  induction u as [|y u IH]; intros k i Hi; simpl in Hi; [lia|].
  destruct i as [|i].
  - simpl map. simpl where_from. simpl firstn.
    assert (Hnone : filter (fun x => x <=? k + Z.of_nat 0) (where_from (k + 1) (map p u)) = []).
    { apply filter_le_none with (k := k + 1); [lia|apply where_from_ge]. }
    destruct (p y) eqn:E; simpl.
    + rewrite E. destruct (k <=? k + 0) eqn:E2; [|lia]. simpl.
      change (Z.of_nat 0) with 0 in Hnone. rewrite Hnone. reflexivity.
    + rewrite E. change (Z.of_nat 0) with 0 in Hnone. rewrite Hnone. reflexivity.
  - assert (Hi' : (i < length u)%nat) by lia.
    specialize (IH (k + 1) i Hi').
    replace (k + 1 + Z.of_nat i) with (k + Z.of_nat (S i)) in IH by lia.
    simpl map. simpl where_from.
    change (firstn (S (S i)) (y :: u)) with (y :: firstn (S i) u).
    cbn [countb].
    destruct (p y) eqn:E.
    + cbn [filter]. destruct (k <=? k + Z.of_nat (S i)) eqn:E2; [|lia].
      cbn [length]. rewrite Nat2Z.inj_succ, IH. lia.
    + rewrite IH. lia.
Qed.

Lemma mem_where u : forall k i, (i < length u)%nat ->
  mem_Z (k + Z.of_nat i) (where_from k (map p u)) = p (nth i u (FILL, FILL)).
Proof.
  induction u as [|y u IH]; intros k i Hi; simpl in Hi; [lia|].
  simpl map. simpl where_from.
  assert (Hge := where_from_ge (k + 1) (map p u)).
  destruct i as [|i].
  - simpl nth.
    assert (Hno : mem_Z (k + Z.of_nat 0) (where_from (k + 1) (map p u)) = false).
    { unfold mem_Z. apply not_true_is_false. intros Hex. apply existsb_exists in Hex.
      destruct Hex as (x & Hx & Hxe). rewrite Forall_forall in Hge. specialize (Hge x Hx).
      apply Z.eqb_eq in Hxe. lia. }
    destruct (p y); [|exact Hno].
    unfold mem_Z. cbn [existsb]. replace (k + Z.of_nat 0 =? k) with true by lia. reflexivity.
  - assert (Hi' : (i < length u)%nat) by lia.
    specialize (IH (k + 1) i Hi').
    replace (k + 1 + Z.of_nat i) with (k + Z.of_nat (S i)) in IH by lia.
    simpl nth. rewrite <- IH.
    destruct (p y); [|reflexivity].
    unfold mem_Z. cbn [existsb]. replace (k + Z.of_nat (S i) =? k) with false by lia. reflexivity.
Qed.

Lemma countb_firstn_S u i : (i < length u)%nat ->
  countb (firstn (S i) u) = (countb (firstn i u) + if p (nth i u (FILL, FILL)) then 1 else 0)%nat.
Proof.
  revert i; induction u as [|y u IH]; intros i Hi; simpl in Hi; [lia|].
  destruct i as [|i].
  - simpl. lia.
  - change (firstn (S (S i)) (y :: u)) with (y :: firstn (S i) u).
    change (firstn (S i) (y :: u)) with (y :: firstn i u).
    cbn [countb nth]. rewrite IH by lia. lia.
Qed.

Lemma countb_le u i : (countb (firstn i u) <= i)%nat.
Proof.
  revert i; induction u as [|y u IH]; intros [|i]; simpl; try lia.
  specialize (IH i). destruct (p y); lia.
Qed.

Lemma nth_filter_neg u : forall i, (i < length u)%nat -> p (nth i u (FILL, FILL)) = false ->
  nth (i - countb (firstn i u)) (filter (fun x => negb (p x)) u) (FILL, FILL) = nth i u (FILL, FILL)
  /\ (i - countb (firstn i u) < length (filter (fun x => negb (p x)) u))%nat.
Proof.
  induction u as [|y u IH]; intros i Hi Hp; simpl in Hi; [lia|].
  destruct i as [|i].
  - simpl in Hp. simpl. rewrite Hp. simpl. split; [reflexivity|lia].
  - simpl in Hp. assert (Hi' : (i < length u)%nat) by lia.
    destruct (IH i Hi' Hp) as [IH1 IH2].
    change (firstn (S i) (y :: u)) with (y :: firstn i u). cbn [countb filter nth].
    pose proof (countb_le u i) as Hle.
    destruct (p y) eqn:E; simpl negb; cbv iota.
    + replace (S i - (1 + countb (firstn i u)))%nat with (i - countb (firstn i u))%nat by lia.
      split; assumption.
    + replace (S i - (0 + countb (firstn i u)))%nat with (S (i - countb (firstn i u))) by lia.
      simpl. split; [assumption|lia].
Qed.

(* the renumbered inverse index of a kept row points at that row in the filtered list;
   a dropped row is renumbered to FILL *)
Lemma renum_spec u i : (i < length u)%nat ->
  let upd := where_from 0 (map p u) in
  let r := renum upd (Z.of_nat i) in
  (p (nth i u (FILL, FILL)) = true -> r = FILL) /\
  (p (nth i u (FILL, FILL)) = false ->
     0 <= r /\ (Z.to_nat r < length (filter (fun x => negb (p x)) u))%nat /\
     nth (Z.to_nat r) (filter (fun x => negb (p x)) u) (FILL, FILL) = nth i u (FILL, FILL)).
Proof.
  intros Hi upd r. subst upd r. unfold renum.
  pose proof (mem_where u 0 i Hi) as Hm. rewrite Z.add_0_l in Hm. rewrite Hm.
  split; intros Hp; rewrite Hp; [reflexivity|].
  pose proof (searchsorted_where u 0 i Hi) as Hs. rewrite Z.add_0_l in Hs. rewrite Hs.
  rewrite countb_firstn_S by assumption. rewrite Hp, Nat.add_0_r.
  pose proof (countb_le u i) as Hle.
  destruct (nth_filter_neg u i Hi Hp) as [H1 H2].
  replace (Z.to_nat (Z.of_nat i - Z.of_nat (countb (firstn i u)))) with (i - countb (firstn i u))%nat by lia.
  split; [lia|]. split; assumption.
Qed.
End Renum.

(* ------------------------------------------------------------------------- *)
(* tables                                                                      *)

Lemma std_row_inv r : std_row r ->
  exists c n, r = c ++ repeat FILL n /\ Forall (fun x => 0 <= x) c /\ corners r = c
              /\ first_fill r = length c.
Proof.
  intros (c & n & -> & H). exists c, n. split; [reflexivity|]. split; [assumption|].
  split; [apply corners_std; assumption|apply first_fill_std; assumption].
Qed.

Lemma in_all_pairs_iff m t q : std_table m t ->
  (In q (all_pairs t) /\ has_fill q = false) <-> In q (spec_pairs t).
Proof.
  intros Hstd. unfold all_pairs, spec_pairs. rewrite !in_map_iff. split.
  - intros [(x & <- & Hx) Hnf]. apply in_flat_map in Hx. destruct Hx as (r & Hr & Hxr).
    unfold std_table in Hstd. rewrite Forall_forall in Hstd. destruct (Hstd r Hr) as [_ Hsr].
    destruct (std_row_inv r Hsr) as (c & n & Heq & Hc & Hcor & _).
    destruct (row_pairs_std c n Hc) as (junk & Hrp & Hj & _).
    rewrite Heq, Hrp in Hxr. apply in_app_or in Hxr. destruct Hxr as [Hxr|Hxr].
    + exists x. split; [reflexivity|]. apply in_flat_map. exists r. split; [assumption|].
      rewrite Hcor. assumption.
    + unfold junk_ok in Hj. rewrite Forall_forall in Hj. specialize (Hj x Hxr).
      rewrite has_fill_norm, (has_fill_junk x Hj) in Hnf. discriminate.
  - intros (x & <- & Hx). apply in_flat_map in Hx. destruct Hx as (r & Hr & Hxr).
    unfold std_table in Hstd. rewrite Forall_forall in Hstd. destruct (Hstd r Hr) as [_ Hsr].
    destruct (std_row_inv r Hsr) as (c & n & Heq & Hc & Hcor & _).
    destruct (row_pairs_std c n Hc) as (junk & Hrp & _ & _).
    rewrite Hcor in Hxr. split.
    + exists x. split; [reflexivity|]. apply in_flat_map. exists r. split; [assumption|].
      rewrite Heq, Hrp. apply in_or_app. left. assumption.
    + rewrite has_fill_norm. apply has_fill_nonneg.
      pose proof (cyc_pairs_nonneg c Hc) as Hnn. rewrite Forall_forall in Hnn. apply Hnn. assumption.
Qed.

(* edge table = exactly the consecutive corner pairs *)
Theorem edges_iff m t q : std_table m t -> In q (edges t) <-> In q (spec_pairs t).
Proof.
  intros Hstd. unfold edges, build_edges; simpl. rewrite filter_In, unique_In.
  rewrite <- (in_all_pairs_iff m t q Hstd). rewrite negb_true_iff. tauto.
Qed.

Lemma NoDup_filter {A} (f : A -> bool) l : NoDup l -> NoDup (filter f l).
Proof.
  induction 1 as [|x l Hx _ IH]; simpl; [constructor|].
  destruct (f x); [constructor; [rewrite filter_In; tauto|assumption]|assumption].
Qed.

(* each once *)
Theorem edges_NoDup t : NoDup (edges t).
Proof. unfold edges, build_edges; simpl. apply NoDup_filter, unique_NoDup. Qed.

(* no padding in the edge table, and each edge is stored sorted *)
Theorem edges_no_fill t q : In q (edges t) -> has_fill q = false.
Proof.
  unfold edges, build_edges; simpl. rewrite filter_In, negb_true_iff. tauto.
Qed.

Theorem edges_real m t q : std_table m t -> In q (edges t) -> 0 <= fst q <= snd q.
Proof.
  intros Hstd Hin. rewrite (edges_iff m t q Hstd) in Hin. unfold spec_pairs in Hin.
  apply in_map_iff in Hin. destruct Hin as (x & <- & Hx). apply in_flat_map in Hx.
  destruct Hx as (r & Hr & Hxr).
  unfold std_table in Hstd. rewrite Forall_forall in Hstd. destruct (Hstd r Hr) as [_ Hsr].
  destruct (std_row_inv r Hsr) as (c & n & Heq & Hc & Hcor & _). rewrite Hcor in Hxr.
  pose proof (cyc_pairs_nonneg c Hc) as Hnn. rewrite Forall_forall in Hnn. specialize (Hnn x Hxr).
  destruct x as [a b]; unfold norm_pair; simpl in *. destruct (a <=? b) eqn:E; simpl; lia.
Qed.

(* reshape of the ravelled per-row lists gives back the rows *)
Lemma chunk_flat_map {A} (g : A -> list Z) m (t : list A) :
  Forall (fun r => length (g r) = m) t -> chunk m (length t) (flat_map g t) = map g t.
Proof.
  induction 1 as [|r t Hr _ IH]; simpl; [reflexivity|].
  rewrite firstn_app, skipn_app.
  replace (m - length (g r))%nat with 0%nat by lia.
  rewrite firstn_O, app_nil_r, skipn_O.
  rewrite (firstn_all2 (g r)) by lia. rewrite (skipn_all2 (g r)) by lia. simpl. f_equal. exact IH.
Qed.

Definition fe_entry (t : table) (q : Z * Z) : Z :=
  let u := unique_pairs (all_pairs t) in
  renum (where_from 0 (map has_fill u)) (Z.of_nat (index_of (norm_pair q) u)).

Lemma map_flat_map {A B C} (F : B -> C) (g : A -> list B) (t : list A) :
  map F (flat_map g t) = flat_map (fun r => map F (g r)) t.
Proof. induction t as [|r t IH]; simpl; [reflexivity|]. rewrite map_app, IH. reflexivity. Qed.

Lemma face_edges_rows m t : std_table m t ->
  face_edges t m = map (fun r => map (fe_entry t) (row_pairs r)) t.
Proof.
  intros Hstd. unfold face_edges, build_edges; simpl.
  assert (E : map (renum (where_from 0 (map has_fill (unique_pairs (all_pairs t)))))
                (map (fun p : Z * Z => Z.of_nat (index_of p (unique_pairs (all_pairs t))))
                     (all_pairs t))
              = map (fe_entry t) (flat_map row_pairs t)).
  { unfold all_pairs at 3. rewrite !map_map. reflexivity. }
  rewrite E, map_flat_map. apply chunk_flat_map.
  unfold std_table in Hstd. eapply Forall_impl; [|exact Hstd]. simpl. intros r [Hl Hs].
  rewrite map_length. destruct (std_row_inv r Hs) as (c & n & Heq & Hc & _).
  rewrite Heq. rewrite row_pairs_length by assumption. rewrite <- Heq. exact Hl.
Qed.

Lemma cyc_pairs_length c : length (cyc_pairs c) = length c.
Proof.
  destruct c as [|x c]; [reflexivity|]. unfold cyc_pairs.
  rewrite combine_length, app_length. cbn [length]. lia.
Qed.

Lemma fe_entry_real m t r q : std_table m t -> In r t -> In q (cyc_pairs (corners r)) ->
  exists e, fe_entry t q = Z.of_nat e /\ nth_error (edges t) e = Some (norm_pair q).
Proof.
  intros Hstd Hr Hq.
  assert (Hspec : In (norm_pair q) (spec_pairs t)).
  { unfold spec_pairs. apply in_map. apply in_flat_map. exists r. split; assumption. }
  apply (in_all_pairs_iff m t _ Hstd) in Hspec. destruct Hspec as [Hall Hnf].
  apply unique_In in Hall.
  destruct (index_of_spec _ _ Hall) as [Hi Hn].
  set (u := unique_pairs (all_pairs t)) in *.
  set (i := index_of (norm_pair q) u) in *.
  pose proof (renum_spec has_fill u i Hi) as Hren. cbv zeta in Hren.
  destruct Hren as [_ Hren]. rewrite Hn in Hren. specialize (Hren Hnf).
  destruct Hren as (H0 & Hlt & Hnth).
  exists (Z.to_nat (fe_entry t q)).
  unfold fe_entry. fold u. fold i. split; [lia|].
  unfold edges, build_edges; simpl. fold u.
  rewrite (nth_error_nth' _ (FILL, FILL) Hlt). f_equal. exact Hnth.
Qed.

Lemma fe_entry_junk m t r q : std_table m t -> In r t -> In q (row_pairs r) -> snd q = FILL ->
  fe_entry t q = FILL.
Proof.
  intros Hstd Hr Hq Hs.
  assert (Hall : In (norm_pair q) (all_pairs t)).
  { unfold all_pairs. apply in_map. apply in_flat_map. exists r. split; assumption. }
  apply unique_In in Hall.
  destruct (index_of_spec _ _ Hall) as [Hi Hn].
  set (u := unique_pairs (all_pairs t)) in *.
  set (i := index_of (norm_pair q) u) in *.
  pose proof (renum_spec has_fill u i Hi) as Hren. cbv zeta in Hren.
  destruct Hren as [Hren _]. rewrite Hn in Hren.
  unfold fe_entry. fold u. fold i. apply Hren.
  rewrite has_fill_norm. apply has_fill_junk. exact Hs.
Qed.

(* face_edge_connectivity[f, j] is the edge joining corner j and corner j+1 (cyclically);
   exactly the positions without a corner hold the fill value *)
Theorem face_edge_spec m t f r : std_table m t -> nth_error t f = Some r ->
  exists fe, nth_error (face_edges t m) f = Some fe /\ length fe = m /\
   (forall j, (j < first_fill r)%nat ->
       exists e, nth_error fe j = Some (Z.of_nat e) /\
                 nth_error (edges t) e = Some (norm_pair (nthP (cyc_pairs (corners r)) j))) /\
   (forall j, (first_fill r <= j < m)%nat -> nth_error fe j = Some FILL).
Proof.
  intros Hstd Hf.
  pose proof (nth_error_In _ _ Hf) as Hr.
  rewrite (face_edges_rows m t Hstd).
  exists (map (fe_entry t) (row_pairs r)). split; [exact (map_nth_error (fun r0 => map (fe_entry t) (row_pairs r0)) f t Hf)|].
  pose proof Hstd as Hstd'. unfold std_table in Hstd'. rewrite Forall_forall in Hstd'.
  destruct (Hstd' r Hr) as [Hlen Hsr].
  destruct (std_row_inv r Hsr) as (c & n & Heq & Hc & Hcor & Hff).
  destruct (row_pairs_std c n Hc) as (junk & Hrp & Hj & Hjl).
  assert (Hrp' : row_pairs r = cyc_pairs c ++ junk) by (rewrite Heq; exact Hrp).
  split.
  { rewrite map_length, Hrp', app_length, cyc_pairs_length, Hjl.
    rewrite <- Hlen, Heq, app_length, repeat_length. reflexivity. }
  split.
  - intros j Hjlt. rewrite Hff in Hjlt.
    assert (Hjc : (j < length (cyc_pairs c))%nat) by (rewrite cyc_pairs_length; exact Hjlt).
    set (q := nthP (cyc_pairs (corners r)) j).
    assert (Hq : In q (cyc_pairs (corners r))).
    { subst q. unfold nthP. rewrite Hcor. apply nth_In. exact Hjc. }
    destruct (fe_entry_real m t r q Hstd Hr Hq) as (e & He & Hne).
    exists e. split; [|exact Hne].
    rewrite Hrp', map_app.
    rewrite nth_error_app1 by (rewrite map_length; exact Hjc).
    rewrite (map_nth_error (fe_entry t) j (cyc_pairs c) (d := q)).
    + rewrite He. reflexivity.
    + subst q. unfold nthP. rewrite Hcor. apply nth_error_nth'. exact Hjc.
  - intros j [Hj1 Hj2]. rewrite Hff in Hj1.
    rewrite Hrp', map_app.
    rewrite nth_error_app2 by (rewrite map_length, cyc_pairs_length; exact Hj1).
    rewrite map_length, cyc_pairs_length.
    assert (Hjj : (j - length c < length junk)%nat).
    { rewrite Hjl. rewrite <- Hlen, Heq, app_length, repeat_length in Hj2. lia. }
    set (q := nth (j - length c) junk (FILL, FILL)).
    assert (Hqin : In q junk) by (apply nth_In; exact Hjj).
    rewrite (map_nth_error (fe_entry t) (j - length c) junk (d := q))
      by (apply nth_error_nth'; exact Hjj).
    f_equal. apply (fe_entry_junk m t r q Hstd Hr).
    + rewrite Hrp'. apply in_or_app. right. exact Hqin.
    + unfold junk_ok in Hj. rewrite Forall_forall in Hj. apply Hj. exact Hqin.
Qed.

(* n_nodes_per_face[f] is the number of real corners of face f *)
Theorem npf_spec m t f r : std_table m t -> nth_error t f = Some r ->
  nth_error (n_nodes_per_face t) f = Some (Z.of_nat (length (corners r)))
  /\ Forall (fun x => 0 <= x) (corners r)
  /\ r = corners r ++ repeat FILL (m - length (corners r)).
Proof.
  intros Hstd Hf. pose proof (nth_error_In _ _ Hf) as Hr.
  unfold std_table in Hstd. rewrite Forall_forall in Hstd. destruct (Hstd r Hr) as [Hlen Hsr].
  destruct (std_row_inv r Hsr) as (c & n & Heq & Hc & Hcor & Hff).
  split; [|split].
  - unfold n_nodes_per_face. rewrite (map_nth_error _ f t Hf). rewrite Hff, Hcor. reflexivity.
  - rewrite Hcor. exact Hc.
  - rewrite Hcor. rewrite Heq at 1. f_equal. f_equal.
    rewrite <- Hlen, Heq, app_length, repeat_length. lia.
Qed.

(* n_edge is the number of distinct consecutive corner pairs *)
Theorem n_edge_spec m t l : std_table m t -> NoDup l ->
  (forall q, In q l <-> In q (spec_pairs t)) -> length (edges t) = length l.
Proof.
  intros Hstd Hnd Hl.
  apply Nat.le_antisymm; apply NoDup_incl_length; try assumption; try apply edges_NoDup.
  - intros q Hq. apply Hl. apply (edges_iff m t q Hstd). exact Hq.
  - intros q Hq. apply (edges_iff m t q Hstd). apply Hl. exact Hq.
Qed.

(* non-vacuity: a concrete mixed table meets the hypotheses *)
Definition ex_table : table := [[0;1;2;FILL];[1;3;4;2];[5;1;0;FILL]].
Example ex_table_std : std_table 4 ex_table.
Proof.
  unfold ex_table, std_table. repeat constructor.
  - exists [0;1;2], 1%nat. split; [reflexivity|]. repeat constructor; lia.
  - exists [1;3;4;2], 0%nat. split; [reflexivity|]. repeat constructor; lia.
  - exists [5;1;0], 1%nat. split; [reflexivity|]. repeat constructor; lia.
Qed.
Example ex_table_edges :
  edges ex_table = [(0,1);(0,2);(0,5);(1,2);(1,3);(1,5);(2,4);(3,4)]
  /\ face_edges ex_table 4 = [[0;3;1;FILL];[4;7;6;3];[5;0;2;FILL]].
Proof. vm_compute. split; reflexivity. Qed.
