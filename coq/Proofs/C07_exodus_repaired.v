(* C07, Exodus with the repairs applied (padding test == INT_FILL_VALUE, start += num_faces,
   reader concatenating every connect block): the decoded faces are a permutation of the grid's
   faces — grouped by size, order kept inside a group — for every mix of face sizes.
   This is the statement the proposed patch has to satisfy; unbounded, by induction. *)
From Coq Require Import ZifyBool Permutation.
From Verif Require Import Base C07 C07_proofs.
Local Open Scope Z_scope.

(* ---- rows in standard form ---- *)

Lemma c07_first_fill_std c n : Forall (fun x => 0 <= x) c -> first_fill (c ++ repeat FILL n) = length c.
Proof.
  induction 1 as [|x c Hx _ IH]; simpl.
  - destruct n; reflexivity.
  - unfold is_fill, FILL in *. destruct (x =? -9223372036854775808) eqn:E; [lia|]. f_equal. exact IH.
Qed.

Lemma c07_corners_std c n : Forall (fun x => 0 <= x) c -> corners (c ++ repeat FILL n) = c.
Proof.
  intros H. unfold corners. rewrite c07_first_fill_std by exact H.
  rewrite firstn_app, Nat.sub_diag, firstn_O, app_nil_r. apply firstn_all.
Qed.

Lemma c07_find_first_std c n : Forall (fun x => 0 <= x) c ->
  c07_find_first FILL (c ++ repeat FILL n) = match n with O => None | S _ => Some (length c) end.
Proof.
  induction 1 as [|x c Hx _ IH]; simpl.
  - destruct n; reflexivity.
  - unfold FILL in *. destruct (x =? -9223372036854775808) eqn:E; [lia|].
    rewrite IH. destruct n; reflexivity.
Qed.

Lemma c07_classify_std nmax r :
  std_row r -> length r = nmax -> (1 <= length (corners r))%nat ->
  c07_exo_classify FILL nmax r = ((length (corners r) - 1)%nat, corners r) /\ Forall (fun x => 0 <= x) (corners r).
Proof.
  intros (c & n & -> & Hc) Hl H1. rewrite c07_corners_std in * by exact Hc. split; [|exact Hc].
  unfold c07_exo_classify. rewrite c07_find_first_std by exact Hc.
  destruct n as [|n].
  - simpl in *. rewrite app_nil_r in *. subst nmax. reflexivity.
  - destruct (length c) as [|k] eqn:Ek; [lia|].
    rewrite <- Ek. rewrite firstn_app, Nat.sub_diag, firstn_O, app_nil_r, firstn_all.
    f_equal. lia.
Qed.

(* ---- list.sort(key=len) as a stable counting sort ---- *)

Definition c07_bucket (L : list row) (k : nat) : list row := filter (fun x => (length x =? k)%nat) L.

Lemma c07_insert_pass x l1 l2 :
  Forall (fun y => (length y < length x)%nat) l1 -> c07_insert_len x (l1 ++ l2) = l1 ++ c07_insert_len x l2.
Proof.
  induction 1 as [|y l1 Hy _ IH]; simpl; [reflexivity|].
  destruct (length x <=? length y)%nat eqn:E; [lia|]. f_equal. exact IH.
Qed.

Lemma c07_insert_head x l : Forall (fun y => (length x <= length y)%nat) l -> c07_insert_len x l = x :: l.
Proof.
  destruct l as [|y l]; simpl; [reflexivity|]. intros H. inversion H; subst.
  destruct (length x <=? length y)%nat eqn:E; [reflexivity|lia].
Qed.

Lemma c07_bucket_len L k : Forall (fun y => length y = k) (c07_bucket L k).
Proof.
  apply Forall_forall. intros y Hy. unfold c07_bucket in Hy. apply filter_In in Hy. destruct Hy as [_ Hy]. lia.
Qed.

Lemma c07_flat_bucket_ge L a n :
  Forall (fun y => (a <= length y)%nat) (flat_map (c07_bucket L) (seq a n)).
Proof.
  apply Forall_forall. intros y Hy. apply in_flat_map in Hy. destruct Hy as (k & Hk & Hy).
  apply in_seq in Hk. pose proof (c07_bucket_len L k) as Hb. rewrite Forall_forall in Hb.
  specialize (Hb y Hy). lia.
Qed.

Lemma c07_flat_map_ext_in {A B} (f g : A -> list B) l :
  (forall x, In x l -> f x = g x) -> flat_map f l = flat_map g l.
Proof.
  induction l as [|x l IH]; intros H; simpl; [reflexivity|].
  rewrite (H x) by (left; reflexivity). rewrite IH by (intros y Hy; apply H; right; exact Hy). reflexivity.
Qed.

Lemma c07_insert_buckets x L n : forall a, (a <= length x < a + n)%nat ->
  c07_insert_len x (flat_map (c07_bucket L) (seq a n)) = flat_map (c07_bucket (x :: L)) (seq a n).
Proof.
  induction n as [|n IH]; intros a Ha; [lia|].
  cbn [seq flat_map].
  destruct (Nat.eq_dec (length x) a) as [E|E].
  - (* x opens its own bucket, which is the first one *)
    assert (Hb : c07_bucket (x :: L) a = x :: c07_bucket L a).
    { unfold c07_bucket. simpl. rewrite E, Nat.eqb_refl. reflexivity. }
    rewrite Hb.
    assert (Hrest : flat_map (c07_bucket (x :: L)) (seq (S a) n) = flat_map (c07_bucket L) (seq (S a) n)).
    { apply c07_flat_map_ext_in. intros k Hk. apply in_seq in Hk. unfold c07_bucket. simpl.
      destruct (length x =? k)%nat eqn:E2; [lia|reflexivity]. }
    rewrite Hrest. apply c07_insert_head. apply Forall_app. split.
    + eapply Forall_impl; [|apply c07_bucket_len]. simpl. intros y Hy. lia.
    + eapply Forall_impl; [|apply c07_flat_bucket_ge]. simpl. intros y Hy. lia.
  - assert (Hb : c07_bucket (x :: L) a = c07_bucket L a).
    { unfold c07_bucket. simpl. destruct (length x =? a)%nat eqn:E2; [lia|reflexivity]. }
    rewrite Hb. rewrite c07_insert_pass.
    + f_equal. apply IH. lia.
    + eapply Forall_impl; [|apply c07_bucket_len]. simpl. intros y Hy. lia.
Qed.

Lemma c07_flat_bucket_nil a n : flat_map (c07_bucket []) (seq a n) = [].
Proof. revert a. induction n as [|n IH]; intros a; simpl; [reflexivity|apply IH]. Qed.

Lemma c07_sort_len_buckets n L :
  Forall (fun x => (1 <= length x <= n)%nat) L -> c07_sort_len L = flat_map (c07_bucket L) (seq 1 n).
Proof.
  induction 1 as [|x L Hx _ IH]; simpl.
  - symmetry. apply c07_flat_bucket_nil.
  - rewrite IH. apply c07_insert_buckets. lia.
Qed.

Lemma c07_insert_len_perm x l : Permutation (c07_insert_len x l) (x :: l).
Proof.
  induction l as [|y l IH]; simpl; [reflexivity|].
  destruct (length x <=? length y)%nat; [reflexivity|].
  rewrite IH. apply perm_swap.
Qed.

Lemma c07_sort_len_perm l : Permutation (c07_sort_len l) l.
Proof.
  induction l as [|x l IH]; simpl; [reflexivity|].
  rewrite c07_insert_len_perm. constructor. exact IH.
Qed.

(* ---- num_el_all_blks: one counter per face size ---- *)

Lemma c07_incr_length i l : length (c07_incr i l) = length l.
Proof. revert i. induction l as [|x l IH]; intros [|i]; simpl; auto. Qed.

Lemma c07_nth_incr i l : forall j,
  nth j (c07_incr i l) 0%nat = ((if (i =? j)%nat && (j <? length l)%nat then 1 else 0) + nth j l 0)%nat.
Proof.
  revert i. induction l as [|x l IH]; intros i j.
  - destruct i, j; simpl; rewrite ?andb_false_r; reflexivity.
  - destruct i as [|i], j as [|j]; simpl; try reflexivity.
    rewrite IH. reflexivity.
Qed.

Lemma c07_fold_map {A B C} (f : B -> C -> C) (g : A -> B) l : forall acc,
  fold_left (fun a r => f (g r) a) l acc = fold_left (fun a s => f s a) (map g l) acc.
Proof. induction l as [|x l IH]; intros acc; simpl; [reflexivity|apply IH]. Qed.

Lemma c07_counts_nth slots : forall acc j, (j < length acc)%nat ->
  nth j (fold_left (fun a s => c07_incr s a) slots acc) 0%nat
  = (nth j acc 0 + length (filter (fun s => (s =? j)%nat) slots))%nat.
Proof.
  induction slots as [|s slots IH]; intros acc j Hj; simpl; [lia|].
  rewrite IH by (rewrite c07_incr_length; exact Hj). rewrite c07_nth_incr.
  replace (j <? length acc)%nat with true by lia. rewrite andb_true_r.
  destruct (s =? j)%nat; simpl; lia.
Qed.

Lemma c07_counts_length slots : forall acc, length (fold_left (fun a s => c07_incr s a) slots acc) = length acc.
Proof. induction slots as [|s slots IH]; intros acc; simpl; [reflexivity|]. rewrite IH. apply c07_incr_length. Qed.

Lemma c07_slot_count nmax j t :
  (forall r, In r t -> fst (c07_exo_classify FILL nmax r) = (length (corners r) - 1)%nat
                       /\ (1 <= length (corners r))%nat) ->
  length (filter (fun s => (s =? j)%nat) (map (fun r => fst (c07_exo_classify FILL nmax r)) t))
  = length (c07_bucket (map corners t) (S j)).
Proof.
  induction t as [|r t IH]; intros H; [reflexivity|].
  destruct (H r (or_introl eq_refl)) as [Hc Hr].
  assert (IH' := IH (fun x Hx => H x (or_intror Hx))).
  unfold c07_bucket in *. cbn [map filter]. rewrite Hc.
  destruct (length (corners r) - 1 =? j)%nat eqn:E1; destruct (length (corners r) =? S j)%nat eqn:E2; try lia;
    cbn [length]; rewrite IH'; reflexivity.
Qed.

Lemma c07_counts_buckets nmax t :
  std_table nmax t -> Forall (fun r => (1 <= length (corners r))%nat) t ->
  c07_exo_counts FILL nmax t = map (fun k => length (c07_bucket (map corners t) k)) (seq 1 nmax).
Proof.
  intros Hstd H1. unfold c07_exo_counts.
  rewrite (c07_fold_map c07_incr (fun r => fst (c07_exo_classify FILL nmax r))).
  apply (nth_ext _ _ 0%nat 0%nat).
  - rewrite c07_counts_length, repeat_length, map_length, seq_length. reflexivity.
  - intros j Hj. rewrite c07_counts_length, repeat_length in Hj.
    rewrite c07_counts_nth by (rewrite repeat_length; exact Hj).
    rewrite nth_repeat. cbn [Nat.add].
    rewrite (nth_indep _ 0%nat (length (c07_bucket (map corners t) 0))) by (rewrite map_length, seq_length; exact Hj).
    rewrite (map_nth (fun k => length (c07_bucket (map corners t) k))). rewrite seq_nth by exact Hj.
    apply c07_slot_count. intros r Hr.
    unfold std_table in Hstd. rewrite Forall_forall in Hstd, H1.
    destruct (Hstd r Hr) as [Hl Hs]. destruct (c07_classify_std nmax r Hs Hl (H1 r Hr)) as [Hc _].
    rewrite Hc. split; [reflexivity|apply H1; exact Hr].
Qed.

(* ---- the loop over blocks ---- *)

Definition c07_group_ok (g : list row) : Prop :=
  g <> [] /\ exists w, c07_exo_elem_ok w = true /\ Forall (fun r => length r = w) g.

Lemma c07_blocks_groups groups : forall P,
  Forall c07_group_ok groups ->
  exists bs, c07_exo_blocks true (map (@length row) groups) (length P) (P ++ concat groups) = Some bs /\
    map eb_connect bs = map (map (map (Z.add 1))) groups /\
    Forall2 (fun b g => Forall (fun r => length r = eb_width b) g) bs groups.
Proof.
  induction groups as [|g groups IH]; intros P Hok.
  - exists []. simpl. repeat split; constructor.
  - inversion Hok as [|? ? [Hne (w & Hw & Hlen)] Hok']; subst.
    destruct g as [|r0 g']; [contradiction|].
    cbn [map concat c07_exo_blocks].
    assert (Hnth : nth_error (P ++ (r0 :: g') ++ concat groups) (length P) = Some r0).
    { rewrite nth_error_app2 by lia. rewrite Nat.sub_diag. reflexivity. }
    rewrite Hnth.
    assert (Hr0 : length r0 = w) by (inversion Hlen; assumption).
    rewrite Hr0, Hw. cbn [negb].
    assert (Hblk : firstn (length (r0 :: g')) (skipn (length P) (P ++ (r0 :: g') ++ concat groups)) = r0 :: g').
    { rewrite skipn_app, Nat.sub_diag, skipn_all. rewrite app_nil_l, skipn_O.
      rewrite firstn_app, Nat.sub_diag, firstn_O, app_nil_r. apply firstn_all. }
    rewrite Hblk. rewrite Nat.eqb_refl.
    assert (Hu : forallb (fun r => (length r =? w)%nat) (r0 :: g') = true).
    { apply forallb_forall. intros r Hr. rewrite Forall_forall in Hlen. rewrite (Hlen r Hr). apply Nat.eqb_refl. }
    rewrite Hu. cbn [andb negb].
    destruct (IH (P ++ r0 :: g') Hok') as (bs & Hbs & Hconn & Hw2).
    rewrite app_length in Hbs. rewrite <- app_assoc in Hbs. rewrite Hbs.
    eexists. split; [reflexivity|]. split.
    + cbn [map eb_connect]. f_equal. exact Hconn.
    + constructor; [cbn [eb_width]; exact Hlen|exact Hw2].
Qed.

(* ---- reading every block back ---- *)

Lemma c07_fold_max_ge l : forall a, (a <= fold_left Nat.max l a)%nat /\ Forall (fun x => (x <= fold_left Nat.max l a)%nat) l.
Proof.
  induction l as [|x l IH]; intros a; simpl; [split; [lia|constructor]|].
  destruct (IH (Nat.max a x)) as [H1 H2]. split; [lia|]. constructor; [lia|exact H2].
Qed.

Lemma c07_corners_unshift w r : Forall (fun x => 0 <= x) r -> (length r <= w)%nat ->
  corners (c07_exo_unshift w (map (Z.add 1) r)) = r.
Proof.
  intros Hr Hw. unfold c07_exo_unshift. rewrite map_app, map_map, map_length.
  assert (E1 : map (fun x => if 1 + x - 1 =? -1 then FILL else 1 + x - 1) r = r).
  { rewrite <- (map_id r) at 2. apply map_ext_in. intros x Hx. rewrite Forall_forall in Hr. specialize (Hr x Hx).
    destruct (1 + x - 1 =? -1) eqn:E; lia. }
  rewrite E1.
  assert (E2 : map (fun x => if x - 1 =? -1 then FILL else x - 1) (repeat 0 (w - length r)) = repeat FILL (w - length r)).
  { induction (w - length r)%nat as [|k IH]; simpl; [reflexivity|]. rewrite IH. reflexivity. }
  rewrite E2. apply c07_corners_std. exact Hr.
Qed.

Lemma c07_read_all_corners bs groups w :
  map eb_connect bs = map (map (map (Z.add 1))) groups ->
  Forall2 (fun b g => Forall (fun r => length r = eb_width b) g) bs groups ->
  Forall (fun b => (eb_width b <= w)%nat) bs ->
  Forall (Forall (fun r => Forall (fun x => 0 <= x) r)) groups ->
  map corners (flat_map (fun b => map (c07_exo_unshift w) (eb_connect b)) bs) = concat groups.
Proof.
  intros Hc Hw. revert Hc. induction Hw as [|b g bs groups Hbg _ IH]; intros Hc Hle Hnn; [reflexivity|].
  cbn [map] in Hc. injection Hc as Hc1 Hc2.
  inversion Hle; subst. inversion Hnn; subst.
  cbn [flat_map concat]. rewrite map_app. f_equal; [|apply IH; assumption].
  rewrite Hc1, !map_map. rewrite <- (map_id g) at 2. apply map_ext_in. intros r Hr.
  apply c07_corners_unshift.
  - match goal with H : Forall (fun r => Forall _ r) g |- _ => rewrite Forall_forall in H; apply H; exact Hr end.
  - rewrite Forall_forall in Hbg. rewrite (Hbg r Hr). assumption.
Qed.

(* ---- empty groups are skipped ---- *)

Definition c07_nonemptyb (g : list row) : bool := negb (length g =? 0)%nat.

Lemma c07_filter_nonzero_groups (groups : list (list row)) :
  filter (fun n => negb (n =? 0)%nat) (map (@length row) groups) = map (@length row) (filter c07_nonemptyb groups).
Proof.
  induction groups as [|g groups IH]; simpl; [reflexivity|]. unfold c07_nonemptyb at 1.
  destruct (length g =? 0)%nat; simpl; rewrite IH; reflexivity.
Qed.

Lemma c07_concat_nonempty (groups : list (list row)) : concat (filter c07_nonemptyb groups) = concat groups.
Proof.
  induction groups as [|g groups IH]; simpl; [reflexivity|]. unfold c07_nonemptyb at 1.
  destruct g as [|r g]; simpl; [exact IH|]. rewrite IH. reflexivity.
Qed.

(* ---- the theorem ---- *)

Theorem c07_exodus_repaired_roundtrip vr nmax t :
  vr_exo_fill vr = FILL -> vr_exo_accumulate vr = true -> vr_exo_read_all vr = true ->
  std_table nmax t -> Forall (fun r => c07_exo_elem_ok (length (corners r)) = true) t ->
  exists bs, c07_exo_connect vr nmax t = Some bs /\
    Permutation (map corners (c07_read_exodus_conn vr bs)) (map corners t).
Proof.
  intros Hfill Hacc Hall Hstd Hel.
  assert (H1 : Forall (fun r => (1 <= length (corners r))%nat) t).
  { eapply Forall_impl; [|exact Hel]. simpl. intros r Hr. unfold c07_exo_elem_ok in Hr. lia. }
  set (L := map corners t).
  assert (Hcls : forall r, In r t -> c07_exo_classify FILL nmax r = ((length (corners r) - 1)%nat, corners r)
                                     /\ Forall (fun x => 0 <= x) (corners r) /\ (length (corners r) <= nmax)%nat).
  { intros r Hr. unfold std_table in Hstd. rewrite Forall_forall in Hstd, H1.
    destruct (Hstd r Hr) as [Hl Hs]. destruct (c07_classify_std nmax r Hs Hl (H1 r Hr)) as [Ha Hb].
    repeat split; [exact Ha|exact Hb|]. unfold corners. rewrite firstn_length. lia. }
  assert (HL : Forall (fun x => (1 <= length x <= nmax)%nat) L).
  { apply Forall_forall. intros x Hx. unfold L in Hx. apply in_map_iff in Hx. destruct Hx as (r & <- & Hr).
    rewrite Forall_forall in H1. specialize (H1 r Hr). destruct (Hcls r Hr) as (_ & _ & Hle). lia. }
  set (groups := map (c07_bucket L) (seq 1 nmax)).
  unfold c07_exo_connect. rewrite Hfill, Hacc.
  rewrite (c07_counts_buckets nmax t Hstd H1). fold L.
  assert (Hmap : map (fun r => snd (c07_exo_classify FILL nmax r)) t = L).
  { unfold L. apply map_ext_in. intros r Hr. destruct (Hcls r Hr) as (Ha & _). rewrite Ha. reflexivity. }
  rewrite Hmap. rewrite (c07_sort_len_buckets nmax L HL).
  replace (map (fun k => length (c07_bucket L k)) (seq 1 nmax)) with (map (@length row) groups)
    by (unfold groups; rewrite map_map; reflexivity).
  rewrite flat_map_concat_map. fold groups.
  rewrite c07_filter_nonzero_groups. rewrite <- (c07_concat_nonempty groups).
  set (G := filter c07_nonemptyb groups).
  assert (HG : Forall c07_group_ok G).
  { apply Forall_forall. intros g Hg. unfold G in Hg. apply filter_In in Hg. destruct Hg as [Hg Hne].
    unfold groups in Hg. apply in_map_iff in Hg. destruct Hg as (k & <- & Hk).
    split; [intros E; rewrite E in Hne; discriminate|].
    exists k. split; [|apply c07_bucket_len].
    (* some face has k corners, and every face size is an Exodus element type *)
    destruct (c07_bucket L k) as [|x b] eqn:Eb; [discriminate|].
    assert (Hx : In x (c07_bucket L k)) by (rewrite Eb; left; reflexivity).
    unfold c07_bucket in Hx. apply filter_In in Hx. destruct Hx as [Hx Hlen].
    unfold L in Hx. apply in_map_iff in Hx. destruct Hx as (r & <- & Hr).
    rewrite Forall_forall in Hel. specialize (Hel r Hr). replace k with (length (corners r)) by lia. exact Hel. }
  destruct (c07_blocks_groups G [] HG) as (bs & Hbs & Hconn & Hwid).
  cbn [length app] in Hbs. rewrite Hbs. exists bs. split; [reflexivity|].
  unfold c07_read_exodus_conn. rewrite Hall.
  assert (HnnG : Forall (Forall (fun r => Forall (fun x => 0 <= x) r)) G).
  { apply Forall_forall. intros g Hg. apply Forall_forall. intros x Hx.
    unfold G in Hg. apply filter_In in Hg. destruct Hg as [Hg _]. unfold groups in Hg.
    apply in_map_iff in Hg. destruct Hg as (k & <- & _). unfold c07_bucket in Hx. apply filter_In in Hx.
    destruct Hx as [Hx _]. unfold L in Hx. apply in_map_iff in Hx. destruct Hx as (r & <- & Hr).
    apply (Hcls r Hr). }
  rewrite (c07_read_all_corners bs G _ Hconn Hwid); [| |exact HnnG].
  - unfold G. rewrite c07_concat_nonempty. unfold groups. rewrite <- flat_map_concat_map.
    rewrite <- (c07_sort_len_buckets nmax L HL). apply c07_sort_len_perm.
  - destruct (c07_fold_max_ge (map eb_width bs) 0%nat) as [_ Hm]. rewrite Forall_map in Hm. exact Hm.
Qed.

(* the blocks made explicit, for ANY number of blocks: block k holds exactly the faces with the k-th
   smallest occurring corner count, in their original order, shifted to 1-based numbering; the reader
   returns the faces block after block *)
Definition c07_size_groups (nmax : nat) (t : table) : list (list row) :=
  filter c07_nonemptyb (map (c07_bucket (map corners t)) (seq 1 nmax)).

Theorem c07_exodus_blocks_explicit vr nmax t :
  vr_exo_fill vr = FILL -> vr_exo_accumulate vr = true -> vr_exo_read_all vr = true ->
  std_table nmax t -> Forall (fun r => c07_exo_elem_ok (length (corners r)) = true) t ->
  exists bs, c07_exo_connect vr nmax t = Some bs /\
    map eb_connect bs = map (map (map (Z.add 1))) (c07_size_groups nmax t) /\
    map corners (c07_read_exodus_conn vr bs) = concat (c07_size_groups nmax t).
Proof.
  intros Hfill Hacc Hall Hstd Hel.
  assert (H1 : Forall (fun r => (1 <= length (corners r))%nat) t).
  { eapply Forall_impl; [|exact Hel]. simpl. intros r Hr. unfold c07_exo_elem_ok in Hr. lia. }
  set (L := map corners t).
  assert (Hcls : forall r, In r t -> c07_exo_classify FILL nmax r = ((length (corners r) - 1)%nat, corners r)
                                     /\ Forall (fun x => 0 <= x) (corners r) /\ (length (corners r) <= nmax)%nat).
  { intros r Hr. unfold std_table in Hstd. rewrite Forall_forall in Hstd, H1.
    destruct (Hstd r Hr) as [Hl Hs]. destruct (c07_classify_std nmax r Hs Hl (H1 r Hr)) as [Ha Hb].
    repeat split; [exact Ha|exact Hb|]. unfold corners. rewrite firstn_length. lia. }
  assert (HL : Forall (fun x => (1 <= length x <= nmax)%nat) L).
  { apply Forall_forall. intros x Hx. unfold L in Hx. apply in_map_iff in Hx. destruct Hx as (r & <- & Hr).
    rewrite Forall_forall in H1. specialize (H1 r Hr). destruct (Hcls r Hr) as (_ & _ & Hle). lia. }
  set (groups := map (c07_bucket L) (seq 1 nmax)).
  unfold c07_exo_connect. rewrite Hfill, Hacc.
  rewrite (c07_counts_buckets nmax t Hstd H1). fold L.
  assert (Hmap : map (fun r => snd (c07_exo_classify FILL nmax r)) t = L).
  { unfold L. apply map_ext_in. intros r Hr. destruct (Hcls r Hr) as (Ha & _). rewrite Ha. reflexivity. }
  rewrite Hmap. rewrite (c07_sort_len_buckets nmax L HL).
  replace (map (fun k => length (c07_bucket L k)) (seq 1 nmax)) with (map (@length row) groups)
    by (unfold groups; rewrite map_map; reflexivity).
  rewrite flat_map_concat_map. fold groups.
  rewrite c07_filter_nonzero_groups. rewrite <- (c07_concat_nonempty groups).
  set (G := filter c07_nonemptyb groups).
  assert (HG : Forall c07_group_ok G).
  { apply Forall_forall. intros g Hg. unfold G in Hg. apply filter_In in Hg. destruct Hg as [Hg Hne].
    unfold groups in Hg. apply in_map_iff in Hg. destruct Hg as (k & <- & Hk).
    split; [intros E; rewrite E in Hne; discriminate|].
    exists k. split; [|apply c07_bucket_len].
    (* some face has k corners, and every face size is an Exodus element type *)
    destruct (c07_bucket L k) as [|x b] eqn:Eb; [discriminate|].
    assert (Hx : In x (c07_bucket L k)) by (rewrite Eb; left; reflexivity).
    unfold c07_bucket in Hx. apply filter_In in Hx. destruct Hx as [Hx Hlen].
    unfold L in Hx. apply in_map_iff in Hx. destruct Hx as (r & <- & Hr).
    rewrite Forall_forall in Hel. specialize (Hel r Hr). replace k with (length (corners r)) by lia. exact Hel. }
  destruct (c07_blocks_groups G [] HG) as (bs & Hbs & Hconn & Hwid).
  cbn [length app] in Hbs. rewrite Hbs. exists bs. split; [reflexivity|].
  split; [exact Hconn|].
  unfold c07_read_exodus_conn. rewrite Hall.
  assert (HnnG : Forall (Forall (fun r => Forall (fun x => 0 <= x) r)) G).
  { apply Forall_forall. intros g Hg. apply Forall_forall. intros x Hx.
    unfold G in Hg. apply filter_In in Hg. destruct Hg as [Hg _]. unfold groups in Hg.
    apply in_map_iff in Hg. destruct Hg as (k & <- & _). unfold c07_bucket in Hx. apply filter_In in Hx.
    destruct Hx as [Hx _]. unfold L in Hx. apply in_map_iff in Hx. destruct Hx as (r & <- & Hr).
    apply (Hcls r Hr). }
  rewrite (c07_read_all_corners bs G _ Hconn Hwid); [| |exact HnnG].
  - reflexivity.
  - destruct (c07_fold_max_ge (map eb_width bs) 0%nat) as [_ Hm]. rewrite Forall_map in Hm. exact Hm.
Qed.

Example c07_exodus_blocks_explicit_nonvacuous :
  c07_size_groups 5 [[0; 1; 2; FILL; FILL]; [2; 3; 4; 5; 6]; [2; 1; 7; FILL; FILL]; [1; 0; 8; 9; FILL]]
  = [[[0; 1; 2]; [2; 1; 7]]; [[1; 0; 8; 9]]; [[2; 3; 4; 5; 6]]].
Proof. vm_compute. reflexivity. Qed.

Example c07_exodus_repaired_nonvacuous :
  exists bs, c07_exo_connect c07_repaired 5 [[0; 1; 2; FILL; FILL]; [2; 3; 4; 5; 6]; [2; 1; 7; FILL; FILL]; [1; 0; 8; 9; FILL]] = Some bs
    /\ map corners (c07_read_exodus_conn c07_repaired bs) = [[0; 1; 2]; [2; 1; 7]; [1; 0; 8; 9]; [2; 3; 4; 5; 6]].
Proof. eexists. split; vm_compute; reflexivity. Qed.

(* instantiated at the code as it is *)
Corollary c07_exodus_roundtrip_faithful nmax t :
  std_table nmax t -> Forall (fun r => c07_exo_elem_ok (length (corners r)) = true) t ->
  exists bs, c07_exo_connect c07_faithful nmax t = Some bs /\
    Permutation (map corners (c07_read_exodus_conn c07_faithful bs)) (map corners t).
Proof. apply c07_exodus_repaired_roundtrip; reflexivity. Qed.
