(* Proofs about the quadrature tables generated from uxarray/grid/area.py (Gen/C05_tables.v):
   finite obligations, discharged by vm_compute through a boolean checker proved sound here. *)
From Coq Require Import Reals Lra Psatz ZifyBool.
From Verif Require Import Base C05_rules.

Local Open Scope Z_scope.

(* ========================================================================================== *)
(* Part A — tables                                                                              *)

Definition c05_close (num den p q : Z) : Prop :=
  Z.abs (num * q - p * den) * c05_tol_den <= c05_tol_num * (den * q).

Lemma c05_closeb_sound num den p q : c05_closeb num den p q = true -> c05_close num den p q.
Proof. unfold c05_closeb, c05_close. intros H. apply Z.leb_le in H. exact H. Qed.

(* a 1-D rule on [0,1] with numerators over D: as many points as weights, weights > 0, points in
   [0,1], and sum_i w_i g_i^k = 1/(k+1) within 5e-15 for every k <= deg *)
Record c05_rule1_ok (D : Z) (r : c05_rule1) (deg : nat) : Prop := {
  c05_r1_len : length (fst r) = length (snd r);
  c05_r1_pos : Forall (fun w => 0 < w) (snd r);
  c05_r1_in : Forall (fun g => 0 <= g <= D) (fst r);
  c05_r1_exact : forall k, (k <= deg)%nat ->
      c05_close (c05_moment1 r k) (D ^ Z.of_nat (S k)) 1 (Z.of_nat (S k))
}.

Lemma c05_rule1_okb_sound D r deg : c05_rule1_okb D r deg = true -> c05_rule1_ok D r deg.
Proof.
  unfold c05_rule1_okb. rewrite !andb_true_iff. intros [[[H1 H2] H3] H4]. split.
  - apply Nat.eqb_eq. exact H1.
  - apply Forall_forall. intros w Hw. rewrite forallb_forall in H2. specialize (H2 w Hw). lia.
  - apply Forall_forall. intros g Hg. rewrite forallb_forall in H3. specialize (H3 g Hg). lia.
  - intros k Hk. unfold c05_rule1_exactb in H4. rewrite forallb_forall in H4.
    apply c05_closeb_sound. apply H4. apply in_seq. lia.
Qed.

(* a triangle rule in the two coordinates the code reads (dA = dG[p][0], dB = dG[p][1]) with
   numerators over D: weights > 0, (dA, dB, 1-dA-dB) in the closed simplex, and
   sum_i w_i dA_i^a dB_i^b = 2 a! b! / (a+b+2)!  within 5e-15 whenever a + b <= deg *)
Record c05_rule2_ok (D : Z) (r : c05_rule2) (deg : nat) : Prop := {
  c05_r2_len : length (fst r) = length (snd r);
  c05_r2_pos : Forall (fun w => 0 < w) (snd r);
  c05_r2_in : Forall (fun p => 0 <= fst (fst p) /\ 0 <= snd (fst p) /\ fst (fst p) + snd (fst p) <= D) (fst r);
  c05_r2_exact : forall a b, (a + b <= deg)%nat ->
      c05_close (c05_moment2 r a b) (D ^ Z.of_nat (S (a + b)))
                (2 * c05_fact a * c05_fact b) (c05_fact (a + b + 2))
}.

Lemma c05_monomials_in deg a b : (a + b <= deg)%nat -> In (a, b) (c05_monomials deg).
Proof.
  intros H. unfold c05_monomials. apply in_flat_map. exists a. split.
  - apply in_seq. lia.
  - apply in_map. apply in_seq. lia.
Qed.

Lemma c05_rule2_okb_sound D r deg : c05_rule2_okb D r deg = true -> c05_rule2_ok D r deg.
Proof.
  unfold c05_rule2_okb. rewrite !andb_true_iff. intros [[[H1 H2] H3] H4]. split.
  - apply Nat.eqb_eq. exact H1.
  - apply Forall_forall. intros w Hw. rewrite forallb_forall in H2. specialize (H2 w Hw). lia.
  - apply Forall_forall. intros p Hp. rewrite forallb_forall in H3. specialize (H3 p Hp).
    cbv zeta in H3. lia.
  - intros a b Hab. unfold c05_rule2_exactb in H4. rewrite forallb_forall in H4.
    apply c05_closeb_sound. exact (H4 (a, b) (c05_monomials_in deg a b Hab)).
Qed.

Definition c05_gauss_ok (n : Z) : Prop :=
  exists r, c05_gauss_rule n = Some r /\ c05_rule1_ok c05_gden r (c05_gauss_degree n).
Definition c05_tri_ok (n : Z) : Prop :=
  exists r, c05_tri_rule n = Some r /\ c05_rule2_ok c05_den r (c05_tri_degree n).

Lemma c05_gauss_okb_sound n : c05_gauss_okb n = true -> c05_gauss_ok n.
Proof.
  unfold c05_gauss_okb, c05_gauss_ok. destruct (c05_gauss_rule n) as [r|]; [|discriminate].
  intros H. exists r. split; [reflexivity|]. apply c05_rule1_okb_sound. exact H.
Qed.
Lemma c05_tri_okb_sound n : c05_tri_okb n = true -> c05_tri_ok n.
Proof.
  unfold c05_tri_okb, c05_tri_ok. destruct (c05_tri_rule n) as [r|]; [|discriminate].
  intros H. exists r. split; [reflexivity|]. apply c05_rule2_okb_sound. exact H.
Qed.

(* ---- the power-table checkers compute the same thing ---- *)
Lemma c05_pows_from_nth x acc n a :
  (a <= n)%nat -> nth a (c05_pows_from x acc n) 0 = acc * x ^ Z.of_nat a.
Proof.
  revert acc a. induction n as [|n IH]; intros acc a H.
  - assert (a = 0%nat) by lia. subst a. cbn. lia.
  - destruct a as [|a]; cbn [c05_pows_from nth]; [cbn; lia|].
    rewrite IH by lia. rewrite Nat2Z.inj_succ, Z.pow_succ_r by lia. lia.
Qed.

Lemma c05_pows_nth x n a : (a <= n)%nat -> nth a (c05_pows x n) 0 = x ^ Z.of_nat a.
Proof. intros H. unfold c05_pows. rewrite c05_pows_from_nth by exact H. lia. Qed.

Lemma c05_forallb_ext {A} (f g : A -> bool) l :
  (forall x, In x l -> f x = g x) -> forallb f l = forallb g l.
Proof.
  induction l as [|x l IH]; intros H; cbn; [reflexivity|].
  rewrite H by (left; reflexivity). rewrite IH by (intros; apply H; right; assumption). reflexivity.
Qed.

Lemma c05_monomials_bound deg a b : In (a, b) (c05_monomials deg) -> (a + b <= deg)%nat.
Proof.
  unfold c05_monomials. intros H. apply in_flat_map in H. destruct H as (a' & Ha & H).
  apply in_map_iff in H. destruct H as (b' & E & Hb). injection E as <- <-.
  apply in_seq in Ha. apply in_seq in Hb. lia.
Qed.

Lemma c05_rule1_exactb_fast_eq D r deg : c05_rule1_exactb_fast D r deg = c05_rule1_exactb D r deg.
Proof.
  unfold c05_rule1_exactb_fast, c05_rule1_exactb. cbv zeta. apply c05_forallb_ext. intros k Hk.
  apply in_seq in Hk. rewrite c05_pows_nth by lia. f_equal.
  unfold c05_moment1. rewrite map_map. f_equal. apply map_ext. intros [g w]. cbn [fst snd].
  rewrite c05_pows_nth by lia. reflexivity.
Qed.

Lemma c05_rule2_exactb_fast_eq D r deg : c05_rule2_exactb_fast D r deg = c05_rule2_exactb D r deg.
Proof.
  unfold c05_rule2_exactb_fast, c05_rule2_exactb. cbv zeta. apply c05_forallb_ext. intros [a b] Hab.
  apply c05_monomials_bound in Hab. cbn [fst snd]. rewrite c05_pows_nth by lia. f_equal.
  unfold c05_moment2. rewrite map_map. f_equal. apply map_ext. intros [[[x y] z] w]. cbn [fst snd].
  rewrite !c05_pows_nth by lia. reflexivity.
Qed.

Lemma c05_gauss_okb_fast_sound n : c05_gauss_okb_fast n = true -> c05_gauss_ok n.
Proof.
  intros H. apply c05_gauss_okb_sound. revert H. unfold c05_gauss_okb_fast, c05_gauss_okb.
  destruct (c05_gauss_rule n); [|discriminate]. unfold c05_rule1_okb_fast, c05_rule1_okb.
  rewrite c05_rule1_exactb_fast_eq. exact (fun H => H).
Qed.
Lemma c05_tri_okb_fast_sound n : c05_tri_okb_fast n = true -> c05_tri_ok n.
Proof.
  intros H. apply c05_tri_okb_sound. revert H. unfold c05_tri_okb_fast, c05_tri_okb.
  destruct (c05_tri_rule n); [|discriminate]. unfold c05_rule2_okb_fast, c05_rule2_okb.
  rewrite c05_rule2_exactb_fast_eq. exact (fun H => H).
Qed.

Local Open Scope R_scope.

Definition c05_apx (p : c05_iv) (r : R) : Prop :=
  (0 <= fst p)%Z /\ (0 <= snd p)%Z /\ IZR (fst p) <= r * IZR c05_E <= IZR (fst p + snd p).

Lemma c05_E_pos : 1 <= IZR c05_E.
Proof. apply IZR_le. unfold c05_E, c05_Ebits. lia. Qed.

Lemma c05_IZR_div_floor a b : (0 < b)%Z ->
  IZR (a / b) * IZR b <= IZR a < (IZR (a / b) + 1) * IZR b.
Proof.
  intros Hb. pose proof (Z.mul_div_le a b Hb). pose proof (Z.mul_succ_div_gt a b Hb).
  split.
  - rewrite <- mult_IZR. apply IZR_le. lia.
  - replace ((IZR (a / b) + 1) * IZR b) with (IZR (b * Z.succ (a / b))).
    + apply IZR_lt. lia.
    + rewrite mult_IZR, succ_IZR. ring.
Qed.

Lemma c05_apx_in D x : (0 < D)%Z -> (0 <= x)%Z -> c05_apx (c05_iv_in D x) (IZR x / IZR D).
Proof.
  intros HD Hx. unfold c05_apx, c05_iv_in. cbn [fst snd].
  rewrite Z.shiftl_mul_pow2 by (unfold c05_Ebits; lia). fold c05_E.
  assert (HE : (0 < c05_E)%Z) by (unfold c05_E, c05_Ebits; lia).
  split; [apply Z.div_pos; nia|]. split; [lia|].
  pose proof (c05_IZR_div_floor (x * c05_E) D HD) as [H1 H2]. rewrite mult_IZR in H1, H2.
  assert (0 < IZR D) by (apply IZR_lt; exact HD).
  rewrite plus_IZR. unfold Rdiv. split.
  - apply Rmult_le_reg_r with (IZR D); [assumption|]. replace (IZR x * / IZR D * IZR c05_E * IZR D) with (IZR x * IZR c05_E) by (field; lra). exact H1.
  - apply Rmult_le_reg_r with (IZR D); [assumption|]. replace (IZR x * / IZR D * IZR c05_E * IZR D) with (IZR x * IZR c05_E) by (field; lra). lra.
Qed.

Lemma c05_apx_one : c05_apx c05_iv_one 1.
Proof.
  unfold c05_apx, c05_iv_one. cbn [fst snd]. pose proof c05_E_pos.
  split; [unfold c05_E, c05_Ebits; lia|]. split; [lia|]. rewrite Z.add_0_r. lra.
Qed.

Lemma c05_apx_mul p q r s :
  c05_apx p r -> c05_apx q s -> 0 <= r <= 1 -> 0 <= s <= 1 -> c05_apx (c05_iv_mul p q) (r * s).
Proof.
  intros (Hu & Heu & Hp1 & Hp2) (Hv & Hev & Hq1 & Hq2) Hr Hs.
  unfold c05_apx, c05_iv_mul. cbn [fst snd].
  rewrite Z.shiftr_div_pow2 by (unfold c05_Ebits; lia). fold c05_E.
  assert (HE : (0 < c05_E)%Z) by (unfold c05_E, c05_Ebits; lia).
  pose proof c05_E_pos as HE1.
  split; [apply Z.div_pos; nia|]. split; [nia|].
  pose proof (c05_IZR_div_floor (fst p * fst q) c05_E HE) as [H1 H2]. rewrite mult_IZR in H1, H2.
  set (u := IZR (fst p)) in *. set (v := IZR (fst q)) in *. set (E := IZR c05_E) in *.
  set (w := IZR (fst p * fst q / c05_E)) in *.
  rewrite plus_IZR in Hp2, Hq2. fold u in Hp2. fold v in Hq2. set (eu := IZR (snd p)) in *. set (ev := IZR (snd q)) in *.
  assert (0 <= u) by (apply IZR_le; exact Hu). assert (0 <= v) by (apply IZR_le; exact Hv).
  assert (0 <= eu) by (apply IZR_le; exact Heu). assert (0 <= ev) by (apply IZR_le; exact Hev).
  rewrite !plus_IZR, mult_IZR. fold eu ev w. change (IZR 1) with 1.
  split.
  - (* w E <= u v <= (rE)(sE) *)
    apply Rmult_le_reg_r with E; [lra|]. 
    assert (u * v <= (r * E) * (s * E)) by (apply Rmult_le_compat; lra). nra.
  - apply Rmult_le_reg_r with E; [lra|].
    assert (0 <= r * E) by (apply Rmult_le_pos; lra). assert (0 <= s * E) by (apply Rmult_le_pos; lra).
    assert ((r * E) * (s * E) <= (u + eu) * (v + ev)) by (apply Rmult_le_compat; lra).
    assert (u <= E) by nra. assert (v <= E) by nra.
    assert (0 <= eu * ev) by (apply Rmult_le_pos; lra).
    assert (eu * ev <= eu * ev * E) by nra.
    assert (u * ev <= E * ev) by (apply Rmult_le_compat_r; lra).
    assert (v * eu <= E * eu) by (apply Rmult_le_compat_r; lra).
    replace (r * s * E * E) with (r * E * (s * E)) by ring.
    replace ((u + eu) * (v + ev)) with (u * v + u * ev + v * eu + eu * ev) in * by ring.
    replace ((w + (1 + eu + ev + eu * ev)) * E) with ((w + 1) * E + E * ev + E * eu + eu * ev * E) by ring.
    lra.
Qed.

Lemma c05_apx_add p q r s : c05_apx p r -> c05_apx q s -> c05_apx (c05_iv_add p q) (r + s).
Proof.
  intros (Hu & Heu & Hp1 & Hp2) (Hv & Hev & Hq1 & Hq2). unfold c05_apx, c05_iv_add. cbn [fst snd].
  split; [lia|]. split; [lia|]. rewrite !plus_IZR in *. lra.
Qed.

Lemma c05_apx_sum {A} (f : A -> c05_iv) (g : A -> R) l :
  (forall x, In x l -> c05_apx (f x) (g x)) ->
  c05_apx (c05_iv_sum (map f l)) (fold_right Rplus 0 (map g l)).
Proof.
  induction l as [|x l IH]; intros H; cbn [map fold_right c05_iv_sum].
  - unfold c05_apx. cbn. repeat split; try lia; lra.
  - apply c05_apx_add; [apply H; left; reflexivity|]. apply IH. intros y Hy. apply H. right. exact Hy.
Qed.

Lemma c05_pow01 r a : 0 <= r <= 1 -> 0 <= r ^ a <= 1.
Proof. intros H. induction a as [|a IH]; cbn [pow]; [lra|nra]. Qed.

Lemma c05_apx_pows x rx : c05_apx x rx -> 0 <= rx <= 1 ->
  forall n acc racc a, c05_apx acc racc -> 0 <= racc <= 1 -> (a <= n)%nat ->
  c05_apx (nth a (c05_iv_pows_from x acc n) (0%Z, 0%Z)) (racc * rx ^ a).
Proof.
  intros Hx Hrx. induction n as [|n IH]; intros acc racc a Hacc Hr Ha.
  - assert (a = 0%nat) by lia. subst a. cbn [c05_iv_pows_from nth pow]. rewrite Rmult_1_r. exact Hacc.
  - destruct a as [|a]; cbn [c05_iv_pows_from nth pow]; [rewrite Rmult_1_r; exact Hacc|].
    replace (racc * (rx * rx ^ a)) with ((racc * rx) * rx ^ a) by ring.
    apply IH; [apply c05_apx_mul; assumption| nra | lia].
Qed.

Lemma c05_pow_div_cancel x D a : D <> 0 -> (x / D) ^ a * D ^ a = x ^ a.
Proof. intros HD. induction a as [|a IH]; cbn [pow]; [ring|]. rewrite <- IH. field. exact HD. Qed.

Lemma c05_term_scale w x y D a b : D <> 0 ->
  w / D * (x / D) ^ a * (y / D) ^ b * D ^ S (a + b) = w * x ^ a * y ^ b.
Proof.
  intros HD. rewrite <- (c05_pow_div_cancel x D a HD), <- (c05_pow_div_cancel y D b HD).
  cbn [pow]. rewrite pow_add. field. exact HD.
Qed.

Lemma c05_moment2_real (D : Z) (l : list (Z * Z * Z * Z)) a b : (0 < D)%Z ->
  fold_right Rplus 0 (map (fun pw => IZR (snd pw) / IZR D * (IZR (fst (fst (fst pw))) / IZR D) ^ a
                                     * (IZR (snd (fst (fst pw))) / IZR D) ^ b) l) * IZR D ^ S (a + b) =
  IZR (c05_sumZ (map (fun pw => snd pw * fst (fst (fst pw)) ^ Z.of_nat a * snd (fst (fst pw)) ^ Z.of_nat b)%Z l)).
Proof.
  intros HD. assert (IZR D <> 0) by (apply not_0_IZR; lia).
  unfold c05_sumZ. induction l as [|pw l IH]; cbn [map fold_right]; [cbn; ring|].
  rewrite plus_IZR, <- IH, Rmult_plus_distr_r. f_equal.
  rewrite c05_term_scale by assumption. rewrite !mult_IZR, <- !pow_IZR. reflexivity.
Qed.

Lemma c05_iv_closeb_sound s r mom d p q :
  c05_apx s r -> r * IZR d = IZR mom -> (0 < d)%Z -> (0 < q)%Z ->
  c05_iv_closeb s p q = true -> c05_close mom d p q.
Proof.
  intros (Hu & He & H1 & H2) Hr Hd Hq Hb. unfold c05_iv_closeb in Hb. apply andb_true_iff in Hb.
  destruct Hb as [Hb1 Hb2]. apply Z.leb_le in Hb1, Hb2. apply IZR_le in Hb1, Hb2.
  unfold c05_close. apply le_IZR.
  rewrite !mult_IZR, !minus_IZR, !mult_IZR, ?plus_IZR in *. rewrite abs_IZR, minus_IZR, !mult_IZR.
  pose proof c05_E_pos as HE. assert (0 < IZR d) by (apply IZR_lt; exact Hd). assert (0 < IZR q) by (apply IZR_lt; exact Hq).
  assert (Htd : 0 < IZR c05_tol_den) by (apply IZR_lt; reflexivity).
  rewrite <- Hr.
  set (E := IZR c05_E) in *. set (S := IZR (fst s)) in *. set (e := IZR (snd s)) in *.
  set (P := IZR p) in *. set (Q := IZR q) in *. set (DD := IZR d) in *.
  set (td := IZR c05_tol_den) in *. set (tn := IZR c05_tol_num) in *.
  replace (r * DD * Q - P * DD) with (DD * (r * Q - P)) by ring.
  rewrite Rabs_mult, (Rabs_right DD) by lra.
  assert (Hk : Rabs (r * Q - P) * td <= tn * Q).
  { apply Rmult_le_reg_r with E; [lra|]. 
    assert (K1 : (r * E * Q - P * E) * td <= tn * (E * Q)).
    { apply Rle_trans with (((S + e) * Q - P * E) * td); [|exact Hb1].
      apply Rmult_le_compat_r; [lra|]. nra. }
    assert (K2 : (P * E - r * E * Q) * td <= tn * (E * Q)).
    { apply Rle_trans with ((P * E - S * Q) * td); [|exact Hb2].
      apply Rmult_le_compat_r; [lra|]. nra. }
    unfold Rabs. destruct (Rcase_abs (r * Q - P)); nra. }
  replace (DD * Rabs (r * Q - P) * td) with (DD * (Rabs (r * Q - P) * td)) by ring.
  replace (tn * (DD * Q)) with (DD * (tn * Q)) by ring.
  apply Rmult_le_compat_l; lra.
Qed.

Lemma c05_fact_pos n : (0 < c05_fact n)%Z.
Proof. induction n as [|n IH]; [reflexivity|]. cbn [c05_fact]. nia. Qed.

(* the enclosure checker implies the exact statement about the rule *)
Lemma c05_rule2_okb_iv_sound D r deg : c05_rule2_okb_iv D r deg = true -> c05_rule2_ok D r deg.
Proof.
  unfold c05_rule2_okb_iv. rewrite !andb_true_iff. intros [[[[HD H1] H2] H3] H4].
  apply Z.ltb_lt in HD. rewrite forallb_forall in H2, H3.
  assert (HDr : 0 < IZR D) by (apply IZR_lt; exact HD).
  split.
  - apply Nat.eqb_eq. exact H1.
  - apply Forall_forall. intros w Hw. specialize (H2 w Hw). lia.
  - apply Forall_forall. intros p Hp. specialize (H3 p Hp). cbv zeta in H3. lia.
  - intros a b Hab. unfold c05_rule2_exactb_iv in H4. cbv zeta in H4. rewrite forallb_forall in H4.
    specialize (H4 (a, b) (c05_monomials_in deg a b Hab)). cbn [fst snd] in H4. rewrite map_map in H4. cbn [fst snd] in H4.
    set (g := fun pw : Z * Z * Z * Z =>
                (IZR (snd pw) / IZR D * (1 * (IZR (fst (fst (fst pw))) / IZR D) ^ a)
                 * (1 * (IZR (snd (fst (fst pw))) / IZR D) ^ b))%R).
    eapply (c05_iv_closeb_sound _ (fold_right Rplus 0%R (map g (combine (fst r) (snd r))))); [| | | |exact H4].
    + apply c05_apx_sum. intros [[[x y] z] w] Hin. cbn [fst snd].
      pose proof (in_combine_l _ _ _ _ Hin) as Hp. pose proof (in_combine_r _ _ _ _ Hin) as Hw.
      specialize (H2 w Hw). specialize (H3 _ Hp). cbv zeta in H3. cbn [fst snd] in H3.
      assert (Bx : (0 <= IZR x / IZR D <= 1)%R).
      { split; [apply Rmult_le_pos; [apply IZR_le; lia|left; apply Rinv_0_lt_compat; exact HDr]|].
        apply Rmult_le_reg_r with (IZR D); [exact HDr|]. unfold Rdiv. rewrite Rmult_assoc, Rinv_l, Rmult_1_r, Rmult_1_l by lra.
        apply IZR_le. lia. }
      assert (By : (0 <= IZR y / IZR D <= 1)%R).
      { split; [apply Rmult_le_pos; [apply IZR_le; lia|left; apply Rinv_0_lt_compat; exact HDr]|].
        apply Rmult_le_reg_r with (IZR D); [exact HDr|]. unfold Rdiv. rewrite Rmult_assoc, Rinv_l, Rmult_1_r, Rmult_1_l by lra.
        apply IZR_le. lia. }
      assert (Bw : (0 <= IZR w / IZR D <= 1)%R).
      { split; [apply Rmult_le_pos; [apply IZR_le; lia|left; apply Rinv_0_lt_compat; exact HDr]|].
        apply Rmult_le_reg_r with (IZR D); [exact HDr|]. unfold Rdiv. rewrite Rmult_assoc, Rinv_l, Rmult_1_r, Rmult_1_l by lra.
        apply IZR_le. lia. }
      pose proof (c05_pow01 _ a Bx) as Pa. pose proof (c05_pow01 _ b By) as Pb.
      unfold g. cbn [fst snd].
      apply c05_apx_mul.
      * apply c05_apx_mul; [apply c05_apx_in; lia| |exact Bw|lra].
        apply (c05_apx_pows _ _ (c05_apx_in D x HD ltac:(lia)) Bx deg c05_iv_one 1%R a c05_apx_one); [lra|lia].
      * apply (c05_apx_pows _ _ (c05_apx_in D y HD ltac:(lia)) By deg c05_iv_one 1%R b c05_apx_one); [lra|lia].
      * nra.
      * lra.
    + rewrite <- pow_IZR. unfold c05_moment2.
      rewrite <- (c05_moment2_real D (combine (fst r) (snd r)) a b HD). f_equal. f_equal.
      apply map_ext. intros pw. unfold g. ring.
    + apply Z.pow_pos_nonneg; lia.
    + apply c05_fact_pos.
Qed.

Lemma c05_tri_okb_iv_sound n : c05_tri_okb_iv n = true -> c05_tri_ok n.
Proof.
  unfold c05_tri_okb_iv, c05_tri_ok. destruct (c05_tri_rule n) as [r|]; [|discriminate].
  intros H. exists r. split; [reflexivity|]. apply c05_rule2_okb_iv_sound. exact H.
Qed.

Local Close Scope R_scope.
Local Open Scope Z_scope.

Lemma c05_gauss_1_ok : c05_gauss_ok 1.   Proof. apply c05_gauss_okb_fast_sound. vm_compute. reflexivity. Qed.
Lemma c05_gauss_2_ok : c05_gauss_ok 2.   Proof. apply c05_gauss_okb_fast_sound. vm_compute. reflexivity. Qed.
Lemma c05_gauss_3_ok : c05_gauss_ok 3.   Proof. apply c05_gauss_okb_fast_sound. vm_compute. reflexivity. Qed.
Lemma c05_gauss_4_ok : c05_gauss_ok 4.   Proof. apply c05_gauss_okb_fast_sound. vm_compute. reflexivity. Qed.
Lemma c05_gauss_5_ok : c05_gauss_ok 5.   Proof. apply c05_gauss_okb_fast_sound. vm_compute. reflexivity. Qed.
Lemma c05_gauss_6_ok : c05_gauss_ok 6.   Proof. apply c05_gauss_okb_fast_sound. vm_compute. reflexivity. Qed.
Lemma c05_gauss_7_ok : c05_gauss_ok 7.   Proof. apply c05_gauss_okb_fast_sound. vm_compute. reflexivity. Qed.
Lemma c05_gauss_8_ok : c05_gauss_ok 8.   Proof. apply c05_gauss_okb_fast_sound. vm_compute. reflexivity. Qed.
Lemma c05_gauss_9_ok : c05_gauss_ok 9.   Proof. apply c05_gauss_okb_fast_sound. vm_compute. reflexivity. Qed.
Lemma c05_gauss_10_ok : c05_gauss_ok 10. Proof. apply c05_gauss_okb_fast_sound. vm_compute. reflexivity. Qed.
Lemma c05_tri_1_ok : c05_tri_ok 1.       Proof. apply c05_tri_okb_iv_sound. vm_compute. reflexivity. Qed.
Lemma c05_tri_4_ok : c05_tri_ok 4.       Proof. apply c05_tri_okb_iv_sound. vm_compute. reflexivity. Qed.
Lemma c05_tri_8_ok : c05_tri_ok 8.       Proof. apply c05_tri_okb_iv_sound. vm_compute. reflexivity. Qed.
Lemma c05_tri_10_ok : c05_tri_ok 10.     Proof. apply c05_tri_okb_iv_sound. vm_compute. reflexivity. Qed.
Lemma c05_tri_12_ok : c05_tri_ok 12.     Proof. apply c05_tri_okb_iv_sound. vm_compute. reflexivity. Qed.

(* the supported orders are exactly these; every other order makes the function fall through *)
Lemma c05_gauss_supported n : c05_gauss_rule n <> None <-> 1 <= n <= 10.
Proof.
  unfold c05_gauss_rule, c05_gauss_raw_tables. cbn [c05_lookup option_map].
  repeat match goal with |- context [?a =? ?b] => destruct (Z.eqb_spec a b) end;
    cbn [option_map]; split; intros H; try lia; try congruence; try (exfalso; apply H; reflexivity).
Qed.
Lemma c05_tri_supported n : c05_tri_rule n <> None <-> (n = 1 \/ n = 4 \/ n = 8 \/ n = 10 \/ n = 12).
Proof.
  unfold c05_tri_rule, c05_tri_raw_tables. cbn [c05_lookup].
  repeat match goal with |- context [?a =? ?b] => destruct (Z.eqb_spec a b) end;
    split; intros H; try lia; try congruence; try (exfalso; apply H; reflexivity).
Qed.

(* every weight of every generated table is positive (used by non-negativity) *)
Definition c05_all_weights_posb : bool :=
  forallb (fun kr => forallb (fun w => 0 <? w) (snd (snd kr))) c05_gauss_raw_tables
  && forallb (fun kr => forallb (fun w => 0 <? w) (snd (snd kr))) c05_tri_raw_tables.
Lemma c05_all_weights_posb_true : c05_all_weights_posb = true.
Proof. vm_compute. reflexivity. Qed.

Lemma c05_lookup_in {A} k (l : list (Z * A)) v : c05_lookup k l = Some v -> In (k, v) l.
Proof.
  induction l as [|[k' v'] l IH]; cbn [c05_lookup]; [discriminate|].
  destruct (Z.eqb_spec k k'); intros H.
  - injection H as ->. subst. left. reflexivity.
  - right. apply IH. exact H.
Qed.

Lemma c05_gauss_weights_pos n r : c05_gauss_rule n = Some r -> Forall (fun w => 0 < w) (snd r).
Proof.
  unfold c05_gauss_rule. destruct (c05_lookup n c05_gauss_raw_tables) as [t|] eqn:E; [|discriminate].
  cbn [option_map]. intros [= <-]. apply c05_lookup_in in E.
  pose proof c05_all_weights_posb_true as H. unfold c05_all_weights_posb in H.
  apply andb_true_iff in H. destruct H as [H _]. rewrite forallb_forall in H. specialize (H _ E).
  cbn [snd] in H. unfold c05_gauss_scale. cbn [snd]. apply Forall_forall. intros w Hw.
  rewrite forallb_forall in H. specialize (H w Hw). lia.
Qed.
Lemma c05_tri_weights_pos n r : c05_tri_rule n = Some r -> Forall (fun w => 0 < w) (snd r).
Proof.
  unfold c05_tri_rule. intros E. apply c05_lookup_in in E.
  pose proof c05_all_weights_posb_true as H. unfold c05_all_weights_posb in H.
  apply andb_true_iff in H. destruct H as [_ H]. rewrite forallb_forall in H. specialize (H _ E).
  cbn [snd] in H. apply Forall_forall. intros w Hw.
  rewrite forallb_forall in H. specialize (H w Hw). lia.
Qed.

