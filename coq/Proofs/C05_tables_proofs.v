(* Proofs about the quadrature tables generated from uxarray/grid/area.py (Gen/C05_tables.v):
   finite obligations, discharged by vm_compute through a boolean checker proved sound here. *)
From Coq Require Import ZifyBool.
From Verif Require Import Base C05_rules.

Local Open Scope Z_scope.

(* ========================================================================================== *)
(* Part A — tables                                                                              *)

Definition c05_close (num den p q : Z) : Prop :=
  Z.abs (num * q - p * den) * c05_tol_den <= c05_tol_num * (den * q).

Lemma c05_closeb_sound num den p q : c05_closeb num den p q = true -> c05_close num den p q.
Proof. unfold c05_closeb, c05_close. intros H. apply Z.leb_le in H. exact H. Qed.

(* a 1-D rule on [0,1] with numerators over D: as many points as weights, weights > 0, points in
   [0,1], and sum_i w_i g_i^k = 1/(k+1) within 5e-15 for every k <= deg *)
Record c05_rule1_ok (D : Z) (r : c05_rule1) (deg : nat) : Prop := {
  c05_r1_len : length (fst r) = length (snd r);
  c05_r1_pos : Forall (fun w => 0 < w) (snd r);
  c05_r1_in : Forall (fun g => 0 <= g <= D) (fst r);
  c05_r1_exact : forall k, (k <= deg)%nat ->
      c05_close (c05_moment1 r k) (D ^ Z.of_nat (S k)) 1 (Z.of_nat (S k))
}.

Lemma c05_rule1_okb_sound D r deg : c05_rule1_okb D r deg = true -> c05_rule1_ok D r deg.
Proof.
  unfold c05_rule1_okb. rewrite !andb_true_iff. intros [[[H1 H2] H3] H4]. split.
  - apply Nat.eqb_eq. exact H1.
  - apply Forall_forall. intros w Hw. rewrite forallb_forall in H2. specialize (H2 w Hw). lia.
  - apply Forall_forall. intros g Hg. rewrite forallb_forall in H3. specialize (H3 g Hg). lia.
  - intros k Hk. unfold c05_rule1_exactb in H4. rewrite forallb_forall in H4.
    apply c05_closeb_sound. apply H4. apply in_seq. lia.
Qed.

(* a triangle rule in the two coordinates the code reads (dA = dG[p][0], dB = dG[p][1]) with
   numerators over D: weights > 0, (dA, dB, 1-dA-dB) in the closed simplex, and
   sum_i w_i dA_i^a dB_i^b = 2 a! b! / (a+b+2)!  within 5e-15 whenever a + b <= deg *)
Record c05_rule2_ok (D : Z) (r : c05_rule2) (deg : nat) : Prop := {
  c05_r2_len : length (fst r) = length (snd r);
  c05_r2_pos : Forall (fun w => 0 < w) (snd r);
  c05_r2_in : Forall (fun p => 0 <= fst (fst p) /\ 0 <= snd (fst p) /\ fst (fst p) + snd (fst p) <= D) (fst r);
  c05_r2_exact : forall a b, (a + b <= deg)%nat ->
      c05_close (c05_moment2 r a b) (D ^ Z.of_nat (S (a + b)))
                (2 * c05_fact a * c05_fact b) (c05_fact (a + b + 2))
}.

Lemma c05_monomials_in deg a b : (a + b <= deg)%nat -> In (a, b) (c05_monomials deg).
Proof.
  intros H. unfold c05_monomials. apply in_flat_map. exists a. split.
  - apply in_seq. lia.
  - apply in_map. apply in_seq. lia.
Qed.

Lemma c05_rule2_okb_sound D r deg : c05_rule2_okb D r deg = true -> c05_rule2_ok D r deg.
Proof.
  unfold c05_rule2_okb. rewrite !andb_true_iff. intros [[[H1 H2] H3] H4]. split.
  - apply Nat.eqb_eq. exact H1.
  - apply Forall_forall. intros w Hw. rewrite forallb_forall in H2. specialize (H2 w Hw). lia.
  - apply Forall_forall. intros p Hp. rewrite forallb_forall in H3. specialize (H3 p Hp).
    cbv zeta in H3. lia.
  - intros a b Hab. unfold c05_rule2_exactb in H4. rewrite forallb_forall in H4.
    apply c05_closeb_sound. exact (H4 (a, b) (c05_monomials_in deg a b Hab)).
Qed.

Definition c05_gauss_ok (n : Z) : Prop :=
  exists r, c05_gauss_rule n = Some r /\ c05_rule1_ok c05_gden r (c05_gauss_degree n).
Definition c05_tri_ok (n : Z) : Prop :=
  exists r, c05_tri_rule n = Some r /\ c05_rule2_ok c05_den r (c05_tri_degree n).

Lemma c05_gauss_okb_sound n : c05_gauss_okb n = true -> c05_gauss_ok n.
Proof.
  unfold c05_gauss_okb, c05_gauss_ok. destruct (c05_gauss_rule n) as [r|]; [|discriminate].
  intros H. exists r. split; [reflexivity|]. apply c05_rule1_okb_sound. exact H.
Qed.
Lemma c05_tri_okb_sound n : c05_tri_okb n = true -> c05_tri_ok n.
Proof.
  unfold c05_tri_okb, c05_tri_ok. destruct (c05_tri_rule n) as [r|]; [|discriminate].
  intros H. exists r. split; [reflexivity|]. apply c05_rule2_okb_sound. exact H.
Qed.

(* ---- the power-table checkers compute the same thing ---- *)
Lemma c05_pows_from_nth x acc n a :
  (a <= n)%nat -> nth a (c05_pows_from x acc n) 0 = acc * x ^ Z.of_nat a.
Proof.
  revert acc a. induction n as [|n IH]; intros acc a H.
  - assert (a = 0%nat) by lia. subst a. cbn. lia.
  - destruct a as [|a]; cbn [c05_pows_from nth]; [cbn; lia|].
    rewrite IH by lia. rewrite Nat2Z.inj_succ, Z.pow_succ_r by lia. lia.
Qed.

Lemma c05_pows_nth x n a : (a <= n)%nat -> nth a (c05_pows x n) 0 = x ^ Z.of_nat a.
Proof. intros H. unfold c05_pows. rewrite c05_pows_from_nth by exact H. lia. Qed.

Lemma c05_forallb_ext {A} (f g : A -> bool) l :
  (forall x, In x l -> f x = g x) -> forallb f l = forallb g l.
Proof.
  induction l as [|x l IH]; intros H; cbn; [reflexivity|].
  rewrite H by (left; reflexivity). rewrite IH by (intros; apply H; right; assumption). reflexivity.
Qed.

Lemma c05_monomials_bound deg a b : In (a, b) (c05_monomials deg) -> (a + b <= deg)%nat.
Proof.
  unfold c05_monomials. intros H. apply in_flat_map in H. destruct H as (a' & Ha & H).
  apply in_map_iff in H. destruct H as (b' & E & Hb). injection E as <- <-.
  apply in_seq in Ha. apply in_seq in Hb. lia.
Qed.

Lemma c05_rule1_exactb_fast_eq D r deg : c05_rule1_exactb_fast D r deg = c05_rule1_exactb D r deg.
Proof.
  unfold c05_rule1_exactb_fast, c05_rule1_exactb. cbv zeta. apply c05_forallb_ext. intros k Hk.
  apply in_seq in Hk. rewrite c05_pows_nth by lia. f_equal.
  unfold c05_moment1. rewrite map_map. f_equal. apply map_ext. intros [g w]. cbn [fst snd].
  rewrite c05_pows_nth by lia. reflexivity.
Qed.

Lemma c05_rule2_exactb_fast_eq D r deg : c05_rule2_exactb_fast D r deg = c05_rule2_exactb D r deg.
Proof.
  unfold c05_rule2_exactb_fast, c05_rule2_exactb. cbv zeta. apply c05_forallb_ext. intros [a b] Hab.
  apply c05_monomials_bound in Hab. cbn [fst snd]. rewrite c05_pows_nth by lia. f_equal.
  unfold c05_moment2. rewrite map_map. f_equal. apply map_ext. intros [[[x y] z] w]. cbn [fst snd].
  rewrite !c05_pows_nth by lia. reflexivity.
Qed.

Lemma c05_gauss_okb_fast_sound n : c05_gauss_okb_fast n = true -> c05_gauss_ok n.
Proof.
  intros H. apply c05_gauss_okb_sound. revert H. unfold c05_gauss_okb_fast, c05_gauss_okb.
  destruct (c05_gauss_rule n); [|discriminate]. unfold c05_rule1_okb_fast, c05_rule1_okb.
  rewrite c05_rule1_exactb_fast_eq. exact (fun H => H).
Qed.
Lemma c05_tri_okb_fast_sound n : c05_tri_okb_fast n = true -> c05_tri_ok n.
Proof.
  intros H. apply c05_tri_okb_sound. revert H. unfold c05_tri_okb_fast, c05_tri_okb.
  destruct (c05_tri_rule n); [|discriminate]. unfold c05_rule2_okb_fast, c05_rule2_okb.
  rewrite c05_rule2_exactb_fast_eq. exact (fun H => H).
Qed.

Lemma c05_gauss_1_ok : c05_gauss_ok 1.   Proof. apply c05_gauss_okb_fast_sound. vm_compute. reflexivity. Qed.
Lemma c05_gauss_2_ok : c05_gauss_ok 2.   Proof. apply c05_gauss_okb_fast_sound. vm_compute. reflexivity. Qed.
Lemma c05_gauss_3_ok : c05_gauss_ok 3.   Proof. apply c05_gauss_okb_fast_sound. vm_compute. reflexivity. Qed.
Lemma c05_gauss_4_ok : c05_gauss_ok 4.   Proof. apply c05_gauss_okb_fast_sound. vm_compute. reflexivity. Qed.
Lemma c05_gauss_5_ok : c05_gauss_ok 5.   Proof. apply c05_gauss_okb_fast_sound. vm_compute. reflexivity. Qed.
Lemma c05_gauss_6_ok : c05_gauss_ok 6.   Proof. apply c05_gauss_okb_fast_sound. vm_compute. reflexivity. Qed.
Lemma c05_gauss_7_ok : c05_gauss_ok 7.   Proof. apply c05_gauss_okb_fast_sound. vm_compute. reflexivity. Qed.
Lemma c05_gauss_8_ok : c05_gauss_ok 8.   Proof. apply c05_gauss_okb_fast_sound. vm_compute. reflexivity. Qed.
Lemma c05_gauss_9_ok : c05_gauss_ok 9.   Proof. apply c05_gauss_okb_fast_sound. vm_compute. reflexivity. Qed.
Lemma c05_gauss_10_ok : c05_gauss_ok 10. Proof. apply c05_gauss_okb_fast_sound. vm_compute. reflexivity. Qed.
Lemma c05_tri_1_ok : c05_tri_ok 1.       Proof. apply c05_tri_okb_fast_sound. vm_compute. reflexivity. Qed.
Lemma c05_tri_4_ok : c05_tri_ok 4.       Proof. apply c05_tri_okb_fast_sound. vm_compute. reflexivity. Qed.
Lemma c05_tri_8_ok : c05_tri_ok 8.       Proof. apply c05_tri_okb_fast_sound. vm_compute. reflexivity. Qed.
Lemma c05_tri_10_ok : c05_tri_ok 10.     Proof. apply c05_tri_okb_fast_sound. vm_compute. reflexivity. Qed.
Lemma c05_tri_12_ok : c05_tri_ok 12.     Proof. apply c05_tri_okb_fast_sound. vm_compute. reflexivity. Qed.

(* the supported orders are exactly these; every other order makes the function fall through *)
Lemma c05_gauss_supported n : c05_gauss_rule n <> None <-> 1 <= n <= 10.
Proof.
  unfold c05_gauss_rule, c05_gauss_raw_tables. cbn [c05_lookup option_map].
  repeat match goal with |- context [?a =? ?b] => destruct (Z.eqb_spec a b) end;
    cbn [option_map]; split; intros H; try lia; try congruence; try (exfalso; apply H; reflexivity).
Qed.
Lemma c05_tri_supported n : c05_tri_rule n <> None <-> (n = 1 \/ n = 4 \/ n = 8 \/ n = 10 \/ n = 12).
Proof.
  unfold c05_tri_rule, c05_tri_raw_tables. cbn [c05_lookup].
  repeat match goal with |- context [?a =? ?b] => destruct (Z.eqb_spec a b) end;
    split; intros H; try lia; try congruence; try (exfalso; apply H; reflexivity).
Qed.

(* every weight of every generated table is positive (used by non-negativity) *)
Definition c05_all_weights_posb : bool :=
  forallb (fun kr => forallb (fun w => 0 <? w) (snd (snd kr))) c05_gauss_raw_tables
  && forallb (fun kr => forallb (fun w => 0 <? w) (snd (snd kr))) c05_tri_raw_tables.
Lemma c05_all_weights_posb_true : c05_all_weights_posb = true.
Proof. vm_compute. reflexivity. Qed.

Lemma c05_lookup_in {A} k (l : list (Z * A)) v : c05_lookup k l = Some v -> In (k, v) l.
Proof.
  induction l as [|[k' v'] l IH]; cbn [c05_lookup]; [discriminate|].
  destruct (Z.eqb_spec k k'); intros H.
  - injection H as ->. subst. left. reflexivity.
  - right. apply IH. exact H.
Qed.

Lemma c05_gauss_weights_pos n r : c05_gauss_rule n = Some r -> Forall (fun w => 0 < w) (snd r).
Proof.
  unfold c05_gauss_rule. destruct (c05_lookup n c05_gauss_raw_tables) as [t|] eqn:E; [|discriminate].
  cbn [option_map]. intros [= <-]. apply c05_lookup_in in E.
  pose proof c05_all_weights_posb_true as H. unfold c05_all_weights_posb in H.
  apply andb_true_iff in H. destruct H as [H _]. rewrite forallb_forall in H. specialize (H _ E).
  cbn [snd] in H. unfold c05_gauss_scale. cbn [snd]. apply Forall_forall. intros w Hw.
  rewrite forallb_forall in H. specialize (H w Hw). lia.
Qed.
Lemma c05_tri_weights_pos n r : c05_tri_rule n = Some r -> Forall (fun w => 0 < w) (snd r).
Proof.
  unfold c05_tri_rule. intros E. apply c05_lookup_in in E.
  pose proof c05_all_weights_posb_true as H. unfold c05_all_weights_posb in H.
  apply andb_true_iff in H. destruct H as [_ H]. rewrite forallb_forall in H. specialize (H _ E).
  cbn [snd] in H. apply Forall_forall. intros w Hw.
  rewrite forallb_forall in H. specialize (H w Hw). lia.
Qed.

