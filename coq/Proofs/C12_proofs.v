(* C12_proofs.v — proofs about the remapping model (coq/Model/C12.v). *)
From Coq Require Import ZArith List Bool Lia QArith Lqa Permutation Sorted ZifyBool.
From Verif Require Import Base C11 C11_proofs C12 C12_flags.
Import ListNotations.
Open Scope Z_scope.

(* ------------------------------------------------------------------------------------------ *)
(* nearest neighbour                                                                          *)

Lemma c12_knn1 : forall keys, keys <> [] -> exists d i, c11_knn keys 1 = [(d, i)].
Proof.
  intros keys Hne. destruct (c11_knn_spec keys 1) as [Hlen _].
  destruct keys as [|a keys]; [contradiction|]. cbn [length] in Hlen.
  destruct (c11_knn (a :: keys) 1) as [|[d i] [|y l]] eqn:E; cbn in Hlen; try lia.
  exists d, i. reflexivity.
Qed.

(* the chosen index holds a minimal key *)
Lemma c12_nn_index_spec : forall keys, keys <> [] ->
  exists d, nth_error keys (c12_nn_index keys) = Some d /\
            forall j dj, nth_error keys j = Some dj -> d <= dj.
Proof.
  intros keys Hne. destruct (c12_knn1 keys Hne) as [d [i E]].
  destruct (c11_knn_spec keys 1) as [_ [_ [Hkey [_ Hmin]]]]. rewrite E in *.
  unfold c12_nn_index. rewrite E. exists d. split.
  - apply (Hkey (d, i)). left; reflexivity.
  - intros j dj Hj. destruct (Nat.eq_dec j i) as [->|Hne2].
    + specialize (Hkey (d, i) (or_introl eq_refl)). cbn in Hkey. rewrite Hkey in Hj. inversion Hj. lia.
    + apply (Hmin j dj Hj) with (p := (d, i)); [|left; reflexivity].
      cbn. intros [H|[]]. congruence.
Qed.

Lemma c12_nn_index_lt : forall keys, keys <> [] -> (c12_nn_index keys < length keys)%nat.
Proof.
  intros keys H. destruct (c12_nn_index_spec keys H) as [d [Hd _]].
  apply nth_error_Some. congruence.
Qed.

(* the tie rule made explicit: among the sources at minimal distance the one with the lowest index is taken *)
Lemma c12_nn_tie_rule : forall keys, keys <> [] ->
  exists d, nth_error keys (c12_nn_index keys) = Some d /\
    forall j dj, nth_error keys j = Some dj -> d < dj \/ (d = dj /\ (c12_nn_index keys <= j)%nat).
Proof.
  intros keys Hne. destruct (c12_knn1 keys Hne) as [d [i E]].
  destruct (c12_nn_index_spec keys Hne) as [d' [Hd' _]].
  assert (Hi : c12_nn_index keys = i) by (unfold c12_nn_index; rewrite E; reflexivity).
  rewrite Hi in *. clear Hi. exists d'. split; auto.
  pose proof (c11_sort_enum_sorted2 keys 0%nat) as Hs. pose proof (c11_sort_perm (c11_enum 0 keys)) as Hp.
  unfold c11_knn in E. destruct (c11_sort (c11_enum 0 keys)) as [|x rest] eqn:Es; [discriminate|].
  cbn in E. injection E as Ex. subst x. inversion Hs as [|? ? _ Hf]. subst. rewrite Forall_forall in Hf.
  assert (Hdd : d = d').
  { destruct (c11_knn_spec keys 1) as [_ [_ [Hkey _]]]. unfold c11_knn in Hkey. rewrite Es in Hkey. cbn in Hkey.
    specialize (Hkey (d, i) (or_introl eq_refl)). cbn in Hkey. congruence. }
  subst d'. intros j dj Hj.
  assert (Hin : In (dj, j) ((d, i) :: rest)).
  { apply (Permutation_in _ (Permutation_sym Hp)). apply c11_enum_In. split; [lia|].
    replace (j - 0)%nat with j by lia. exact Hj. }
  destruct Hin as [Heq|Hin]; [inversion Heq; subst; right; split; [reflexivity|lia]|].
  specialize (Hf _ Hin). unfold c11_le2 in Hf. cbn in Hf. destruct Hf as [H|[H1 H2]]; [left; lia | right; split; lia].
Qed.

Example c12_nn_tie_rule_nonvacuous : c12_nn_index [4; 2; 9; 2] = 1%nat.
Proof. reflexivity. Qed.

(* every leading index is treated alike: row l of the result is the gather of row l of the data *)
Lemma c12_nn_spec : forall nn nf ne t data res, c12_nn nn nf ne t data = Some res ->
  exists r0 kd, hd_error data = Some r0 /\
    c12_kind_by_length nn nf ne (Z.of_nat (length r0)) = Some kd /\
    length res = length data /\
    forall l row, nth_error data l = Some row ->
      exists out, nth_error res l = Some out /\ length out = length (c12_table t kd) /\
        forall i keys, nth_error (c12_table t kd) i = Some keys -> keys <> [] ->
          exists s d, nth_error out i = Some (nth s row 0%Q) /\ nth_error keys s = Some d /\
                      forall j dj, nth_error keys j = Some dj -> d <= dj.
Proof.
  intros nn nf ne t data res H. unfold c12_nn in H.
  destruct data as [|r0 data']; [discriminate|].
  destruct (c12_kind_by_length nn nf ne (Z.of_nat (length r0))) as [kd|] eqn:Ek; [|discriminate].
  inversion H; subst; clear H. exists r0, kd.
  split; [reflexivity|]. split; [exact Ek|]. split; [cbn [length]; f_equal; apply map_length|].
  { intros l row Hl. exists (c12_nn_row (c12_table t kd) row). split.
    + change (nth_error (map (c12_nn_row (c12_table t kd)) (r0 :: data')) l = Some (c12_nn_row (c12_table t kd) row)).
      apply map_nth_error. exact Hl.
    + split; [unfold c12_nn_row; apply map_length|].
      intros i keys Hi Hne. destruct (c12_nn_index_spec keys Hne) as [d [Hd Hmin]].
      exists (c12_nn_index keys), d. split; auto.
      unfold c12_nn_row. rewrite (map_nth_error _ _ _ Hi). reflexivity. }
Qed.

(* a table of distances from a grid's own elements to themselves: zero on the diagonal, positive
   elsewhere (distinct positions) *)
Definition c12_own_table (tab : list (list Z)) : Prop :=
  forall i keys, nth_error tab i = Some keys ->
    nth_error keys i = Some 0 /\ forall j dj, j <> i -> nth_error keys j = Some dj -> 0 < dj.

Lemma c12_list_ext : forall (A : Type) (l1 l2 : list A),
  (forall i, nth_error l1 i = nth_error l2 i) -> l1 = l2.
Proof.
  induction l1 as [|a l1 IH]; intros [|b l2] H; auto.
  - specialize (H 0%nat). discriminate.
  - specialize (H 0%nat). discriminate.
  - f_equal; [specialize (H 0%nat); inversion H; auto|]. apply IH. intros i. apply (H (S i)).
Qed.

Lemma c12_nn_identity_row : forall tab row, c12_own_table tab -> length tab = length row ->
  c12_nn_row tab row = row.
Proof.
  intros tab row Hown Hlen. apply c12_list_ext. intros i. unfold c12_nn_row.
  destruct (nth_error tab i) as [keys|] eqn:Hi.
  - rewrite (map_nth_error _ _ _ Hi).
    destruct (Hown i keys Hi) as [H0 Hpos].
    assert (Hne : keys <> []) by (intros ->; destruct i; discriminate).
    destruct (c12_nn_index_spec keys Hne) as [d [Hd Hmin]].
    assert (c12_nn_index keys = i).
    { destruct (Nat.eq_dec (c12_nn_index keys) i) as [|Hne2]; auto. exfalso.
      specialize (Hpos _ _ Hne2 Hd). specialize (Hmin _ _ H0). lia. }
    rewrite H. assert (Hlt : (i < length row)%nat).
    { rewrite <- Hlen. apply nth_error_Some. congruence. }
    symmetry. apply nth_error_nth'. exact Hlt.
  - assert (nth_error (map (fun keys => nth (c12_nn_index keys) row 0%Q) tab) i = None).
    { apply nth_error_None. rewrite map_length. apply nth_error_None. exact Hi. }
    rewrite H. symmetry. apply nth_error_None. rewrite <- Hlen. apply nth_error_None. exact Hi.
Qed.

(* remapping onto the source grid's own elements is the identity (kind taken as coded: under the
   hypothesis that the coded choice is the data's kind) *)
Lemma c12_nn_identity : forall nn nf ne t data kd r0,
  hd_error data = Some r0 ->
  c12_kind_by_length nn nf ne (Z.of_nat (length r0)) = Some kd ->
  c12_own_table (c12_table t kd) ->
  Forall (fun row => length row = length (c12_table t kd)) data ->
  c12_nn nn nf ne t data = Some data.
Proof.
  intros nn nf ne t data kd r0 Hhd Hk Hown Hall. unfold c12_nn.
  destruct data as [|r data']; [discriminate|]. cbn in Hhd. inversion Hhd; subst r0.
  rewrite Hk. f_equal. rewrite <- (map_id (r :: data')) at 2.
  apply map_ext_in. intros row Hin. rewrite Forall_forall in Hall.
  apply c12_nn_identity_row; auto. symmetry. apply Hall. exact Hin.
Qed.

(* ------------------------------------------------------------------------------------------ *)
(* element kind                                                                               *)

Lemma c12_kind_by_length_distinct : forall nn nf ne kd, nn <> nf -> nn <> ne -> nf <> ne ->
  c12_kind_by_length nn nf ne (c12_count nn nf ne kd) = Some kd.
Proof.
  intros nn nf ne kd H1 H2 H3. unfold c12_kind_by_length, c12_count.
  destruct kd;
    repeat match goal with |- context [?a =? ?b] => destruct (Z.eqb_spec a b); try lia end; auto.
Qed.

(* the tetrahedron: 4 nodes, 4 faces, 6 edges; face data are taken for node data *)
Lemma c12_kind_by_length_refuted : exists nn nf ne kd,
  0 < nn /\ 0 < nf /\ 0 < ne /\ c12_kind_by_length nn nf ne (c12_count nn nf ne kd) <> Some kd.
Proof. exists 4, 4, 6, C11Faces. repeat split; try lia. cbn. discriminate. Qed.

Lemma c12_kind_by_dim_ok : forall kd, c12_kind_by_dim (c12_dim_of kd) = Some kd.
Proof. destruct kd; reflexivity. Qed.

Lemma c12_nn_by_dim_spec : forall kd t data,
  c12_nn_by_dim (c12_dim_of kd) t data = Some (map (c12_nn_row (c12_table t kd)) data).
Proof. intros. unfold c12_nn_by_dim. rewrite c12_kind_by_dim_ok. reflexivity. Qed.

Lemma c12_nn_by_dim_identity : forall kd t data,
  c12_own_table (c12_table t kd) ->
  Forall (fun row => length row = length (c12_table t kd)) data ->
  c12_nn_by_dim (c12_dim_of kd) t data = Some data.
Proof.
  intros kd t data Hown Hall. rewrite c12_nn_by_dim_spec. f_equal.
  rewrite <- (map_id data) at 2. apply map_ext_in. intros row Hin. rewrite Forall_forall in Hall.
  apply c12_nn_identity_row; auto. symmetry. apply Hall. exact Hin.
Qed.

(* ------------------------------------------------------------------------------------------ *)
(* weights                                                                                    *)
Open Scope Q_scope.

Lemma c12_qpow_nonneg : forall x p, 0 <= x -> 0 <= c12_qpow x p.
Proof.
  induction p as [|p IH]; intros H; cbn [c12_qpow]; [lra|].
  specialize (IH H). apply Qmult_le_0_compat; auto.
Qed.

Lemma c12_qpow_mono : forall x y p, 0 <= x -> x <= y -> c12_qpow x p <= c12_qpow y p.
Proof.
  induction p as [|p IH]; intros H0 H; cbn [c12_qpow]; [lra|].
  specialize (IH H0 H). pose proof (c12_qpow_nonneg x p H0).
  apply Qle_trans with (x * c12_qpow y p).
  - rewrite !(Qmult_comm x). apply Qmult_le_compat_r; auto.
  - apply Qmult_le_compat_r; auto. apply Qle_trans with (c12_qpow x p); auto.
Qed.

Lemma c12_dist_nonneg : forall scale d, (0 <= d)%Z -> 0 <= c12_dist scale d.
Proof. intros. unfold c12_dist, Qle. cbn. lia. Qed.

Lemma c12_dist_mono : forall scale d1 d2, (d1 <= d2)%Z -> c12_dist scale d1 <= c12_dist scale d2.
Proof. intros. unfold c12_dist, Qle. cbn. nia. Qed.

Lemma c12_weight_pos : forall scale p eps d, 0 < eps -> (0 <= d)%Z -> 0 < c12_weight scale p eps d.
Proof.
  intros. unfold c12_weight. apply Qinv_lt_0_compat.
  pose proof (c12_qpow_nonneg (c12_dist scale d) p (c12_dist_nonneg scale d H0)). lra.
Qed.

Lemma c12_inv_le : forall a b, 0 < a -> a <= b -> / b <= / a.
Proof.
  intros a b Ha Hab. apply Qle_lt_or_eq in Hab. destruct Hab as [Hlt|Heq].
  - apply Qlt_le_weak. apply (proj1 (Qinv_lt_contravar a b Ha (Qlt_trans _ _ _ Ha Hlt))). exact Hlt.
  - rewrite Heq. apply Qle_refl.
Qed.

(* weights do not increase with distance *)
Lemma c12_weight_monotone : forall scale p eps d1 d2, 0 < eps -> (0 <= d1 <= d2)%Z ->
  c12_weight scale p eps d2 <= c12_weight scale p eps d1.
Proof.
  intros scale p eps d1 d2 He [H0 H]. unfold c12_weight.
  pose proof (c12_qpow_nonneg (c12_dist scale d1) p (c12_dist_nonneg scale d1 H0)).
  pose proof (c12_qpow_mono _ _ p (c12_dist_nonneg scale d1 H0) (c12_dist_mono scale d1 d2 H)).
  apply c12_inv_le; lra.
Qed.

(* ------------------------------------------------------------------------------------------ *)
(* weighted sums                                                                              *)

Lemma c12_sum_scale : forall (A : Type) (v w : A -> Q) (c : Q) (l : list A),
  c12_qsum (map (fun x => v x * (w x * c)) l) == c12_qsum (map (fun x => v x * w x) l) * c.
Proof.
  induction l as [|a l IH]; cbn [map c12_qsum]; [ring|]. rewrite IH. ring.
Qed.

(* the normalise-then-sum form of the code equals the one-division form that is extracted *)
Lemma c12_idw_point_fast_eq : forall scale p eps k row keys,
  c12_idw_point scale p eps k row keys == c12_idw_point_fast scale p eps k row keys.
Proof.
  intros. unfold c12_idw_point, c12_idw_point_fast, Qdiv.
  apply (c12_sum_scale _ (fun x => nth (snd x) row 0) (fun x => c12_weight scale p eps (fst x))).
Qed.

Lemma c12_wsum_bounds : forall (A : Type) (v w : A -> Q) (lo hi : Q) (l : list A),
  (forall x, In x l -> 0 < w x) -> (forall x, In x l -> lo <= v x <= hi) ->
  lo * c12_qsum (map w l) <= c12_qsum (map (fun x => v x * w x) l)
  /\ c12_qsum (map (fun x => v x * w x) l) <= hi * c12_qsum (map w l).
Proof.
  induction l as [|a l IH]; intros Hw Hv; cbn [map c12_qsum]; [lra|].
  destruct IH as [I1 I2]; [intros; apply Hw; right; auto | intros; apply Hv; right; auto|].
  specialize (Hw a (or_introl eq_refl)). specialize (Hv a (or_introl eq_refl)).
  split; nra.
Qed.

Lemma c12_wsum_pos : forall (A : Type) (w : A -> Q) (l : list A), l <> [] ->
  (forall x, In x l -> 0 < w x) -> 0 < c12_qsum (map w l).
Proof.
  induction l as [|a l IH]; intros Hne Hw; [contradiction|]. cbn [map c12_qsum].
  specialize (Hw a (or_introl eq_refl)) as Ha.
  destruct l as [|b l]; [cbn; lra|].
  assert (0 < c12_qsum (map w (b :: l))) by (apply IH; [discriminate | intros; apply Hw; right; auto]).
  lra.
Qed.

Lemma c12_knn_nonempty : forall keys k, keys <> [] -> (1 <= k)%nat -> c11_knn keys k <> [].
Proof.
  intros keys k Hne Hk. destruct (c11_knn_spec keys k) as [Hlen _].
  destruct keys; [contradiction|]. cbn [length] in Hlen.
  destruct (c11_knn (z :: keys) k); [cbn in Hlen; lia | discriminate].
Qed.

Lemma c12_knn_keys_nonneg : forall keys k x, Forall (fun d => (0 <= d)%Z) keys -> In x (c11_knn keys k) -> (0 <= fst x)%Z.
Proof.
  intros keys k x Hall Hin. destruct (c11_knn_spec keys k) as [_ [_ [Hkey _]]].
  specialize (Hkey x Hin). apply nth_error_In in Hkey. rewrite Forall_forall in Hall. auto.
Qed.

(* convexity: the value at a destination lies between any bounds of its k neighbours' values *)
Lemma c12_idw_convex : forall scale p eps k row keys lo hi,
  0 < eps -> (1 <= k)%nat -> keys <> [] -> Forall (fun d => (0 <= d)%Z) keys ->
  (forall x, In x (c11_knn keys k) -> lo <= nth (snd x) row 0 <= hi) ->
  lo <= c12_idw_point scale p eps k row keys <= hi.
Proof.
  intros scale p eps k row keys lo hi He Hk Hne Hall Hb.
  rewrite c12_idw_point_fast_eq. unfold c12_idw_point_fast.
  set (nb := c11_knn keys k) in *.
  assert (Hw : forall x, In x nb -> 0 < c12_weight scale p eps (fst x)).
  { intros x Hx. apply c12_weight_pos; auto. eapply c12_knn_keys_nonneg; eauto. }
  assert (Hs : 0 < c12_qsum (map (fun x => c12_weight scale p eps (fst x)) nb)).
  { apply c12_wsum_pos; auto. apply c12_knn_nonempty; auto. }
  destruct (c12_wsum_bounds _ (fun x => nth (snd x) row 0) (fun x => c12_weight scale p eps (fst x)) lo hi nb Hw Hb)
    as [B1 B2].
  split.
  - apply Qle_shift_div_l; auto.
  - apply Qle_shift_div_r; auto.
Qed.

(* the value is linear in the data *)
Lemma c12_sum_linear : forall (A : Type) (v1 v2 v3 w : A -> Q) (a b : Q) (l : list A),
  (forall x, v3 x == a * v1 x + b * v2 x) ->
  c12_qsum (map (fun x => v3 x * w x) l)
  == a * c12_qsum (map (fun x => v1 x * w x) l) + b * c12_qsum (map (fun x => v2 x * w x) l).
Proof.
  intros A v1 v2 v3 w a b l H. induction l as [|x l IH]; cbn [map c12_qsum]; [ring|].
  rewrite IH, (H x). ring.
Qed.

Lemma c12_idw_linear : forall scale p eps k keys r1 r2 r3 a b,
  (forall j, nth j r3 0 == a * nth j r1 0 + b * nth j r2 0) ->
  c12_idw_point scale p eps k r3 keys
  == a * c12_idw_point scale p eps k r1 keys + b * c12_idw_point scale p eps k r2 keys.
Proof.
  intros scale p eps k keys r1 r2 r3 a b H. rewrite !c12_idw_point_fast_eq. unfold c12_idw_point_fast, Qdiv.
  rewrite (c12_sum_linear _ (fun x => nth (snd x) r1 0) (fun x => nth (snd x) r2 0) (fun x => nth (snd x) r3 0)
             (fun x => c12_weight scale p eps (fst x)) a b).
  - ring.
  - intros x. apply H.
Qed.

Example c12_idw_linear_nonvacuous :
  c12_idw_point 1 1 (1 # 1000000) 2 [2#1; 5#1; 8#1] [4; 1; 3]%Z
  == (2#1) * c12_idw_point 1 1 (1 # 1000000) 2 [1#1; 2#1; 3#1] [4; 1; 3]%Z
     + (1#1) * c12_idw_point 1 1 (1 # 1000000) 2 [0#1; 1#1; 2#1] [4; 1; 3]%Z.
Proof. vm_compute. reflexivity. Qed.

(* coincident points (d = 0): no division by zero - the weight is 1/eps for a positive power and
   1/(1+eps) for power 0 (0^0 = 1, as in numpy), and it is the largest weight there is *)
Lemma c12_weight_at_zero : forall scale p eps, c12_weight scale (S p) eps 0%Z == / eps.
Proof.
  intros. unfold c12_weight, c12_dist. cbn [c12_qpow]. apply Qinv_comp.
  assert (E : (0 # scale) * c12_qpow (0 # scale) p == 0) by (unfold Qeq; simpl; reflexivity).
  rewrite E. ring.
Qed.

Lemma c12_weight_power_zero : forall scale eps d, c12_weight scale 0 eps d == / (1 + eps).
Proof. intros. unfold c12_weight. cbn [c12_qpow]. reflexivity. Qed.

Lemma c12_weight_max_at_zero : forall scale p eps d, 0 < eps -> (0 <= d)%Z ->
  c12_weight scale p eps d <= c12_weight scale p eps 0%Z.
Proof. intros. apply c12_weight_monotone; auto. lia. Qed.

Example c12_weight_at_zero_nonvacuous : c12_weight 1024 2 (1 # 1000000) 0%Z == 1000000 # 1.
Proof. vm_compute. reflexivity. Qed.

(* constant fields are reproduced *)
Lemma c12_idw_const : forall scale p eps k row keys c,
  0 < eps -> (1 <= k)%nat -> keys <> [] -> Forall (fun d => (0 <= d)%Z) keys ->
  (forall x, In x (c11_knn keys k) -> nth (snd x) row 0 == c) ->
  c12_idw_point scale p eps k row keys == c.
Proof.
  intros scale p eps k row keys c He Hk Hne Hall Hc.
  assert (H : c <= c12_idw_point scale p eps k row keys <= c).
  { apply c12_idw_convex; auto. intros x Hx. rewrite (Hc x Hx). lra. }
  lra.
Qed.

(* the normalised weights: non-negative, summing to one, attached to the k nearest, and not
   increasing with the distance key *)
Lemma c12_sum_div : forall (A : Type) (w : A -> Q) (s : Q) (l : list A),
  c12_qsum (map (fun x => w x / s) l) == c12_qsum (map w l) / s.
Proof.
  induction l as [|a l IH]; cbn [map c12_qsum]; [unfold Qdiv; ring|]. rewrite IH. unfold Qdiv. ring.
Qed.

Lemma c12_idw_weights_spec : forall scale p eps k keys,
  0 < eps -> (1 <= k)%nat -> keys <> [] -> Forall (fun d => (0 <= d)%Z) keys ->
  let ws := c12_idw_weights scale p eps k keys in
  map fst ws = map snd (c11_knn keys k)
  /\ (forall iw, In iw ws -> 0 < snd iw)
  /\ c12_qsum (map snd ws) == 1.
Proof.
  intros scale p eps k keys He Hk Hne Hall. cbn zeta. unfold c12_idw_weights.
  set (nb := c11_knn keys k).
  assert (Hw : forall x, In x nb -> 0 < c12_weight scale p eps (fst x)).
  { intros x Hx. apply c12_weight_pos; auto. eapply c12_knn_keys_nonneg; eauto. }
  assert (Hs : 0 < c12_qsum (map (fun x => c12_weight scale p eps (fst x)) nb)).
  { apply c12_wsum_pos; auto. apply c12_knn_nonempty; auto. }
  repeat split.
  - rewrite map_map. reflexivity.
  - intros iw Hin. apply in_map_iff in Hin. destruct Hin as [x [<- Hx]]. cbn [snd].
    apply Qlt_shift_div_l; auto. specialize (Hw x Hx). lra.
  - rewrite map_map. cbn [snd].
    rewrite (c12_sum_div _ (fun x => c12_weight scale p eps (fst x))). field. lra.
Qed.

Lemma c12_idw_weights_monotone : forall scale p eps k keys x y,
  0 < eps -> (1 <= k)%nat -> keys <> [] -> Forall (fun d => (0 <= d)%Z) keys ->
  In x (c11_knn keys k) -> In y (c11_knn keys k) -> (fst x <= fst y)%Z ->
  let s := c12_qsum (map (fun z => c12_weight scale p eps (fst z)) (c11_knn keys k)) in
  c12_weight scale p eps (fst y) / s <= c12_weight scale p eps (fst x) / s.
Proof.
  intros scale p eps k keys x y He Hk Hne Hall Hx Hy Hxy. cbn zeta.
  set (nb := c11_knn keys k) in *.
  assert (Hs : 0 < c12_qsum (map (fun z => c12_weight scale p eps (fst z)) nb)).
  { apply c12_wsum_pos; [apply c12_knn_nonempty; auto|].
    intros z Hz. apply c12_weight_pos; auto. eapply c12_knn_keys_nonneg; eauto. }
  unfold Qdiv. apply Qmult_le_compat_r.
  - apply c12_weight_monotone; auto. split; auto. eapply c12_knn_keys_nonneg; eauto.
  - apply Qlt_le_weak, Qinv_lt_0_compat, Hs.
Qed.

Close Scope Q_scope.

(* the extracted (fast) remap agrees with the coded form entry by entry *)
Lemma c12_idw_fast_shape : forall nn nf ne t data scale p eps k,
  match c12_idw nn nf ne t data scale p eps k, c12_idw_fast nn nf ne t data scale p eps k with
  | Some a, Some b => Forall2 (Forall2 Qeq) a b
  | None, None => True
  | _, _ => False
  end.
Proof.
  intros. unfold c12_idw, c12_idw_fast, c12_idw_gen.
  destruct data as [|r0 data']; auto.
  destruct ((Z.of_nat (length r0) <? Z.of_nat k) || (Z.of_nat k <=? 1)); auto.
  destruct (c12_kind_by_length nn nf ne (Z.of_nat (length r0))) as [kd|]; auto.
  destruct (c12_count nn nf ne kd <? Z.of_nat k); auto.
  generalize (r0 :: data'). intros l. induction l as [|row l IH]; cbn [map]; constructor; auto.
  generalize (c12_table t kd). intros tab. induction tab as [|keys tab IH2]; cbn [map]; constructor; auto.
  apply c12_idw_point_fast_eq.
Qed.

(* shape of the IDW result and its guards *)
Lemma c12_idw_spec : forall nn nf ne t data scale p eps k res,
  c12_idw nn nf ne t data scale p eps k = Some res ->
  (2 <= k)%nat /\
  exists r0 kd, hd_error data = Some r0 /\ (k <= length r0)%nat /\
    c12_kind_by_length nn nf ne (Z.of_nat (length r0)) = Some kd /\
    Z.of_nat k <= c12_count nn nf ne kd /\
    length res = length data /\
    forall l row, nth_error data l = Some row ->
      nth_error res l = Some (map (c12_idw_point scale p eps k row) (c12_table t kd)).
Proof.
  intros nn nf ne t data scale p eps k res H. unfold c12_idw, c12_idw_gen in H.
  destruct data as [|r0 data']; [discriminate|].
  destruct ((Z.of_nat (length r0) <? Z.of_nat k) || (Z.of_nat k <=? 1)) eqn:Eg; [discriminate|].
  destruct (c12_kind_by_length nn nf ne (Z.of_nat (length r0))) as [kd|] eqn:Ek; [|discriminate].
  destruct (c12_count nn nf ne kd <? Z.of_nat k) eqn:Ec; [discriminate|].
  injection H as H. subst res. split; [lia|].
  exists r0, kd. split; [reflexivity|]. split; [lia|]. split; [exact Ek|]. split; [lia|].
  split; [cbn [length]; f_equal; apply map_length|].
  intros l row Hl.
  change (nth_error (map (fun row => map (c12_idw_point scale p eps k row) (c12_table t kd)) (r0 :: data')) l
          = Some (map (c12_idw_point scale p eps k row) (c12_table t kd))).
  apply map_nth_error with (f := fun row => map (c12_idw_point scale p eps k row) (c12_table t kd)).
  exact Hl.
Qed.

(* the coded kind's count is the trailing length *)
Lemma c12_kind_by_length_count : forall nn nf ne len kd,
  c12_kind_by_length nn nf ne len = Some kd -> c12_count nn nf ne kd = len.
Proof.
  intros nn nf ne len kd H. unfold c12_kind_by_length in H.
  destruct (Z.eqb_spec len nn); [inversion H; subst; reflexivity|].
  destruct (Z.eqb_spec len nf); [inversion H; subst; reflexivity|].
  destruct (Z.eqb_spec len ne); [inversion H; subst; reflexivity|discriminate].
Qed.

(* every admissible k (2 <= k <= number of source elements carrying the data) is answered, whatever
   the element kind and whatever the number of destination points (one included) *)
Lemma c12_idw_answers : forall nn nf ne t data scale p eps k r0 kd,
  hd_error data = Some r0 -> c12_kind_by_length nn nf ne (Z.of_nat (length r0)) = Some kd ->
  (2 <= k <= length r0)%nat -> exists res, c12_idw nn nf ne t data scale p eps k = Some res.
Proof.
  intros nn nf ne t data scale p eps k r0 kd Hhd Hk Hr. unfold c12_idw, c12_idw_gen.
  destruct data as [|r data']; [discriminate|]. cbn in Hhd. inversion Hhd; subst r0.
  destruct ((Z.of_nat (length r) <? Z.of_nat k) || (Z.of_nat k <=? 1)) eqn:Eg; [lia|].
  rewrite Hk. rewrite (c12_kind_by_length_count _ _ _ _ _ Hk).
  destruct (Z.of_nat (length r) <? Z.of_nat k) eqn:Ec; [lia|]. eauto.
Qed.

(* faces outnumbering nodes (icosahedron, face data, k = 15) and a single destination point *)
Example c12_idw_answers_nonvacuous : exists res,
  c12_idw 12 20 30 {| cd_node := []; cd_face := [repeat 1 20]; cd_edge := [] |} [repeat 0%Q 20]
          1%positive 2%nat (1 # 1000000)%Q 15%nat = Some [res].
Proof. eexists. vm_compute. reflexivity. Qed.

(* nearest-neighbour remapping answers whenever the trailing length is one of the counts, whatever
   the rank of the data and the number of destination points (one included) *)
Lemma c12_nn_answers : forall nn nf ne t data r0 kd,
  hd_error data = Some r0 -> c12_kind_by_length nn nf ne (Z.of_nat (length r0)) = Some kd ->
  exists res, c12_nn nn nf ne t data = Some res.
Proof.
  intros nn nf ne t data r0 kd Hhd Hk. unfold c12_nn.
  destruct data as [|r data']; [discriminate|]. cbn in Hhd. inversion Hhd; subst r0. rewrite Hk. eauto.
Qed.

Example c12_single_destination_nonvacuous :
  c12_nn 3 1 4 {| cd_node := [[5; 1; 7]]; cd_face := []; cd_edge := [] |} [[1#1; 2#1; 3#1]%Q] = Some [[2#1]%Q].
Proof. vm_compute. reflexivity. Qed.

(* ------------------------------------------------------------------------------------------ *)
(* the source tree follows the grid's current coordinates                                     *)

Lemma c12_fresh_tree : forall ops cur cache p,
  In p (c12_run_ops true cur cache ops) -> fst p = snd p.
Proof.
  induction ops as [|o ops IH]; intros cur cache p H; [destruct H|].
  destruct o; cbn [c12_run_ops] in H.
  - eapply IH; eauto.
  - destruct H as [<-|H]; [|eapply IH; eauto].
    unfold c12_tree_version. destruct cache; reflexivity.
Qed.

Lemma c12_cached_tree_refuted : exists ops p, In p (c12_run_ops false 0 None ops) /\ fst p <> snd p.
Proof. exists [C12Remap; C12Mutate; C12Remap], (0%nat, 1%nat). split; [right; left; reflexivity | discriminate]. Qed.

Lemma c12_source_tree_current_source :
  if c12_remap_reconstruct
  then forall ops cur cache p, In p (c12_run_ops c12_remap_reconstruct cur cache ops) -> fst p = snd p
  else exists ops p, In p (c12_run_ops c12_remap_reconstruct 0 None ops) /\ fst p <> snd p.
Proof.
  destruct c12_remap_reconstruct eqn:E; [exact c12_fresh_tree | exact c12_cached_tree_refuted].
Qed.

(* ------------------------------------------------------------------------------------------ *)
(* dimensions                                                                                 *)

Lemma c12_out_dims_spec : forall dims dest, dims <> [] ->
  length (c12_out_dims dims dest) = length dims
  /\ (forall i, (S i < length dims)%nat -> nth_error (c12_out_dims dims dest) i = nth_error dims i)
  /\ nth_error (c12_out_dims dims dest) (length dims - 1) = Some (c12_dim_of dest).
Proof.
  intros dims dest Hne. unfold c12_out_dims.
  destruct (exists_last Hne) as [l [a ->]]. rewrite removelast_last, !app_length. cbn [length].
  repeat split.
  - intros i Hi. rewrite !nth_error_app1 by lia. reflexivity.
  - replace (length l + 1 - 1)%nat with (length l) by lia.
    rewrite nth_error_app2 by lia. rewrite Nat.sub_diag. reflexivity.
Qed.

(* ------------------------------------------------------------------------------------------ *)
(* non-vacuity examples                                                                       *)

Definition c12_ex_t : c12_dists :=
  {| cd_node := [[0; 5; 9]; [5; 0; 7]; [9; 7; 0]]; cd_face := [[3]; [4]; [8]]; cd_edge := [[1; 2; 6]; [2; 1; 4]; [6; 4; 1]] |}.

Example c12_nn_nonvacuous :
  c12_nn 3 1 3 c12_ex_t ([[1#1; 2#1; 3#1]; [4#1; 5#1; 6#1]])%Q = Some ([[1#1; 2#1; 3#1]; [4#1; 5#1; 6#1]])%Q.
Proof. vm_compute. reflexivity. Qed.

Example c12_own_table_nonvacuous : c12_own_table (cd_node c12_ex_t).
Proof.
  intros i keys Hi.
  destruct i as [|[|[|i]]]; cbn in Hi; try (destruct i; discriminate); inversion Hi; subst;
    (split; [reflexivity|]); intros j dj Hj Hd;
    destruct j as [|[|[|j]]]; cbn in Hd; try (destruct j; discriminate); inversion Hd; subst; try lia; congruence.
Qed.

Example c12_idw_nonvacuous :
  Qeq (c12_idw_point 1 1 (1 # 1000000)%Q 2 ([10#1; 20#1; 30#1])%Q [4; 1; 3]) (45000025 # 2000001)%Q.
Proof. vm_compute. reflexivity. Qed.

Example c12_out_dims_nonvacuous :
  c12_out_dims [C12DOther 0; C12DOther 1; C12DNode] C11Faces = [C12DOther 0; C12DOther 1; C12DFace].
Proof. reflexivity. Qed.
