(* C10: statements about every REACHABLE intermediate value (not only the final one), about the number of element
   dimensions a value carries, and about the dims an xarray operation yields whatever hook builds the result. *)
From Coq Require Import String ZifyBool.
From Verif Require Import Base C10 C10_route C10_proofs C10_more_proofs.
Local Open Scope Z_scope.

(* every prefix of a program: the value reachable after the first n operations is consistent too *)
Lemma forallb_firstn {A} (p : A -> bool) (l : list A) n : forallb p l = true -> forallb p (firstn n l) = true.
Proof.
  revert n. induction l as [|a l IH]; intros [|n] H; simpl in *; try reflexivity.
  apply andb_true_iff in H. destruct H as [H1 H2]. rewrite H1. simpl. apply IH. exact H2.
Qed.

Theorem closure_prefixes sz prog v n :
  c10_consistent sz v = true -> forallb c10_op_ok prog = true ->
  c10_consistent sz (c10_eval sz (firstn n prog) v) = true.
Proof. intros Hv Hok. apply closure; [exact Hv|apply forallb_firstn; exact Hok]. Qed.

(* the element (node / edge / face) dimensions of a value *)
Definition griddims (dims : list (Z * Z)) : list (Z * Z) := filter (fun p => c10_is_grid_dim (fst p)) dims.

Lemma filter_map_len {A} (p : A -> bool) (f : A -> A) (l : list A) :
  (forall x, p (f x) = p x) -> length (filter p (map f l)) = length (filter p l).
Proof.
  intros H. induction l as [|a l IH]; simpl; [reflexivity|]. rewrite H. destruct (p a); simpl; rewrite IH; reflexivity.
Qed.

Lemma filter_filter_le {A} (p q : A -> bool) (l : list A) : (length (filter p (filter q l)) <= length (filter p l))%nat.
Proof.
  induction l as [|a l IH]; simpl; [lia|]. destruct (q a); simpl; destruct (p a); simpl; lia.
Qed.

Lemma filter_rev_len {A} (p : A -> bool) (l : list A) : length (filter p (rev l)) = length (filter p l).
Proof.
  induction l as [|a l IH]; simpl; [reflexivity|].
  rewrite filter_app, app_length, IH. simpl. destruct (p a); simpl; lia.
Qed.

Lemma swap_is_grid d : c10_is_grid_dim (c10_swap_dim d) = c10_is_grid_dim d.
Proof.
  unfold c10_swap_dim, c10_is_grid_dim. destruct (d =? 0) eqn:E0; [lia|]. destruct (d =? 2) eqn:E2; [lia|reflexivity].
Qed.

(* no admissible operation creates an element dimension: their number never grows *)
Theorem griddims_never_created sz v op : c10_op_ok op = true ->
  (length (griddims (v_dims (c10_step sz v op))) <= length (griddims (v_dims v)))%nat.
Proof.
  unfold griddims. intros Hok. destruct op as [h o|fam'| | |dst|fam' dst|fam']; simpl in *.
  - apply andb_true_iff in Hok. destruct Hok as [_ Hwf].
    assert (length (filter (fun p : Z * Z => c10_is_grid_dim (fst p)) (c10_apply_dimop o (v_dims v)))
            <= length (filter (fun p : Z * Z => c10_is_grid_dim (fst p)) (v_dims v)))%nat as Hd.
    { destruct o as [|d0|d0 n0|d0 n0|]; simpl in *.
      - lia.
      - apply filter_filter_le.
      - rewrite filter_map_len; [lia|]. intros [d n]; simpl. destruct (d =? d0) eqn:E; simpl; [|reflexivity].
        assert (d = d0) as -> by lia. reflexivity.
      - apply negb_true_iff in Hwf. rewrite Hwf. lia.
      - rewrite filter_rev_len. lia. }
    destruct h; simpl; exact Hd.
  - unfold c10_retag. rewrite filter_map_len; [lia|]. intros [d n]; simpl. destruct (c10_is_grid_dim d) eqn:E; simpl; rewrite ?E; reflexivity.
  - apply filter_filter_le.
  - destruct (v_grid v) as [[f g]|]; simpl; [|lia].
    rewrite filter_map_len; [lia|]. intros [d n]; simpl. destruct (c10_is_grid_dim d) eqn:E; simpl; rewrite ?E; reflexivity.
  - destruct (v_grid v) as [[f g]|]; simpl; [|lia].
    rewrite filter_map_len; [lia|]. intros [d n]; simpl. destruct (d =? 0) eqn:E; simpl; [|reflexivity].
    rewrite Hok. unfold c10_is_grid_dim. lia.
  - rewrite filter_map_len; [lia|]. intros [d n]; simpl. destruct (c10_is_grid_dim d) eqn:E; simpl; rewrite ?E, ?Hok; reflexivity.
  - rewrite filter_map_len; [lia|]. intros [d n]; simpl. destruct (c10_is_grid_dim d) eqn:E; simpl; rewrite ?swap_is_grid, ?E; reflexivity.
Qed.

(* hence over any program: a value carrying at most one element dimension never comes to carry two *)
Theorem griddims_bounded_by_start sz prog : forall v, forallb c10_op_ok prog = true ->
  (length (griddims (v_dims (c10_eval sz prog v))) <= length (griddims (v_dims v)))%nat.
Proof.
  induction prog as [|op prog IH]; intros v Hok; simpl; [lia|].
  simpl in Hok. apply andb_true_iff in Hok. destruct Hok as [H1 H2].
  specialize (IH (c10_step sz v op) H2). pose proof (griddims_never_created sz v op H1). unfold c10_eval in *. lia.
Qed.

(* the dims of an xarray operation's result are the ones plain xarray computes, whichever hook builds the object
   (the hook decides the class and the grid only) *)
Theorem xop_dims_as_plain sz v h o : v_dims (c10_step sz v (XOp h o)) = c10_apply_dimop o (v_dims v).
Proof. destruct h; reflexivity. Qed.

(* integrate removes exactly the face dimension and keeps the very same grid object *)
Theorem integrate_drops_face sz v :
  v_grid (c10_step sz v UIntegrate) = v_grid v /\
  (forall n, ~ In (2, n) (v_dims (c10_step sz v UIntegrate))) /\
  (forall d n, d <> 2 -> (In (d, n) (v_dims (c10_step sz v UIntegrate)) <-> In (d, n) (v_dims v))).
Proof.
  simpl. split; [reflexivity|]. split.
  - intros n Hin. apply filter_In in Hin. destruct Hin as [_ H]. simpl in H. discriminate.
  - intros d n Hd. rewrite filter_In. simpl. split; [tauto|]. intros H. split; [exact H|]. apply negb_true_iff. lia.
Qed.

(* non-vacuity: a face-centred value with a leading dimension, three operations deep *)
Example reach_example :
  let sz := fun f : Z => if f =? 0 then (6, 12, 8) else (4, 6, 4) in
  let v := {| v_ux := true; v_grid := Some (0, 0); v_dims := [(3, 5); (2, 8)] |} in
  let prog := [XOp HReplace DReverse; UIselGrid 1; UDual 1; XOp HCopyDeep (DDrop 3)] in
  c10_consistent sz v = true /\ forallb c10_op_ok prog = true /\
  v_dims (c10_eval sz prog v) = [(0, 4)] /\ length (griddims (v_dims v)) = 1%nat.
Proof. vm_compute. repeat split; reflexivity. Qed.
