(* Proofs about Model/C07.v: encoders, the template dict as state, decoders, round trips.
   Everything is unbounded (induction over datasets, tables, histories); the `_refuted` results
   exhibit concrete witnesses computed by vm_compute. *)
From Coq Require Import ZifyBool Permutation Sorting.Sorted RelationClasses String.
From Verif Require Import Base C07.
Local Open Scope Z_scope.

(* ------------------------------------------------------------------------------------- *)
(* dictionaries                                                                            *)

Lemma c07_get_set k k' v d :
  c07_dict_get k (c07_dict_set k' v d) = if k =? k' then Some v else c07_dict_get k d.
Proof.
  induction d as [|[k0 v0] d IH]; simpl.
  - destruct (k =? k'); reflexivity.
  - destruct (k' =? k0) eqn:E1; simpl.
    + destruct (k =? k') eqn:E2; [reflexivity|].
      destruct (k =? k0) eqn:E3; [lia|reflexivity].
    + destruct (k =? k0) eqn:E3.
      * destruct (k =? k') eqn:E2; [lia|reflexivity].
      * exact IH.
Qed.

Lemma c07_in_set k v d kv :
  In kv (c07_dict_set k v d) -> kv = (k, v) \/ In kv d.
Proof.
  induction d as [|[k0 v0] d IH]; simpl.
  - intros [H|[]]; auto.
  - destruct (k =? k0); simpl; intros [H|H]; auto.
    destruct (IH H); auto.
Qed.

Lemma c07_get_in k v d : c07_dict_get k d = Some v -> In (k, v) d.
Proof.
  induction d as [|[k0 v0] d IH]; simpl; [discriminate|].
  destruct (k =? k0) eqn:E.
  - intros [= ->]. left. f_equal. lia.
  - auto.
Qed.

(* the effect of a list of conditional assignments on one key: the last enabled one wins *)
Definition c07_hit (k : Z) (u : bool * (Z * c07_aval)) : bool := fst u && (k =? fst (snd u)).

Lemma c07_get_apply k ups : forall gt,
  c07_dict_get k (c07_apply_updates ups gt) =
  match find (c07_hit k) (rev ups) with
  | Some u => Some (snd (snd u))
  | None => c07_dict_get k gt
  end.
Proof.
  unfold c07_apply_updates.
  induction ups as [|u ups IH]; intros gt; simpl; [reflexivity|].
  rewrite IH. clear IH.
  assert (Hf : forall l, find (c07_hit k) (l ++ [u]) =
           match find (c07_hit k) l with Some x => Some x
           | None => if c07_hit k u then Some u else None end).
  { induction l as [|x l IHl]; simpl; [destruct (c07_hit k u); reflexivity|].
    destruct (c07_hit k x); [reflexivity|exact IHl]. }
  rewrite Hf. destruct (find (c07_hit k) (rev ups)); [reflexivity|].
  unfold c07_hit. destruct u as [b [k' v]]; simpl. destruct b; simpl; [|reflexivity].
  rewrite c07_get_set. destruct (k =? k'); reflexivity.
Qed.

Lemma c07_in_apply ups : forall gt kv,
  In kv (c07_apply_updates ups gt) ->
  In kv gt \/ exists u, In u ups /\ fst u = true /\ kv = snd u.
Proof.
  unfold c07_apply_updates.
  induction ups as [|u ups IH]; intros gt kv H; simpl in *; [auto|].
  destruct (IH _ _ H) as [H1|(u' & Hu & Hb & He)].
  - destruct (fst u) eqn:Eb.
    + destruct (c07_in_set _ _ _ _ H1) as [->|H2]; [|auto].
      right. exists u. repeat split; auto. destruct u as [b [a c]]; reflexivity.
    + auto.
  - right. exists u'. auto.
Qed.

(* ------------------------------------------------------------------------------------- *)
(* datasets                                                                                *)

Lemma c07_has_app ds1 ds2 n : c07_has (ds1 ++ ds2) n = c07_has ds1 n || c07_has ds2 n.
Proof. unfold c07_has. apply existsb_app. Qed.

Lemma c07_has_drop n m ds : c07_has (c07_drop n ds) m = negb (m =? n) && c07_has ds m.
Proof.
  unfold c07_has, c07_drop. induction ds as [|v ds IH]; simpl.
  - rewrite andb_false_r. reflexivity.
  - destruct (n =? cv_name v) eqn:E; simpl.
    + rewrite IH. destruct (m =? cv_name v) eqn:E2; simpl; [|reflexivity].
      assert (m =? n = true) by lia. rewrite H. reflexivity.
    + rewrite IH. destruct (m =? cv_name v) eqn:E2; simpl; [|reflexivity].
      assert (m =? n = false) by lia. rewrite H. reflexivity.
Qed.

Lemma c07_find_app n ds1 ds2 :
  c07_find n (ds1 ++ ds2) = match c07_find n ds1 with Some v => Some v | None => c07_find n ds2 end.
Proof.
  unfold c07_find. induction ds1 as [|v ds1 IH]; simpl; [reflexivity|].
  destruct (n =? cv_name v); [reflexivity|exact IH].
Qed.

Lemma c07_find_has n ds : c07_has ds n = false -> c07_find n ds = None.
Proof.
  unfold c07_has, c07_find. induction ds as [|v ds IH]; simpl; [reflexivity|].
  destruct (n =? cv_name v); simpl; [discriminate|exact IH].
Qed.

Lemma c07_has_find n ds : c07_has ds n = true -> exists v, c07_find n ds = Some v /\ cv_name v = n.
Proof.
  unfold c07_has, c07_find. induction ds as [|v ds IH]; simpl; [discriminate|].
  destruct (n =? cv_name v) eqn:E; simpl.
  - intros _. exists v. split; [reflexivity|lia].
  - exact IH.
Qed.

Lemma c07_find_drop n m ds : m <> n -> c07_find m (c07_drop n ds) = c07_find m ds.
Proof.
  intros Hne. unfold c07_find, c07_drop. induction ds as [|v ds IH]; simpl; [reflexivity|].
  destruct (n =? cv_name v) eqn:E; simpl.
  - destruct (m =? cv_name v) eqn:E2; [lia|exact IH].
  - destruct (m =? cv_name v); [reflexivity|exact IH].
Qed.

Lemma c07_dims_app ds1 ds2 : c07_dims (ds1 ++ ds2) = c07_dims ds1 ++ c07_dims ds2.
Proof. unfold c07_dims. apply flat_map_app. Qed.

Lemma c07_mem_app n l1 l2 : c07_mem n (l1 ++ l2) = c07_mem n l1 || c07_mem n l2.
Proof. unfold c07_mem. apply existsb_app. Qed.

(* ------------------------------------------------------------------------------------- *)
(* decidable equality helpers (used to discharge finite facts by computation)             *)

Fixpoint c07_list_eqb (a b : list Z) : bool :=
  match a, b with
  | [], [] => true
  | x :: a', y :: b' => (x =? y) && c07_list_eqb a' b'
  | _, _ => false
  end.

Lemma c07_list_eqb_eq a : forall b, c07_list_eqb a b = true -> a = b.
Proof.
  induction a as [|x a IH]; intros [|y b]; simpl; try discriminate; auto.
  intros H. apply andb_true_iff in H. destruct H as [H1 H2]. f_equal; [lia|auto].
Qed.

Definition c07_aval_eqb (a b : c07_aval) : bool :=
  match a, b with
  | C07_AStr x, C07_AStr y => c07_list_eqb x y
  | C07_ANum x, C07_ANum y => x =? y
  | C07_ANumArr, C07_ANumArr => true
  | C07_ABool, C07_ABool => true
  | C07_AObj, C07_AObj => true
  | _, _ => false
  end.

Lemma c07_aval_eqb_eq a b : c07_aval_eqb a b = true -> a = b.
Proof.
  destruct a, b; simpl; try discriminate; auto.
  - intros H. f_equal. apply c07_list_eqb_eq. exact H.
  - intros H. f_equal. lia.
Qed.

Definition c07_kv_eqb (p q : Z * c07_aval) : bool := (fst p =? fst q) && c07_aval_eqb (snd p) (snd q).

Lemma c07_kv_eqb_eq p q : c07_kv_eqb p q = true -> p = q.
Proof.
  destruct p as [a b], q as [c d]; unfold c07_kv_eqb; simpl. intros H.
  apply andb_true_iff in H. destruct H as [H1 H2]. f_equal; [lia|apply c07_aval_eqb_eq; exact H2].
Qed.

Definition c07_inb (p : Z * c07_aval) (d : c07_dict) : bool := existsb (c07_kv_eqb p) d.

Lemma c07_inb_In p d : c07_inb p d = true -> In p d.
Proof.
  unfold c07_inb. rewrite existsb_exists. intros (q & Hq & He). apply c07_kv_eqb_eq in He. subst. exact Hq.
Qed.

Fixpoint c07_nodupb (l : list Z) : bool :=
  match l with [] => true | x :: l' => negb (c07_mem x l') && c07_nodupb l' end.

Lemma c07_mem_In x l : c07_mem x l = true <-> In x l.
Proof.
  unfold c07_mem. rewrite existsb_exists. split.
  - intros (y & Hy & He). assert (x = y) by lia. subst. exact Hy.
  - intros H. exists x. split; [exact H|lia].
Qed.

Lemma c07_nodupb_NoDup l : c07_nodupb l = true -> NoDup l.
Proof.
  induction l as [|x l IH]; simpl; [constructor|].
  intros H. apply andb_true_iff in H. destruct H as [H1 H2].
  constructor; [|auto]. intros Hin. apply c07_mem_In in Hin. rewrite Hin in H1. discriminate.
Qed.

Lemma c07_get_of_in k v d : NoDup (map fst d) -> In (k, v) d -> c07_dict_get k d = Some v.
Proof.
  induction d as [|[k0 v0] d IH]; simpl; [intros _ []|].
  intros Hnd [H|H].
  - inversion H; subst. rewrite Z.eqb_refl. reflexivity.
  - inversion Hnd as [|? ? Hni Hnd']; subst.
    destruct (k =? k0) eqn:E.
    + exfalso. apply Hni. assert (k = k0) by lia. subst. apply (in_map fst) in H. exact H.
    + auto.
Qed.

(* ------------------------------------------------------------------------------------- *)
(* the UGRID template: canonical entries, invariant of every history                      *)

(* the (key, value) pairs _encode_ugrid can assign, independent of the dataset *)
Definition c07_update_pairs : list (Z * c07_aval) :=
  [ (c07_s_edge_dimension, C07_AStr [c07_s_n_edge]);
    (c07_s_face_coordinates, C07_AStr [c07_s_face_lon; c07_s_face_lat]);
    (c07_s_edge_coordinates, C07_AStr [c07_s_edge_lon; c07_s_edge_lat]) ]
  ++ map (fun c => (c, C07_AStr [c])) c07_conn_names.

(* the template with every optional entry present *)
Definition c07_full_template : c07_dict :=
  c07_apply_updates (map (fun p => (true, p)) c07_update_pairs) c07_base_template.

Lemma c07_update_list_pairs ds u : In u (c07_ugrid_update_list ds) -> In (snd u) c07_update_pairs.
Proof.
  unfold c07_ugrid_update_list, c07_update_pairs. intros H.
  apply in_app_or in H. destruct H as [H|H].
  - apply in_or_app. left. simpl in H. simpl.
    destruct H as [<-|[<-|[<-|[]]]]; simpl; auto.
  - apply in_or_app. right. apply in_map_iff in H. destruct H as (c & <- & Hc). cbn [snd].
    apply in_map_iff. exists c. auto.
Qed.

Lemma c07_pairs_in_full : forall p, In p c07_update_pairs -> In p c07_full_template.
Proof.
  assert (H : forallb (fun p => c07_inb p c07_full_template) c07_update_pairs = true) by (vm_compute; reflexivity).
  intros p Hp. rewrite forallb_forall in H. apply c07_inb_In. apply H. exact Hp.
Qed.

Lemma c07_base_in_full : forall p, In p c07_base_template -> In p c07_full_template.
Proof.
  assert (H : forallb (fun p => c07_inb p c07_full_template) c07_base_template = true) by (vm_compute; reflexivity).
  intros p Hp. rewrite forallb_forall in H. apply c07_inb_In. apply H. exact Hp.
Qed.

Lemma c07_full_keys : NoDup (map fst c07_full_template).
Proof. apply c07_nodupb_NoDup. vm_compute. reflexivity. Qed.

Lemma c07_full_unique k v v' : In (k, v) c07_full_template -> In (k, v') c07_full_template -> v = v'.
Proof.
  intros H1 H2. pose proof (c07_get_of_in _ _ _ c07_full_keys H1) as E1.
  pose proof (c07_get_of_in _ _ _ c07_full_keys H2) as E2. congruence.
Qed.

(* every entry is canonical, every base entry is still there *)
Definition c07_tmpl_ok (t : c07_dict) : Prop :=
  (forall kv, In kv t -> In kv c07_full_template) /\
  (forall kv, In kv c07_base_template -> In kv t).

Lemma c07_base_ok : c07_tmpl_ok c07_base_template.
Proof. split; [exact c07_base_in_full|auto]. Qed.

Lemma c07_set_keeps k v d kv : In kv d -> fst kv <> k -> In kv (c07_dict_set k v d).
Proof.
  induction d as [|[k0 v0] d IH]; simpl; [intros []|].
  intros [H|H] Hne.
  - subst kv. simpl in Hne. destruct (k =? k0) eqn:E; [lia|]. left. reflexivity.
  - destruct (k =? k0); simpl; auto.
Qed.

Lemma c07_set_new k v d : In (k, v) (c07_dict_set k v d).
Proof.
  induction d as [|[k0 v0] d IH]; simpl; [auto|].
  destruct (k =? k0); simpl; auto.
Qed.

(* as a set of entries, a canonical assignment only adds its pair *)
Lemma c07_set_entries k v d kv :
  (forall e, In e d -> In e c07_full_template) -> In (k, v) c07_full_template ->
  (In kv (c07_dict_set k v d) <-> kv = (k, v) \/ In kv d).
Proof.
  intros Hd Hkv. split; [apply c07_in_set|].
  intros [->|H]; [apply c07_set_new|].
  destruct kv as [k1 v1]. destruct (Z.eq_dec k1 k) as [->|Hne].
  - assert (v1 = v) by (eapply c07_full_unique; [apply Hd; exact H|exact Hkv]). subst. apply c07_set_new.
  - apply c07_set_keeps; [exact H|exact Hne].
Qed.

Lemma c07_apply_entries ups : forall d kv,
  (forall e, In e d -> In e c07_full_template) ->
  (forall u, In u ups -> In (snd u) c07_full_template) ->
  (In kv (c07_apply_updates ups d) <-> In kv d \/ exists u, In u ups /\ fst u = true /\ kv = snd u).
Proof.
  unfold c07_apply_updates.
  induction ups as [|u ups IH]; intros d kv Hd Hu; simpl.
  - split; [auto|]. intros [H|(u & [] & _)]. exact H.
  - destruct u as [b [k v]]. simpl.
    assert (Hkv : In (k, v) c07_full_template) by (apply (Hu (b, (k, v))); left; reflexivity).
    rewrite IH.
    + destruct b.
      * rewrite c07_set_entries by assumption. split.
        -- intros [[->|H]|(u & Hin & Hb & He)]; [right|left; exact H|right].
           ++ exists (true, (k, v)). auto.
           ++ exists u. auto.
        -- intros [H|(u & [<-|Hin] & Hb & He)]; [left; right; exact H| |].
           ++ left. left. exact He.
           ++ right. exists u. auto.
      * split.
        -- intros [H|(u & Hin & Hb & He)]; [left; exact H|right]. exists u. auto.
        -- intros [H|(u & [<-|Hin] & Hb & He)]; [left; exact H|discriminate Hb|right]. exists u. auto.
    + destruct b; [|exact Hd]. intros e He. apply c07_in_set in He. destruct He as [->|He]; auto.
    + intros u' Hu'. apply Hu. right. exact Hu'.
Qed.

Lemma c07_updates_entries ds tmpl kv : c07_tmpl_ok tmpl ->
  (In kv (c07_ugrid_updates ds tmpl) <->
   In kv tmpl \/ exists u, In u (c07_ugrid_update_list ds) /\ fst u = true /\ kv = snd u).
Proof.
  intros [H1 _]. unfold c07_ugrid_updates. apply c07_apply_entries; [exact H1|].
  intros u Hu. apply c07_pairs_in_full. eapply c07_update_list_pairs. exact Hu.
Qed.

Lemma c07_updates_ok ds tmpl : c07_tmpl_ok tmpl -> c07_tmpl_ok (c07_ugrid_updates ds tmpl).
Proof.
  intros Hok. pose proof Hok as [H1 H2]. split.
  - intros kv H. apply (c07_updates_entries ds tmpl kv Hok) in H. destruct H as [H|(u & Hu & _ & ->)]; [auto|].
    apply c07_pairs_in_full. eapply c07_update_list_pairs. exact Hu.
  - intros kv H. apply (c07_updates_entries ds tmpl kv Hok). left. auto.
Qed.

Lemma c07_tmpl_get k v tmpl : c07_tmpl_ok tmpl -> In (k, v) c07_base_template -> c07_dict_get k tmpl = Some v.
Proof.
  intros [H1 H2] Hb.
  destruct (c07_dict_get k tmpl) as [v'|] eqn:E.
  - f_equal. apply c07_get_in in E. eapply c07_full_unique; [apply H1; exact E|apply c07_base_in_full; exact Hb].
  - exfalso. specialize (H2 _ Hb).
    clear -H2 E. induction tmpl as [|[k0 v0] d IH]; simpl in *; [auto|].
    destruct (k =? k0) eqn:E2; [discriminate|]. destruct H2 as [H|H]; [inversion H; lia|auto].
Qed.

Lemma c07_tmpl_get_opt k v tmpl : c07_tmpl_ok tmpl -> c07_dict_get k tmpl = Some v -> In (k, v) c07_full_template.
Proof. intros [H1 _] E. apply H1. apply c07_get_in. exact E. Qed.

(* ------------------------------------------------------------------------------------- *)
(* dropping the helper attributes (variant vr_strip_helpers) changes neither names, dims nor data *)

Lemma c07_strip_name v : cv_name (c07_strip_var v) = cv_name v.
Proof. unfold c07_strip_var. destruct (find _ c07_helper_attrs); reflexivity. Qed.
Lemma c07_strip_dims v : cv_dims (c07_strip_var v) = cv_dims v.
Proof. unfold c07_strip_var. destruct (find _ c07_helper_attrs); reflexivity. Qed.
Lemma c07_strip_data v : cv_data (c07_strip_var v) = cv_data v.
Proof. unfold c07_strip_var. destruct (find _ c07_helper_attrs); reflexivity. Qed.

Lemma c07_get_filter (f : Z -> bool) k d :
  f k = true -> c07_dict_get k (filter (fun kv => f (fst kv)) d) = c07_dict_get k d.
Proof.
  intros Hk. induction d as [|[k0 v0] d IH]; simpl; [reflexivity|].
  destruct (f k0) eqn:E; simpl.
  - destruct (k =? k0); [reflexivity|exact IH].
  - destruct (k =? k0) eqn:E2; [|exact IH]. assert (k = k0) by lia. subst. congruence.
Qed.

(* the keys the decoders and the well-formedness predicate look at are never helper attributes *)
Lemma c07_strip_get k v :
  forallb (fun p => negb (c07_mem k (snd p))) c07_helper_attrs = true ->
  c07_dict_get k (cv_attrs (c07_strip_var v)) = c07_dict_get k (cv_attrs v).
Proof.
  intros H. unfold c07_strip_var. destruct (find _ c07_helper_attrs) as [p|] eqn:E; [|reflexivity].
  apply find_some in E. destruct E as [Hin _]. rewrite forallb_forall in H. specialize (H p Hin).
  cbn [cv_attrs]. apply (c07_get_filter (fun x => negb (c07_mem x (snd p)))). exact H.
Qed.

Lemma c07_has_strip ds n : c07_has (map c07_strip_var ds) n = c07_has ds n.
Proof.
  unfold c07_has. induction ds as [|v ds IH]; simpl; [reflexivity|]. rewrite c07_strip_name, IH. reflexivity.
Qed.

Lemma c07_find_strip n ds : c07_find n (map c07_strip_var ds) = option_map c07_strip_var (c07_find n ds).
Proof.
  unfold c07_find. induction ds as [|v ds IH]; simpl; [reflexivity|]. rewrite c07_strip_name.
  destruct (n =? cv_name v); [reflexivity|exact IH].
Qed.

Lemma c07_dims_strip ds : c07_dims (map c07_strip_var ds) = c07_dims ds.
Proof.
  unfold c07_dims. induction ds as [|v ds IH]; simpl; [reflexivity|]. rewrite c07_strip_dims, IH. reflexivity.
Qed.

Lemma c07_drop_strip n ds : c07_drop n (map c07_strip_var ds) = map c07_strip_var (c07_drop n ds).
Proof.
  unfold c07_drop. induction ds as [|v ds IH]; simpl; [reflexivity|]. rewrite c07_strip_name.
  destruct (n =? cv_name v); simpl; [exact IH|]. rewrite IH. reflexivity.
Qed.

Lemma c07_is_topology_strip v : c07_is_topology (c07_strip_var v) = c07_is_topology v.
Proof. unfold c07_is_topology. rewrite c07_strip_get by reflexivity. reflexivity. Qed.

Lemma c07_ds0_has vr ds n : c07_has (c07_ds0 vr ds) n = c07_has ds n.
Proof. unfold c07_ds0. destruct (vr_strip_helpers vr); [apply c07_has_strip|reflexivity]. Qed.

Lemma c07_ds0_dims vr ds : c07_dims (c07_ds0 vr ds) = c07_dims ds.
Proof. unfold c07_ds0. destruct (vr_strip_helpers vr); [apply c07_dims_strip|reflexivity]. Qed.

Lemma c07_wfb_ds0 vr ds : c07_ds_wfb ds = true -> c07_ds_wfb (c07_ds0 vr ds) = true.
Proof.
  unfold c07_ds0. destruct (vr_strip_helpers vr); [|auto].
  unfold c07_ds_wfb. rewrite !andb_true_iff. intros [[[[[H1 H2] H3] H4] H5] H6].
  rewrite !c07_has_strip. repeat split; auto.
  - unfold c07_var_float in *. rewrite c07_find_strip. destruct (c07_find c07_s_node_lon ds); [|discriminate].
    simpl. rewrite c07_strip_data, c07_strip_dims. exact H1.
  - unfold c07_var_float in *. rewrite c07_find_strip. destruct (c07_find c07_s_node_lat ds); [|discriminate].
    simpl. rewrite c07_strip_data, c07_strip_dims. exact H2.
  - rewrite c07_find_strip. destruct (c07_find c07_s_fnc ds); [|discriminate]. simpl.
    unfold c07_fnc_ok in *. rewrite c07_strip_data, c07_strip_dims.
    rewrite !c07_strip_get by reflexivity. exact H3.
  - rewrite forallb_forall in *. intros v Hv. apply in_map_iff in Hv. destruct Hv as (v0 & <- & Hv0).
    rewrite c07_is_topology_strip, c07_strip_name. apply H6. exact Hv0.
Qed.

Lemma c07_fnc_table_ds0 vr ds : c07_fnc_table (c07_ds0 vr ds) = c07_fnc_table ds.
Proof.
  unfold c07_ds0. destruct (vr_strip_helpers vr); [|reflexivity].
  unfold c07_fnc_table. rewrite c07_find_strip. destruct (c07_find c07_s_fnc ds); [|reflexivity].
  simpl. rewrite c07_strip_data. reflexivity.
Qed.

Lemma c07_lonlat_ds0 vr ds : c07_lonlat (c07_ds0 vr ds) = c07_lonlat ds.
Proof.
  unfold c07_ds0. destruct (vr_strip_helpers vr); [|reflexivity].
  unfold c07_lonlat. rewrite !c07_find_strip.
  destruct (c07_find c07_s_node_lon ds), (c07_find c07_s_node_lat ds); simpl; try reflexivity.
  unfold c07_float_data. rewrite !c07_strip_data. reflexivity.
Qed.

(* ------------------------------------------------------------------------------------- *)
(* shape of the UGRID encoder's output                                                     *)

Definition c07_ds1 (ds : c07_ds) : c07_ds :=
  if c07_has ds c07_s_grid_topology then c07_drop c07_s_grid_topology ds else ds.

Lemma c07_encode_out vr tmpl ds :
  uo_ds (c07_encode_ugrid vr tmpl ds) =
  c07_ds1 (c07_ds0 vr ds) ++ [c07_topology_var (c07_ugrid_updates (c07_ds1 (c07_ds0 vr ds)) tmpl)].
Proof. reflexivity. Qed.

Lemma c07_ds1_in ds v : In v (c07_ds1 ds) -> In v ds /\ cv_name v <> c07_s_grid_topology.
Proof.
  unfold c07_ds1. destruct (c07_has ds c07_s_grid_topology) eqn:E.
  - unfold c07_drop. rewrite filter_In. intros [H1 H2]. split; [exact H1|]. lia.
  - intros H. split; [exact H|]. unfold c07_has in E.
    assert (H2 : forall x, In x ds -> (c07_s_grid_topology =? cv_name x) = false).
    { intros x Hx. destruct (c07_s_grid_topology =? cv_name x) eqn:E2; [|reflexivity].
      rewrite <- E. symmetry. apply existsb_exists. exists x. auto. }
    specialize (H2 v H). lia.
Qed.

Lemma c07_ds1_no_topo ds : c07_has (c07_ds1 ds) c07_s_grid_topology = false.
Proof.
  unfold c07_ds1. destruct (c07_has ds c07_s_grid_topology) eqn:E; [|exact E].
  rewrite c07_has_drop. rewrite Z.eqb_refl. reflexivity.
Qed.

Lemma c07_ds1_has ds n : n <> c07_s_grid_topology -> c07_has (c07_ds1 ds) n = c07_has ds n.
Proof.
  intros Hne. unfold c07_ds1. destruct (c07_has ds c07_s_grid_topology); [|reflexivity].
  rewrite c07_has_drop. destruct (n =? c07_s_grid_topology) eqn:E; [lia|reflexivity].
Qed.

Lemma c07_ds1_find ds n : n <> c07_s_grid_topology -> c07_find n (c07_ds1 ds) = c07_find n ds.
Proof.
  intros Hne. unfold c07_ds1. destruct (c07_has ds c07_s_grid_topology); [|reflexivity].
  apply c07_find_drop. exact Hne.
Qed.

(* what the encoder assigns depends only on names and dims: the same with or without the helpers *)
Lemma c07_ds1_strip ds : c07_ds1 (map c07_strip_var ds) = map c07_strip_var (c07_ds1 ds).
Proof.
  unfold c07_ds1. rewrite c07_has_strip. destruct (c07_has ds c07_s_grid_topology); [|reflexivity].
  apply c07_drop_strip.
Qed.

Lemma c07_update_list_ext d d' :
  (forall n, c07_has d n = c07_has d' n) -> c07_dims d = c07_dims d' ->
  c07_ugrid_update_list d = c07_ugrid_update_list d'.
Proof.
  intros Hh Hd. unfold c07_ugrid_update_list. rewrite Hd, !Hh. f_equal.
  apply map_ext. intros c. rewrite Hh. reflexivity.
Qed.

Lemma c07_update_list_ds0 vr ds :
  c07_ugrid_update_list (c07_ds1 (c07_ds0 vr ds)) = c07_ugrid_update_list (c07_ds1 ds).
Proof.
  unfold c07_ds0. destruct (vr_strip_helpers vr); [|reflexivity]. rewrite c07_ds1_strip.
  apply c07_update_list_ext; [intros n; apply c07_has_strip|apply c07_dims_strip].
Qed.

Lemma c07_encode_template vr tmpl ds :
  uo_template (c07_encode_ugrid vr tmpl ds) =
  if vr_copy_template vr then tmpl else c07_ugrid_updates (c07_ds1 ds) tmpl.
Proof.
  unfold c07_encode_ugrid. cbn [uo_template]. destruct (vr_copy_template vr); [reflexivity|].
  change (c07_ugrid_updates (c07_ds1 (c07_ds0 vr ds)) tmpl = c07_ugrid_updates (c07_ds1 ds) tmpl).
  unfold c07_ugrid_updates. rewrite c07_update_list_ds0. reflexivity.
Qed.

Lemma c07_find_dims n ds v d :
  c07_find n ds = Some v -> c07_mem d (cv_dims v) = true -> c07_mem d (c07_dims ds) = true.
Proof.
  unfold c07_find, c07_dims. induction ds as [|x ds IH]; simpl; [discriminate|].
  rewrite c07_mem_app. destruct (n =? cv_name x).
  - intros [= ->] H. rewrite H. reflexivity.
  - intros H1 H2. rewrite (IH H1 H2). apply orb_true_r.
Qed.

Lemma c07_has_out ds1 gt w :
  c07_has (ds1 ++ [c07_topology_var gt]) w = c07_has ds1 w || (w =? c07_s_grid_topology).
Proof. rewrite c07_has_app. unfold c07_has at 2. simpl. rewrite orb_false_r. reflexivity. Qed.

Lemma c07_dims_out ds1 gt : c07_dims (ds1 ++ [c07_topology_var gt]) = c07_dims ds1.
Proof. rewrite c07_dims_app. simpl. apply app_nil_r. Qed.

Lemma c07_forallb_ext_in {A} (f g : A -> bool) l :
  (forall x, In x l -> f x = g x) -> forallb f l = forallb g l.
Proof.
  induction l as [|x l IH]; simpl; [reflexivity|]. intros H.
  rewrite (H x) by auto. rewrite IH by auto. reflexivity.
Qed.

(* closure tests depend only on names and dims: the same with or without the helper attributes *)
Lemma c07_entry_closed_ext d d' kv :
  (forall n, c07_has d n = c07_has d' n) -> c07_dims d = c07_dims d' ->
  c07_entry_closed d kv = c07_entry_closed d' kv.
Proof.
  intros Hh Hd. unfold c07_entry_closed. rewrite Hd. destruct (snd kv) as [ws| | | |]; try reflexivity.
  assert (E : forallb (c07_has d) ws = forallb (c07_has d') ws)
    by (apply c07_forallb_ext_in; intros; apply Hh).
  rewrite E. reflexivity.
Qed.

Lemma c07_entry_closed_ds0 vr ds kv :
  c07_entry_closed (c07_ds1 (c07_ds0 vr ds)) kv = c07_entry_closed (c07_ds1 ds) kv.
Proof.
  unfold c07_ds0. destruct (vr_strip_helpers vr); [|reflexivity]. rewrite c07_ds1_strip.
  apply c07_entry_closed_ext; [intros n; apply c07_has_strip|apply c07_dims_strip].
Qed.

(* no canonical entry mentions the name "grid_topology" *)
Lemma c07_full_words kv ws w :
  In kv c07_full_template -> snd kv = C07_AStr ws -> In w ws -> w <> c07_s_grid_topology.
Proof.
  assert (H : forallb (fun kv => match snd kv with
                                  | C07_AStr ws => forallb (fun w => negb (w =? c07_s_grid_topology)) ws
                                  | _ => true end) c07_full_template = true) by (vm_compute; reflexivity).
  intros Hin Hs Hw. rewrite forallb_forall in H. specialize (H kv Hin). rewrite Hs in H.
  rewrite forallb_forall in H. specialize (H w Hw). lia.
Qed.

Lemma c07_entry_out ds1 gt kv :
  In kv c07_full_template ->
  c07_entry_closed (ds1 ++ [c07_topology_var gt]) kv = c07_entry_closed ds1 kv.
Proof.
  intros Hin. unfold c07_entry_closed. destruct (snd kv) as [ws| | | |] eqn:Es; try reflexivity.
  rewrite c07_dims_out.
  assert (E : forallb (c07_has (ds1 ++ [c07_topology_var gt])) ws = forallb (c07_has ds1) ws).
  { apply c07_forallb_ext_in. intros w Hw. rewrite c07_has_out.
    pose proof (c07_full_words kv ws w Hin Es Hw). destruct (w =? c07_s_grid_topology) eqn:E; [lia|].
    apply orb_false_r. }
  rewrite E. reflexivity.
Qed.

Lemma c07_closed_out ds1 gt :
  c07_has ds1 c07_s_grid_topology = false ->
  c07_closed (ds1 ++ [c07_topology_var gt]) = forallb (c07_entry_closed (ds1 ++ [c07_topology_var gt])) gt.
Proof.
  intros H. unfold c07_closed. rewrite c07_find_app. rewrite (c07_find_has _ _ H).
  unfold c07_find. simpl. try rewrite Z.eqb_refl. reflexivity.
Qed.

(* ---- closure of single entries ---- *)

Lemma c07_entry_dim ds k w :
  c07_mem k c07_dim_keys = true -> c07_mem w (c07_dims ds) = true ->
  c07_entry_closed ds (k, C07_AStr [w]) = true.
Proof. intros H1 H2. unfold c07_entry_closed. cbn [fst snd]. rewrite H1. simpl. rewrite H2. reflexivity. Qed.

Lemma c07_entry_names ds k ws :
  c07_mem k c07_dim_keys = false -> forallb (c07_has ds) ws = true ->
  c07_entry_closed ds (k, C07_AStr ws) = true.
Proof.
  intros H1 H2. unfold c07_entry_closed. cbn [fst snd]. rewrite H1, H2.
  destruct (c07_mem k c07_coord_keys || c07_mem k c07_conn_names); reflexivity.
Qed.

(* the facts the encoder and the decoder need of a well-formed grid dataset *)
Record c07_wf_facts (d : c07_ds) : Prop := {
  wf_no_topo : c07_has d c07_s_grid_topology = false;
  wf_lon : exists v l, c07_find c07_s_node_lon d = Some v /\ cv_data v = C07_DFloat l
                       /\ c07_mem c07_s_n_node (cv_dims v) = true;
  wf_lat : exists v l, c07_find c07_s_node_lat d = Some v /\ cv_data v = C07_DFloat l;
  wf_fnc : exists v t, c07_find c07_s_fnc d = Some v /\ cv_data v = C07_DInt t
                       /\ c07_mem c07_s_n_face (cv_dims v) = true
                       /\ c07_dict_get c07_s_fillvalue (cv_attrs v) = Some (C07_ANum FILL)
                       /\ c07_dict_get c07_s_start_index (cv_attrs v) = Some (C07_ANum 0);
  wf_face : c07_has d c07_s_face_lon = true -> c07_has d c07_s_face_lat = true;
  wf_edge : c07_has d c07_s_edge_lon = true -> c07_has d c07_s_edge_lat = true;
  wf_topo : forall v, In v d -> c07_is_topology v = false
}.

Ltac c07_neq := let H := fresh in intro H; vm_compute in H; discriminate H.

Lemma c07_wf_ds1 ds : c07_ds_wfb ds = true -> c07_wf_facts (c07_ds1 ds).
Proof.
  unfold c07_ds_wfb. rewrite !andb_true_iff. intros [[[[[H1 H2] H3] H4] H5] H6].
  constructor.
  - apply c07_ds1_no_topo.
  - unfold c07_var_float in H1. rewrite c07_ds1_find by c07_neq.
    destruct (c07_find c07_s_node_lon ds) as [v|]; [|discriminate].
    apply andb_true_iff in H1. destruct H1 as [Ha Hb]. destruct (cv_data v) eqn:E; try discriminate.
    exists v, l. auto.
  - unfold c07_var_float in H2. rewrite c07_ds1_find by c07_neq.
    destruct (c07_find c07_s_node_lat ds) as [v|]; [|discriminate].
    apply andb_true_iff in H2. destruct H2 as [Ha Hb]. destruct (cv_data v) eqn:E; try discriminate.
    exists v, l. auto.
  - rewrite c07_ds1_find by c07_neq.
    destruct (c07_find c07_s_fnc ds) as [v|]; [|discriminate].
    unfold c07_fnc_ok in H3. rewrite !andb_true_iff in H3. destruct H3 as [[[Ha Hb] Hc] Hd].
    destruct (cv_data v) eqn:E; try discriminate.
    destruct (c07_dict_get c07_s_fillvalue (cv_attrs v)) as [[| f | | |]|] eqn:Ef; try discriminate.
    destruct (c07_dict_get c07_s_start_index (cv_attrs v)) as [[| s | | |]|] eqn:Es; try discriminate.
    assert (f = FILL) by lia. assert (s = 0) by lia. subst f s.
    exists v, t. repeat split; auto.
  - rewrite !c07_ds1_has by c07_neq. intros H. rewrite H in H4. simpl in H4. exact H4.
  - rewrite !c07_ds1_has by c07_neq. intros H. rewrite H in H5. simpl in H5. exact H5.
  - intros v Hv. apply c07_ds1_in in Hv. destruct Hv as [Hin Hne].
    rewrite forallb_forall in H6. specialize (H6 v Hin).
    destruct (c07_is_topology v); [|reflexivity]. simpl in H6. lia.
Qed.

Lemma c07_find_to_has n d v : c07_find n d = Some v -> c07_has d n = true.
Proof.
  unfold c07_find, c07_has. induction d as [|x d IH]; simpl; [discriminate|].
  destruct (n =? cv_name x); simpl; auto.
Qed.

(* every base entry is satisfied by a well-formed dataset *)
Lemma c07_base_closed d kv : c07_wf_facts d -> In kv c07_base_template -> c07_entry_closed d kv = true.
Proof.
  intros W H. destruct W as [_ (vlon & llon & Flon & _ & Dlon) (vlat & llat & Flat & _)
                               (vf & t & Ff & _ & Df & _) _ _ _].
  unfold c07_base_template in H. simpl in H.
  destruct H as [<-|[<-|[<-|[<-|[<-|[<-|[]]]]]]].
  - reflexivity.
  - reflexivity.
  - apply c07_entry_dim; [reflexivity|]. exact (c07_find_dims _ _ _ _ Ff Df).
  - apply c07_entry_dim; [reflexivity|]. exact (c07_find_dims _ _ _ _ Flon Dlon).
  - apply c07_entry_names; [reflexivity|]. simpl.
    rewrite (c07_find_to_has _ _ _ Flon), (c07_find_to_has _ _ _ Flat). reflexivity.
  - apply c07_entry_names; [reflexivity|]. simpl. rewrite (c07_find_to_has _ _ _ Ff). reflexivity.
Qed.

Lemma c07_conn_keys_facts c : In c c07_conn_names ->
  c07_mem c c07_dim_keys = false /\ c <> c07_s_grid_topology /\ c <> c07_s_mesh_topology.
Proof.
  assert (H : forallb (fun c => negb (c07_mem c c07_dim_keys) && negb (c =? c07_s_grid_topology)
                                && negb (c =? c07_s_mesh_topology)) c07_conn_names = true)
    by (vm_compute; reflexivity).
  intros Hc. rewrite forallb_forall in H. specialize (H c Hc).
  rewrite !andb_true_iff in H. destruct H as [[H1 H2] H3].
  repeat split; [destruct (c07_mem c c07_dim_keys); [discriminate|reflexivity]|lia|lia].
Qed.

(* every assignment the encoder makes for this dataset is satisfied by this dataset *)
Lemma c07_enabled_closed d u : c07_wf_facts d ->
  In u (c07_ugrid_update_list d) -> fst u = true -> c07_entry_closed d (snd u) = true.
Proof.
  intros W Hu Hb. unfold c07_ugrid_update_list in Hu. apply in_app_or in Hu. destruct Hu as [Hu|Hu].
  - simpl in Hu. destruct Hu as [<-|[<-|[<-|[]]]]; cbn [fst snd] in *.
    + apply c07_entry_dim; [reflexivity|exact Hb].
    + apply c07_entry_names; [reflexivity|]. simpl. rewrite Hb. rewrite (wf_face _ W Hb). reflexivity.
    + apply c07_entry_names; [reflexivity|]. simpl. rewrite Hb. rewrite (wf_edge _ W Hb). reflexivity.
  - apply in_map_iff in Hu. destruct Hu as (c & <- & Hc). cbn [fst snd] in *.
    apply c07_entry_names; [apply c07_conn_keys_facts; exact Hc|]. simpl. rewrite Hb. reflexivity.
Qed.

(* the encoded dataset is self-consistent exactly when every entry the template already
   carried (from earlier encodes) is satisfied by this dataset *)
Lemma c07_closed_char vr tmpl ds :
  c07_tmpl_ok tmpl -> c07_ds_wfb ds = true ->
  (c07_closed (uo_ds (c07_encode_ugrid vr tmpl ds)) = true <->
   forall kv, In kv tmpl -> c07_entry_closed (c07_ds1 ds) kv = true).
Proof.
  intros Hok Hwf. pose proof (c07_wf_ds1 _ (c07_wfb_ds0 vr ds Hwf)) as W.
  rewrite c07_encode_out. rewrite c07_closed_out by (apply W).
  rewrite forallb_forall. set (d := c07_ds1 (c07_ds0 vr ds)) in *.
  pose proof (c07_updates_ok d tmpl Hok) as [Hfull _].
  split.
  - intros H kv Hkv. rewrite <- (c07_entry_closed_ds0 vr). fold d.
    rewrite <- (c07_entry_out _ (c07_ugrid_updates d tmpl)) by (apply Hok; exact Hkv).
    apply H. apply (c07_updates_entries _ _ _ Hok). left. exact Hkv.
  - intros H kv Hkv. rewrite c07_entry_out by (apply Hfull; exact Hkv).
    apply (c07_updates_entries _ _ _ Hok) in Hkv. destruct Hkv as [Hkv|(u & Hu & Hb & ->)].
    + unfold d. rewrite c07_entry_closed_ds0. auto.
    + apply c07_enabled_closed; assumption.
Qed.

(* fresh process: the template is the base template *)
Theorem c07_ugrid_closed_fresh vr ds :
  c07_ds_wfb ds = true -> c07_closed (uo_ds (c07_encode_ugrid vr c07_base_template ds)) = true.
Proof.
  intros Hwf. apply (c07_closed_char vr _ ds c07_base_ok Hwf).
  intros kv Hkv. apply c07_base_closed; [apply c07_wf_ds1; exact Hwf|exact Hkv].
Qed.

(* ------------------------------------------------------------------------------------- *)
(* histories: the module-level template after any sequence of encode calls               *)

Lemma c07_one_template vr tmpl sp :
  fst (c07_one vr tmpl sp) =
  match c07_dispatch (sp_encode_as sp) (sp_format sp) with
  | Some C07_UGRID => uo_template (c07_encode_ugrid vr tmpl (sp_ds sp))
  | _ => tmpl
  end.
Proof. unfold c07_one. destruct (c07_dispatch (sp_encode_as sp) (sp_format sp)) as [[| |]|]; reflexivity. Qed.

Lemma c07_template_after_cons vr tmpl sp h :
  c07_template_after vr tmpl (sp :: h) = c07_template_after vr (fst (c07_one vr tmpl sp)) h.
Proof.
  unfold c07_template_after. simpl. destruct (c07_one vr tmpl sp) as [t1 r]. simpl.
  destruct (c07_run vr t1 h) as [t2 rs]. reflexivity.
Qed.

Lemma c07_template_after_nil vr tmpl : c07_template_after vr tmpl [] = tmpl.
Proof. reflexivity. Qed.

(* with the copy (repair) the template never changes *)
Lemma c07_template_copy vr h : vr_copy_template vr = true ->
  forall tmpl, c07_template_after vr tmpl h = tmpl.
Proof.
  intros Hc. induction h as [|sp h IH]; intros tmpl; [reflexivity|].
  rewrite c07_template_after_cons, IH, c07_one_template.
  destruct (c07_dispatch (sp_encode_as sp) (sp_format sp)) as [[| |]|]; try reflexivity.
  rewrite c07_encode_template, Hc. reflexivity.
Qed.

Lemma c07_one_ok vr tmpl sp : c07_tmpl_ok tmpl -> c07_tmpl_ok (fst (c07_one vr tmpl sp)).
Proof.
  intros Hok. rewrite c07_one_template.
  destruct (c07_dispatch (sp_encode_as sp) (sp_format sp)) as [[| |]|]; try exact Hok.
  rewrite c07_encode_template. destruct (vr_copy_template vr); [exact Hok|].
  apply c07_updates_ok. exact Hok.
Qed.

(* the invariant holds after every history, for every variant *)
Lemma c07_template_after_ok vr h : forall tmpl, c07_tmpl_ok tmpl -> c07_tmpl_ok (c07_template_after vr tmpl h).
Proof.
  induction h as [|sp h IH]; intros tmpl Hok; [exact Hok|].
  rewrite c07_template_after_cons. apply IH. apply c07_one_ok. exact Hok.
Qed.

(* what one encode call adds to the aliased template *)
Definition c07_step_adds (sp : c07_step) (kv : Z * c07_aval) : Prop :=
  c07_dispatch (sp_encode_as sp) (sp_format sp) = Some C07_UGRID /\
  exists u, In u (c07_ugrid_update_list (c07_ds1 (sp_ds sp))) /\ fst u = true /\ kv = snd u.

Lemma c07_template_after_entries vr h : vr_copy_template vr = false ->
  forall tmpl kv, c07_tmpl_ok tmpl ->
  (In kv (c07_template_after vr tmpl h) <-> In kv tmpl \/ exists sp, In sp h /\ c07_step_adds sp kv).
Proof.
  intros Hc. induction h as [|sp h IH]; intros tmpl kv Hok.
  - rewrite c07_template_after_nil. split; [auto|]. intros [H|(sp & [] & _)]. exact H.
  - rewrite c07_template_after_cons. rewrite IH by (apply c07_one_ok; exact Hok).
    rewrite c07_one_template. unfold c07_step_adds.
    destruct (c07_dispatch (sp_encode_as sp) (sp_format sp)) as [[| |]|] eqn:Ed.
    + rewrite c07_encode_template, Hc. rewrite (c07_updates_entries _ _ _ Hok). split.
      * intros [[H|(u & Hu)]|(sp' & Hin & Ha)]; [left; exact H| |].
        -- right. exists sp. split; [left; reflexivity|]. split; [exact Ed|]. exists u. exact Hu.
        -- right. exists sp'. split; [right; exact Hin|exact Ha].
      * intros [H|(sp' & [<-|Hin] & Ha)]; [left; left; exact H| |].
        -- left. right. destruct Ha as [_ Hu]. exact Hu.
        -- right. exists sp'. auto.
    + split.
      * intros [H|(sp' & Hin & Ha)]; [left; exact H|]. right. exists sp'. split; [right; exact Hin|exact Ha].
      * intros [H|(sp' & [<-|Hin] & Ha)]; [left; exact H| |].
        -- destruct Ha as [Ha _]. rewrite Ed in Ha. discriminate.
        -- right. exists sp'. auto.
    + split.
      * intros [H|(sp' & Hin & Ha)]; [left; exact H|]. right. exists sp'. split; [right; exact Hin|exact Ha].
      * intros [H|(sp' & [<-|Hin] & Ha)]; [left; exact H| |].
        -- destruct Ha as [Ha _]. rewrite Ed in Ha. discriminate.
        -- right. exists sp'. auto.
    + split.
      * intros [H|(sp' & Hin & Ha)]; [left; exact H|]. right. exists sp'. split; [right; exact Hin|exact Ha].
      * intros [H|(sp' & [<-|Hin] & Ha)]; [left; exact H| |].
        -- destruct Ha as [Ha _]. rewrite Ed in Ha. discriminate.
        -- right. exists sp'. auto.
Qed.

(* C07 "self-consistent ... regardless of which other grids were encoded beforehand":
   (a) the code as it is: exactly when every entry added by an earlier UGRID encode is satisfied
       by the present dataset; (b) with the template copied: always *)
Theorem c07_ugrid_closed_history vr h ds :
  vr_copy_template vr = false -> c07_ds_wfb ds = true ->
  (c07_closed (uo_ds (c07_encode_ugrid vr (c07_template_after vr c07_base_template h) ds)) = true <->
   forall sp kv, In sp h -> c07_step_adds sp kv -> c07_entry_closed (c07_ds1 ds) kv = true).
Proof.
  intros Hc Hwf.
  rewrite (c07_closed_char vr _ ds (c07_template_after_ok vr h _ c07_base_ok) Hwf).
  split.
  - intros H sp kv Hin Ha. apply H. apply (c07_template_after_entries vr h Hc _ _ c07_base_ok).
    right. exists sp. auto.
  - intros H kv Hkv. apply (c07_template_after_entries vr h Hc _ _ c07_base_ok) in Hkv.
    destruct Hkv as [Hkv|(sp & Hin & Ha)]; [|eauto].
    apply c07_base_closed; [apply c07_wf_ds1; exact Hwf|exact Hkv].
Qed.

Theorem c07_ugrid_closed_repaired vr h ds :
  vr_copy_template vr = true -> c07_ds_wfb ds = true ->
  c07_closed (uo_ds (c07_encode_ugrid vr (c07_template_after vr c07_base_template h) ds)) = true.
Proof.
  intros Hc Hwf. rewrite (c07_template_copy vr h Hc). apply c07_ugrid_closed_fresh. exact Hwf.
Qed.

(* ---- concrete datasets for witnesses and non-vacuity ---- *)

Definition c07_ex_fnc_attrs : c07_dict :=
  [ (c07_s_cf_role, C07_AStr [c07_s_fnc]); (c07_s_start_index, C07_ANum 0);
    (c07_s_fillvalue, C07_ANum FILL) ].

(* two nodes' worth of lon/lat tokens are enough here; quad + triangle sharing an edge *)
Definition c07_ex_small : c07_ds :=
  [ {| cv_name := c07_s_node_lon; cv_dims := [c07_s_n_node]; cv_attrs := []; cv_data := C07_DFloat [0; 1; 2; 3; 4] |};
    {| cv_name := c07_s_node_lat; cv_dims := [c07_s_n_node]; cv_attrs := []; cv_data := C07_DFloat [5; 6; 7; 8; 9] |};
    {| cv_name := c07_s_fnc; cv_dims := [c07_s_n_face; c07_s_n_max_face_nodes]; cv_attrs := c07_ex_fnc_attrs;
       cv_data := C07_DInt [[0; 1; 2; 3]; [2; 3; 4; FILL]] |} ].

(* the same grid after edge_lon/edge_lat (and hence edge_node_connectivity with its helper
   attributes) were materialised *)
Definition c07_ex_enc : Z := Eval vm_compute in c07_code "edge_node_connectivity"%string.
Definition c07_ex_edges : c07_ds :=
  c07_ex_small ++
  [ {| cv_name := c07_ex_enc;
       cv_dims := [c07_s_n_edge; c07_code "two"%string];
       cv_attrs := [(c07_s_cf_role, C07_AStr [c07_ex_enc]);
                    (c07_code "inverse_indices"%string, C07_ANumArr);
                    (c07_code "fill_value_mask"%string, C07_ABool)];
       cv_data := C07_DNone |};
    {| cv_name := c07_s_edge_lon; cv_dims := [c07_s_n_edge]; cv_attrs := []; cv_data := C07_DNone |};
    {| cv_name := c07_s_edge_lat; cv_dims := [c07_s_n_edge]; cv_attrs := []; cv_data := C07_DNone |} ].

Definition c07_ex_step (fmt : Z) (ds : c07_ds) : c07_step :=
  {| sp_encode_as := false; sp_format := fmt; sp_ds := ds; sp_areas_ok := true |}.
Definition c07_ex_ugrid : Z := Eval vm_compute in nth 0 c07_fmt_names_to_xarray 0.
Definition c07_ex_exodus : Z := Eval vm_compute in nth 1 c07_fmt_names_to_xarray 0.
Definition c07_ex_scrip : Z := Eval vm_compute in nth 2 c07_fmt_names_to_xarray 0.

Example c07_ex_small_wf : c07_ds_wfb c07_ex_small = true.
Proof. vm_compute. reflexivity. Qed.
Example c07_ex_edges_wf : c07_ds_wfb c07_ex_edges = true.
Proof. vm_compute. reflexivity. Qed.

(* the aliased template (code before 0ec27eb7): a grid with edges encoded first, then a fresh small grid *)
Theorem c07_ugrid_closed_refuted :
  exists h ds, c07_ds_wfb ds = true /\
    c07_closed (uo_ds (c07_encode_ugrid c07_before_fixes (c07_template_after c07_before_fixes c07_base_template h) ds)) = false.
Proof.
  exists [c07_ex_step c07_ex_ugrid c07_ex_edges], c07_ex_small. split; vm_compute; reflexivity.
Qed.

(* non-vacuity of the history theorem: a history whose additions are all satisfied *)
Example c07_ugrid_closed_history_nonvacuous :
  c07_closed (uo_ds (c07_encode_ugrid c07_before_fixes
     (c07_template_after c07_before_fixes c07_base_template
        [c07_ex_step c07_ex_ugrid c07_ex_small; c07_ex_step c07_ex_exodus c07_ex_edges]) c07_ex_edges)) = true.
Proof. vm_compute. reflexivity. Qed.

(* ------------------------------------------------------------------------------------- *)
(* writability                                                                             *)

Lemma c07_full_storable : forall kv, In kv c07_full_template -> c07_netcdf_ok (snd kv) = true.
Proof.
  assert (H : forallb (fun kv => c07_netcdf_ok (snd kv)) c07_full_template = true) by (vm_compute; reflexivity).
  intros kv Hkv. rewrite forallb_forall in H. auto.
Qed.

(* the encoded dataset can be written iff the grid's own variables carry only storable attributes;
   holds for every template a history can produce *)
Theorem c07_ugrid_writable vr tmpl ds :
  c07_tmpl_ok tmpl ->
  c07_writable (uo_ds (c07_encode_ugrid vr tmpl ds)) = c07_writable (c07_ds1 (c07_ds0 vr ds)).
Proof.
  intros Hok. rewrite c07_encode_out. unfold c07_writable. rewrite forallb_app. simpl.
  rewrite andb_true_r.
  assert (E : forallb (fun kv => c07_netcdf_ok (snd kv)) (c07_ugrid_updates (c07_ds1 (c07_ds0 vr ds)) tmpl) = true).
  { apply forallb_forall. intros kv Hkv. apply c07_full_storable.
    apply (c07_updates_ok (c07_ds1 (c07_ds0 vr ds)) tmpl Hok). exact Hkv. }
  rewrite E. apply andb_true_r.
Qed.

Theorem c07_ugrid_writable_refuted :
  exists ds, c07_ds_wfb ds = true /\
    c07_writable (uo_ds (c07_encode_ugrid c07_before_fixes c07_base_template ds)) = false.
Proof. exists c07_ex_edges. split; vm_compute; reflexivity. Qed.

Example c07_ugrid_writable_nonvacuous :
  c07_writable (uo_ds (c07_encode_ugrid c07_faithful c07_base_template c07_ex_small)) = true.
Proof. vm_compute. reflexivity. Qed.

(* ------------------------------------------------------------------------------------- *)
(* UGRID round trip: decoding the encoded dataset gives back the grid's own arrays         *)

Lemma c07_find_gen_app {A} (f : A -> bool) l1 l2 :
  find f (l1 ++ l2) = match find f l1 with Some x => Some x | None => find f l2 end.
Proof. induction l1 as [|x l1 IH]; simpl; [reflexivity|]. destruct (f x); [reflexivity|exact IH]. Qed.

Lemma c07_find_none {A} (f : A -> bool) l : (forall x, In x l -> f x = false) -> find f l = None.
Proof.
  induction l as [|x l IH]; simpl; [reflexivity|]. intros H. rewrite (H x) by auto. apply IH. auto.
Qed.

Lemma c07_forallb_flat_map {A B} (P : B -> bool) (f : A -> list B) l :
  forallb P (flat_map f l) = forallb (fun x => forallb P (f x)) l.
Proof. induction l as [|x l IH]; simpl; [reflexivity|]. rewrite forallb_app, IH. reflexivity. Qed.

Lemma c07_get_remove k k' d :
  c07_dict_get k (c07_dict_remove k' d) = if k =? k' then None else c07_dict_get k d.
Proof.
  unfold c07_dict_remove. induction d as [|[k0 v0] d IH]; simpl.
  - destruct (k =? k'); reflexivity.
  - destruct (k' =? k0) eqn:E1; simpl.
    + rewrite IH. destruct (k =? k') eqn:E2; [reflexivity|]. destruct (k =? k0) eqn:E3; [lia|reflexivity].
    + destruct (k =? k0) eqn:E3.
      * destruct (k =? k') eqn:E2; [lia|reflexivity].
      * exact IH.
Qed.

Lemma c07_has_no_name d n : c07_has d n = false -> forall v, In v d -> cv_name v <> n.
Proof.
  unfold c07_has. intros H v Hv Hn.
  assert (existsb (fun v0 => n =? cv_name v0) d = true).
  { apply existsb_exists. exists v. split; [exact Hv|lia]. }
  congruence.
Qed.

(* both decoding routes of the connectivity variable return the table unchanged *)
Lemma c07_shift_zero (t : table) : map (map (fun x => if x =? FILL then x else x - 0)) t = t.
Proof.
  rewrite <- (map_id t) at 2. apply map_ext. intros r. rewrite <- (map_id r) at 2. apply map_ext.
  intros x. destruct (x =? FILL); lia.
Qed.

Lemma c07_standardize_direct v t :
  cv_data v = C07_DInt t -> c07_dict_get c07_s_fillvalue (cv_attrs v) = Some (C07_ANum FILL) ->
  c07_dict_get c07_s_start_index (cv_attrs v) = Some (C07_ANum 0) ->
  c07_standardize v = Some t.
Proof.
  intros Hd Hf Hs. unfold c07_standardize. rewrite Hd, Hf, Hs. rewrite Z.eqb_refl.
  rewrite c07_shift_zero. reflexivity.
Qed.

Lemma c07_standardize_file v t :
  cv_data v = C07_DInt t -> c07_dict_get c07_s_fillvalue (cv_attrs v) = Some (C07_ANum FILL) ->
  c07_dict_get c07_s_start_index (cv_attrs v) = Some (C07_ANum 0) ->
  c07_standardize (c07_file_var v) = Some t.
Proof.
  intros Hd Hf Hs. unfold c07_file_var. rewrite Hd, Hf. unfold c07_standardize. cbn [cv_data cv_attrs].
  rewrite !c07_get_remove.
  replace (c07_s_start_index =? c07_s_fillvalue) with false by reflexivity.
  rewrite Z.eqb_refl. rewrite Hs. f_equal.
  rewrite !map_map. rewrite <- (map_id t) at 2. apply map_ext. intros r.
  unfold c07_mask_row. rewrite !map_map. rewrite <- (map_id r) at 2. apply map_ext. intros x.
  destruct (x =? FILL) eqn:E.
  - rewrite Z.eqb_refl. lia.
  - rewrite E. lia.
Qed.

Theorem c07_ugrid_roundtrip vr tmpl ds via_file :
  c07_tmpl_ok tmpl -> c07_ds_wfb ds = true ->
  c07_closed (uo_ds (c07_encode_ugrid vr tmpl ds)) = true ->
  exists t lon lat,
    c07_fnc_table ds = Some t /\ c07_lonlat ds = Some (lon, lat) /\
    c07_read_ugrid via_file (uo_ds (c07_encode_ugrid vr tmpl ds))
      = Some {| dc_fnc := t; dc_lon := lon; dc_lat := lat |}.
Proof.
  intros Hok Hwf Hcl. pose proof (c07_wf_ds1 _ (c07_wfb_ds0 vr ds Hwf)) as W.
  rewrite <- (c07_fnc_table_ds0 vr ds), <- (c07_lonlat_ds0 vr ds).
  rewrite c07_encode_out in *. set (ds' := c07_ds0 vr ds) in *. set (d := c07_ds1 ds') in *.
  set (gt := c07_ugrid_updates d tmpl) in *.
  pose proof (c07_updates_ok d tmpl Hok) as Hgt. fold gt in Hgt.
  destruct W as [Wno (vlon & lon & Flon & Dlon & _) (vlat & lat & Flat & Dlat)
                   (vf & t & Ff & Df & _ & Fillf & Startf) _ _ Wtopo].
  exists t, lon, lat.
  (* the grid's own arrays *)
  assert (Hne1 : c07_s_fnc <> c07_s_grid_topology) by c07_neq.
  assert (Hne2 : c07_s_node_lon <> c07_s_grid_topology) by c07_neq.
  assert (Hne3 : c07_s_node_lat <> c07_s_grid_topology) by c07_neq.
  split; [unfold c07_fnc_table; rewrite <- (c07_ds1_find ds' _ Hne1); fold d; rewrite Ff, Df; reflexivity|].
  split; [unfold c07_lonlat; rewrite <- (c07_ds1_find ds' _ Hne2), <- (c07_ds1_find ds' _ Hne3); fold d;
          rewrite Flon, Flat; unfold c07_float_data; rewrite Dlon, Dlat; reflexivity|].
  (* closure, entry by entry *)
  rewrite c07_closed_out in Hcl by exact Wno. rewrite forallb_forall in Hcl.
  assert (Hcl' : forall kv, In kv gt -> c07_entry_closed d kv = true).
  { intros kv Hkv. rewrite <- (c07_entry_out d gt) by (apply Hgt; exact Hkv). auto. }
  clear Hcl.
  (* the topology variable is found *)
  unfold c07_read_ugrid.
  assert (Htv : find c07_is_topology (d ++ [c07_topology_var gt]) = Some (c07_topology_var gt)).
  { rewrite c07_find_gen_app. rewrite (c07_find_none _ _ Wtopo). simpl.
    unfold c07_is_topology. cbn [cv_attrs c07_topology_var].
    rewrite (c07_tmpl_get c07_s_cf_role (C07_AStr [c07_s_mesh_topology]) gt Hgt) by (simpl; auto).
    rewrite Z.eqb_refl. reflexivity. }
  rewrite Htv. cbn [cv_attrs c07_topology_var].
  (* the three coordinate entries *)
  assert (Hnc : c07_two_names gt c07_s_node_coordinates = Some (Some (c07_s_node_lon, c07_s_node_lat))).
  { unfold c07_two_names.
    rewrite (c07_tmpl_get c07_s_node_coordinates (C07_AStr [c07_s_node_lon; c07_s_node_lat]) gt Hgt)
      by (simpl; auto 10). reflexivity. }
  assert (Hopt : forall k a b, In (k, C07_AStr [a; b]) c07_full_template ->
            (c07_two_names gt k = Some None) \/
            (c07_two_names gt k = Some (Some (a, b)) /\ c07_has d a = true /\ c07_has d b = true
             /\ c07_mem k c07_dim_keys = false /\ (c07_mem k c07_coord_keys || c07_mem k c07_conn_names) = true
             -> True) /\
            (c07_dict_get k gt <> None -> c07_two_names gt k = Some (Some (a, b)) /\ In (k, C07_AStr [a; b]) gt)).
  { intros k a b Hin. unfold c07_two_names. destruct (c07_dict_get k gt) as [v|] eqn:E; [right|left; reflexivity].
    split; [auto|]. intros _.
    pose proof (c07_get_in _ _ _ E) as Hkv.
    assert (v = C07_AStr [a; b]) by (eapply c07_full_unique; [apply Hgt; exact Hkv|exact Hin]). subst v.
    split; [reflexivity|exact Hkv]. }
  assert (Hec : In (c07_s_edge_coordinates, C07_AStr [c07_s_edge_lon; c07_s_edge_lat]) c07_full_template)
    by (apply c07_inb_In; vm_compute; reflexivity).
  assert (Hfc : In (c07_s_face_coordinates, C07_AStr [c07_s_face_lon; c07_s_face_lat]) c07_full_template)
    by (apply c07_inb_In; vm_compute; reflexivity).
  rewrite Hnc.
  (* names referenced by the rename dictionaries exist *)
  assert (Hlonhas : c07_has d c07_s_node_lon = true) by (eapply c07_find_to_has; exact Flon).
  assert (Hlathas : c07_has d c07_s_node_lat = true) by (eapply c07_find_to_has; exact Flat).
  assert (Hout : forall n, c07_has d n = true -> c07_has (d ++ [c07_topology_var gt]) n = true).
  { intros n Hn. rewrite c07_has_out, Hn. reflexivity. }
  assert (Hpair : forall k a b, In (k, C07_AStr [a; b]) gt -> c07_mem k c07_dim_keys = false ->
                  (c07_mem k c07_coord_keys || c07_mem k c07_conn_names) = true ->
                  c07_has d a = true /\ c07_has d b = true).
  { intros k a b Hin H1 H2. specialize (Hcl' _ Hin). unfold c07_entry_closed in Hcl'. cbn [fst snd] in Hcl'.
    rewrite H1, H2 in Hcl'. simpl in Hcl'. rewrite !andb_true_iff in Hcl'. tauto. }
  assert (Hec2 : exists ec, c07_two_names gt c07_s_edge_coordinates = Some ec /\
                 forallb (fun p : Z * Z => c07_has (d ++ [c07_topology_var gt]) (fst p))
                   (match ec with Some (a, b) => [(a, c07_s_edge_lon); (b, c07_s_edge_lat)] | None => [] end) = true).
  { destruct (Hopt _ _ _ Hec) as [H|[_ H]].
    - exists None. split; [exact H|reflexivity].
    - destruct (c07_dict_get c07_s_edge_coordinates gt) eqn:E.
      + destruct H as [H1 H2]; [congruence|]. exists (Some (c07_s_edge_lon, c07_s_edge_lat)). split; [exact H1|].
        destruct (Hpair _ _ _ H2) as [Ha Hb]; [reflexivity|reflexivity|].
        simpl. rewrite (Hout _ Ha), (Hout _ Hb). reflexivity.
      + exists None. unfold c07_two_names. rewrite E. split; reflexivity. }
  assert (Hfc2 : exists fc, c07_two_names gt c07_s_face_coordinates = Some fc /\
                 forallb (fun p : Z * Z => c07_has (d ++ [c07_topology_var gt]) (fst p))
                   (match fc with Some (a, b) => [(a, c07_s_face_lon); (b, c07_s_face_lat)] | None => [] end) = true).
  { destruct (Hopt _ _ _ Hfc) as [H|[_ H]].
    - exists None. split; [exact H|reflexivity].
    - destruct (c07_dict_get c07_s_face_coordinates gt) eqn:E.
      + destruct H as [H1 H2]; [congruence|]. exists (Some (c07_s_face_lon, c07_s_face_lat)). split; [exact H1|].
        destruct (Hpair _ _ _ H2) as [Ha Hb]; [reflexivity|reflexivity|].
        simpl. rewrite (Hout _ Ha), (Hout _ Hb). reflexivity.
      + exists None. unfold c07_two_names. rewrite E. split; reflexivity. }
  destruct Hec2 as (ec & Eec & Hecb). destruct Hfc2 as (fc & Efc & Hfcb).
  rewrite Eec, Efc.
  set (coord_ren := ([(c07_s_node_lon, c07_s_node_lon); (c07_s_node_lat, c07_s_node_lat)] ++ _ ++ _)%list).
  set (conn_ren := flat_map _ c07_conn_names).
  (* coordinate renames are all possible *)
  assert (Hc1 : forallb (fun p : Z * Z => c07_has (d ++ [c07_topology_var gt]) (fst p)) coord_ren = true).
  { unfold coord_ren. rewrite !forallb_app. rewrite Hecb, Hfcb. simpl.
    rewrite (Hout _ Hlonhas), (Hout _ Hlathas). reflexivity. }
  (* connectivity renames are all possible *)
  assert (Hc2 : forallb (fun p : Z * Z => c07_has (d ++ [c07_topology_var gt]) (fst p)
                                          && negb (fst p =? c07_s_grid_topology)) conn_ren = true).
  { unfold conn_ren. rewrite c07_forallb_flat_map. apply forallb_forall. intros c Hc.
    destruct (c07_conn_keys_facts c Hc) as (Hk1 & Hk2 & Hk3).
    destruct (c07_dict_get c gt) as [v|] eqn:E.
    - pose proof (c07_get_in _ _ _ E) as Hkv.
      assert (Hfull : In (c, C07_AStr [c]) c07_full_template).
      { apply c07_pairs_in_full. unfold c07_update_pairs. apply in_or_app. right.
        apply in_map_iff. exists c. auto. }
      assert (v = C07_AStr [c]) by (eapply c07_full_unique; [apply Hgt; exact Hkv|exact Hfull]). subst v.
      specialize (Hcl' _ Hkv). unfold c07_entry_closed in Hcl'. cbn [fst snd] in Hcl'.
      rewrite Hk1 in Hcl'. rewrite (proj2 (c07_mem_In c c07_conn_names) Hc) in Hcl'.
      rewrite orb_true_r in Hcl'. simpl in Hcl'. rewrite andb_true_r in Hcl'.
      simpl. rewrite (Hout _ Hcl'). destruct (c =? c07_s_grid_topology) eqn:E2; [lia|reflexivity].
    - match goal with |- context [find ?f ?l] => destruct (find f l) as [v|] eqn:Ev end; [|reflexivity].
      apply find_some in Ev. destruct Ev as [Hin Hp]. simpl.
      assert (Hname : cv_name v <> c07_s_grid_topology).
      { apply in_app_or in Hin. destruct Hin as [Hin|[<-|[]]].
        - apply (c07_has_no_name _ _ Wno v Hin).
        - exfalso. cbn [cv_attrs c07_topology_var] in Hp.
          rewrite (c07_tmpl_get c07_s_cf_role (C07_AStr [c07_s_mesh_topology]) gt Hgt) in Hp by (simpl; auto).
          lia. }
      assert (Hh : c07_has (d ++ [c07_topology_var gt]) (cv_name v) = true).
      { unfold c07_has. apply existsb_exists. exists v. split; [exact Hin|lia]. }
      rewrite Hh. destruct (cv_name v =? c07_s_grid_topology) eqn:E2; [lia|reflexivity]. }
  rewrite Hc1, Hc2. cbn [andb].
  (* the three lookups *)
  assert (Hl1 : c07_rename_lookup conn_ren c07_s_fnc = c07_s_fnc).
  { unfold conn_ren. replace c07_conn_names with (c07_s_fnc :: tl c07_conn_names) by reflexivity.
    cbn [flat_map].
    rewrite (c07_tmpl_get c07_s_fnc (C07_AStr [c07_s_fnc]) gt Hgt) by (simpl; auto 10).
    unfold c07_rename_lookup. cbn [app find snd fst]. rewrite Z.eqb_refl. reflexivity. }
  assert (Hl2 : c07_rename_lookup coord_ren c07_s_node_lon = c07_s_node_lon).
  { unfold coord_ren, c07_rename_lookup. cbn [app find snd fst]. rewrite Z.eqb_refl. reflexivity. }
  assert (Hl3 : c07_rename_lookup coord_ren c07_s_node_lat = c07_s_node_lat).
  { unfold coord_ren, c07_rename_lookup. cbn [app find snd fst].
    replace (c07_s_node_lat =? c07_s_node_lon) with false by reflexivity. rewrite Z.eqb_refl. reflexivity. }
  rewrite Hl1, Hl2, Hl3.
  rewrite !c07_find_app, Ff, Flon, Flat.
  unfold c07_float_data. rewrite Dlon, Dlat.
  destruct via_file.
  - rewrite (c07_standardize_file vf t Df Fillf Startf). reflexivity.
  - rewrite (c07_standardize_direct vf t Df Fillf Startf). reflexivity.
Qed.

Example c07_ugrid_roundtrip_nonvacuous :
  c07_read_ugrid true (uo_ds (c07_encode_ugrid c07_faithful c07_base_template c07_ex_small))
  = Some {| dc_fnc := [[0; 1; 2; 3]; [2; 3; 4; FILL]]; dc_lon := [0; 1; 2; 3; 4]; dc_lat := [5; 6; 7; 8; 9] |}.
Proof. vm_compute. reflexivity. Qed.

Theorem c07_ugrid_roundtrip_refuted :
  exists h ds, c07_ds_wfb ds = true /\
    c07_read_ugrid false (uo_ds (c07_encode_ugrid c07_before_fixes
                                   (c07_template_after c07_before_fixes c07_base_template h) ds)) = None.
Proof.
  exists [c07_ex_step c07_ex_ugrid c07_ex_edges], c07_ex_small. split; vm_compute; reflexivity.
Qed.

(* ------------------------------------------------------------------------------------- *)
(* Exodus: the encoder as it is                                                            *)

Lemma c07_find_first_none c r : ~ In c r -> c07_find_first c r = None.
Proof.
  induction r as [|x r IH]; simpl; [reflexivity|]. intros H.
  destruct (x =? c) eqn:E; [exfalso; apply H; left; lia|].
  rewrite IH; [reflexivity|]. intros Hin. apply H. right. exact Hin.
Qed.

Lemma c07_std_row_no_m1 r : std_row r -> ~ In (-1) r.
Proof.
  intros (c & n & -> & Hc) Hin. apply in_app_or in Hin. destruct Hin as [Hin|Hin].
  - rewrite Forall_forall in Hc. specialize (Hc _ Hin). lia.
  - apply repeat_spec in Hin. unfold FILL in Hin. lia.
Qed.

Lemma c07_repeat_snoc {A} (x : A) n : repeat x (S n) = repeat x n ++ [x].
Proof. induction n as [|n IH]; [reflexivity|]. simpl in *. rewrite <- IH. reflexivity. Qed.

Lemma c07_incr_last n c : c07_incr n (repeat 0%nat n ++ [c]) = repeat 0%nat n ++ [S c].
Proof. induction n as [|n IH]; simpl; [reflexivity|]. rewrite IH. reflexivity. Qed.

Lemma c07_counts_one_slot c n t : forall k,
  (forall r, In r t -> fst (c07_exo_classify c (S n) r) = n) ->
  fold_left (fun acc r => c07_incr (fst (c07_exo_classify c (S n) r)) acc) t (repeat 0%nat n ++ [k])
  = repeat 0%nat n ++ [(length t + k)%nat].
Proof.
  induction t as [|r t IH]; intros k H; simpl; [reflexivity|].
  rewrite (H r) by (left; reflexivity). rewrite c07_incr_last.
  rewrite IH by (intros r0 Hr0; apply H; right; exact Hr0). repeat f_equal. lia.
Qed.

Lemma c07_filter_nonzero_last n k :
  filter (fun m => negb (m =? 0)%nat) (repeat 0%nat n ++ [k]) = if (k =? 0)%nat then [] else [k].
Proof.
  induction n as [|n IH]; simpl; [destruct (k =? 0)%nat; reflexivity|exact IH].
Qed.

Lemma c07_sort_len_uniform m l : (forall r, In r l -> length r = m) -> c07_sort_len l = l.
Proof.
  induction l as [|x l IH]; intros H; simpl; [reflexivity|].
  rewrite IH by (intros r Hr; apply H; right; exact Hr). destruct l as [|y l]; simpl; [reflexivity|].
  rewrite (H x) by (left; reflexivity). rewrite (H y) by (right; left; reflexivity).
  rewrite Nat.leb_refl. reflexivity.
Qed.

Lemma c07_unshift_shift w r : length r = w -> ~ In (-1) r ->
  c07_exo_unshift w (map (Z.add 1) r) = r.
Proof.
  intros Hl Hn. unfold c07_exo_unshift. rewrite map_length, Hl, Nat.sub_diag. simpl. rewrite app_nil_r.
  rewrite map_map. rewrite <- (map_id r) at 2. apply map_ext_in. intros x Hx.
  destruct (1 + x - 1 =? -1) eqn:E.
  - exfalso. apply Hn. assert (x = -1) by lia. subst. exact Hx.
  - lia.
Qed.

(* The connectivity survives the round trip "by accident": the padding test compares with -1,
   no standard-form row contains -1, so the whole padded table is written as ONE block of
   n_max_face_nodes-gons (fill value + 1 in the padding cells) and read back unchanged, in the
   same face order.  Holds for every mix of face sizes, provided 2 <= n_max_face_nodes <= 8. *)
Theorem c07_exodus_faithful_roundtrip vr nmax t :
  vr_exo_fill vr = -1 -> std_table nmax t -> t <> [] -> c07_exo_elem_ok nmax = true ->
  exists b, c07_exo_connect vr nmax t = Some [b] /\ c07_read_exodus_conn vr [b] = t.
Proof.
  intros Hfill Hstd Hne Hok.
  unfold std_table in Hstd. rewrite Forall_forall in Hstd.
  assert (Hcl : forall r, In r t -> c07_exo_classify (-1) nmax r = ((nmax - 1)%nat, r)).
  { intros r Hr. unfold c07_exo_classify.
    rewrite c07_find_first_none by (apply c07_std_row_no_m1; apply Hstd; exact Hr). reflexivity. }
  destruct nmax as [|n]; [discriminate Hok|].
  unfold c07_exo_connect. rewrite Hfill.
  (* counts *)
  assert (Hcounts : c07_exo_counts (-1) (S n) t = repeat 0%nat n ++ [length t]).
  { unfold c07_exo_counts. rewrite c07_repeat_snoc.
    rewrite c07_counts_one_slot.
    - repeat f_equal. lia.
    - intros r Hr. rewrite (Hcl r Hr). simpl. lia. }
  rewrite Hcounts, c07_filter_nonzero_last.
  destruct t as [|r0 t']; [contradiction|].
  assert (Hmap : map (fun r => snd (c07_exo_classify (-1) (S n) r)) (r0 :: t') = r0 :: t').
  { rewrite <- (map_id (r0 :: t')) at 2. apply map_ext_in. intros r Hr. rewrite (Hcl r Hr). reflexivity. }
  rewrite Hmap.
  assert (Hlen : forall r, In r (r0 :: t') -> length r = S n) by (intros r Hr; apply Hstd; exact Hr).
  rewrite (c07_sort_len_uniform (S n)) by exact Hlen.
  cbn [length Nat.eqb]. cbn [c07_exo_blocks nth_error skipn].
  rewrite (Hlen r0) by (left; reflexivity). rewrite Hok. cbn [negb].
  change (S (length t')) with (length (r0 :: t')). rewrite firstn_all. rewrite Nat.eqb_refl.
  assert (Hu : forallb (fun r => (length r =? S n)%nat) (r0 :: t') = true).
  { apply forallb_forall. intros r Hr. rewrite (Hlen r Hr). apply Nat.eqb_refl. }
  rewrite Hu. cbn [andb negb].
  eexists. split; [reflexivity|].
  assert (Hback : map (c07_exo_unshift (S n)) (map (map (Z.add 1)) (r0 :: t')) = r0 :: t').
  { rewrite map_map. rewrite <- (map_id (r0 :: t')) at 2. apply map_ext_in. intros r Hr.
    apply c07_unshift_shift; [apply Hlen; exact Hr|apply c07_std_row_no_m1; apply Hstd; exact Hr]. }
  unfold c07_read_exodus_conn. cbn [map eb_width eb_connect fold_left last flat_map].
  rewrite Nat.max_0_l. destruct (vr_exo_read_all vr).
  - rewrite app_nil_r. exact Hback.
  - exact Hback.
Qed.

Example c07_exodus_faithful_roundtrip_nonvacuous :
  exists b, c07_exo_connect c07_before_fixes 4 [[0; 1; 2; 3]; [2; 3; 4; FILL]] = Some [b]
            /\ c07_read_exodus_conn c07_before_fixes [b] = [[0; 1; 2; 3]; [2; 3; 4; FILL]].
Proof. eexists. split; vm_compute; reflexivity. Qed.

(* ... and raises (KeyError in ELEMENT_TYPE_DICT) as soon as the table is wider than 8 columns,
   although every face is a triangle *)
Theorem c07_exodus_width_refuted :
  exists nmax t, std_tableb nmax t = true /\ t <> [] /\
    Forall (fun r => (3 <= length (corners r) <= 8)%nat) t /\
    c07_exo_connect c07_before_fixes nmax t = None.
Proof.
  exists 9%nat, [[0; 1; 2; FILL; FILL; FILL; FILL; FILL; FILL]].
  split; [vm_compute; reflexivity|]. split; [discriminate|].
  split; [repeat constructor|vm_compute; reflexivity].
Qed.

(* repairing only the padding test (== INT_FILL_VALUE) but keeping `start = num_faces`:
   with three block sizes the third block is cut at the wrong offset, a face is lost *)
Theorem c07_exodus_start_refuted :
  exists vr nmax t, vr_exo_fill vr = FILL /\ vr_exo_accumulate vr = false /\ vr_exo_read_all vr = true /\
    std_tableb nmax t = true /\
    exists bs, c07_exo_connect vr nmax t = Some bs /\
      ~ Permutation (map corners (c07_read_exodus_conn vr bs)) (map corners t).
Proof.
  exists {| vr_copy_template := true; vr_exo_fill := FILL; vr_exo_accumulate := false;
            vr_exo_deg2rad := true; vr_exo_read_all := true; vr_strip_helpers := true;
            vr_scrip_pad := true |}, 5%nat,
         [[0; 1; 2; FILL; FILL]; [2; 3; 4; 5; 6]; [2; 1; 7; FILL; FILL]; [1; 0; 8; 9; FILL]].
  repeat split; try reflexivity.
  eexists. split; [vm_compute; reflexivity|].
  intros H. apply Permutation_sym in H.
  apply (Permutation_in [2; 3; 4; 5; 6]) in H; [|vm_compute; auto].
  vm_compute in H. repeat (destruct H as [H|H]; [discriminate H|]). exact H.
Qed.

(* ------------------------------------------------------------------------------------- *)
(* SCRIP                                                                                   *)

Definition c07_lebP (p q : Z * Z) : Prop := is_true (C07PairOrder.leb p q).

Lemma c07_leb_trans : Transitive c07_lebP.
Proof. intros [a b] [c d] [e f]; unfold c07_lebP, is_true, C07PairOrder.leb; simpl. lia. Qed.

Lemma c07_pair_eqb_eq p q : pair_eqb p q = true <-> p = q.
Proof.
  destruct p as [a b], q as [c d]; unfold pair_eqb; simpl.
  rewrite andb_true_iff, !Z.eqb_eq. split; [intros [-> ->]; auto|intros [= -> ->]; auto].
Qed.

Lemma c07_dedup_In x l : In x (c07_dedup l) <-> In x l.
Proof.
  induction l as [|a l IH]; [simpl; tauto|].
  destruct l as [|b l].
  - simpl. tauto.
  - change (c07_dedup (a :: b :: l)) with (if pair_eqb a b then c07_dedup (b :: l) else a :: c07_dedup (b :: l)).
    destruct (pair_eqb a b) eqn:E.
    + apply c07_pair_eqb_eq in E. subst b. rewrite IH. simpl. tauto.
    + simpl In at 1. rewrite IH. simpl. tauto.
Qed.

Lemma c07_unique_In x l : In x (c07_unique l) <-> In x l.
Proof.
  unfold c07_unique. rewrite c07_dedup_In. split; intro H.
  - eapply Permutation_in; [apply Permutation_sym, C07PairSort.Permuted_sort|exact H].
  - eapply Permutation_in; [apply C07PairSort.Permuted_sort|exact H].
Qed.

Lemma c07_index_of_spec x u : In x u ->
  (c07_index_of x u < length u)%nat /\ nth (c07_index_of x u) u (0, 0) = x.
Proof.
  induction u as [|y u IH]; intros H; [destruct H|].
  simpl. destruct (pair_eqb x y) eqn:E.
  - apply c07_pair_eqb_eq in E. subst. split; [lia|reflexivity].
  - destruct H as [->|H]; [rewrite (proj2 (c07_pair_eqb_eq x x) eq_refl) in E; discriminate|].
    destruct (IH H). split; [lia|assumption].
Qed.

Lemma c07_chunk_flat_map {A} (g : A -> list Z) m (t : list A) :
  Forall (fun r => length (g r) = m) t -> c07_chunk m (length t) (flat_map g t) = map g t.
Proof.
  induction 1 as [|r t Hr _ IH]; simpl; [reflexivity|].
  rewrite firstn_app, skipn_app.
  replace (m - length (g r))%nat with 0%nat by lia.
  rewrite firstn_O, app_nil_r, skipn_O.
  rewrite (firstn_all2 (g r)) by lia. rewrite (skipn_all2 (g r)) by lia. simpl. f_equal. exact IH.
Qed.

Lemma c07_all_some_map {A B} (f : A -> option B) (g : A -> B) l :
  (forall x, In x l -> f x = Some (g x)) -> c07_all_some (map f l) = Some (map g l).
Proof.
  induction l as [|x l IH]; intros H; simpl; [reflexivity|].
  rewrite (H x) by (left; reflexivity). rewrite IH by (intros y Hy; apply H; right; exact Hy). reflexivity.
Qed.

Lemma c07_nth_pair {A B} (u : list (A * B)) k a b :
  (nth k (map fst u) a, nth k (map snd u) b) = nth k u (a, b).
Proof.
  revert k. induction u as [|[x y] u IH]; intros [|k]; simpl; auto.
Qed.

Lemma c07_first_fill_nonneg r : Forall (fun x => 0 <= x) r -> first_fill r = length r.
Proof.
  induction 1 as [|x r Hx _ IH]; simpl; [reflexivity|].
  unfold is_fill, FILL. destruct (x =? -9223372036854775808) eqn:E; [lia|]. f_equal. exact IH.
Qed.

Lemma c07_corners_nonneg r : Forall (fun x => 0 <= x) r -> corners r = r.
Proof. intros H. unfold corners. rewrite c07_first_fill_nonneg by exact H. apply firstn_all. Qed.

(* the corner table written by the encoder for a table without padding *)
Definition c07_scrip_corners (lon lat : list Z) (t : table) : list (list (Z * Z)) :=
  map (map (fun i => (nth (Z.to_nat i) lon 0, nth (Z.to_nat i) lat 0))) t.

(* grids whose faces all have the same number of corners (no padding): same faces, same face
   order, same corner order, same corner positions *)
Theorem c07_scrip_roundtrip m t lon lat :
  Forall (fun r => length r = m /\ Forall (fun i => 0 <= i < Z.of_nat (length lon)) r) t ->
  exists c d, c07_encode_scrip false t lon lat = Some c /\ c07_read_scrip false true c = Some d /\
    c07_positions (dc_lon d) (dc_lat d) (dc_fnc d) = c07_positions lon lat t /\
    length (dc_fnc d) = length t.
Proof.
  intros Ht. rewrite Forall_forall in Ht.
  exists (c07_scrip_corners lon lat t).
  assert (Henc : c07_encode_scrip false t lon lat = Some (c07_scrip_corners lon lat t)).
  { unfold c07_encode_scrip, c07_scrip_corners. apply c07_all_some_map. intros r Hr.
    apply c07_all_some_map. intros i Hi. destruct (Ht r Hr) as [_ Hri].
    rewrite Forall_forall in Hri. specialize (Hri i Hi).
    unfold c07_take. replace ((0 <=? i) && (i <? Z.of_nat (length lon))) with true by lia. reflexivity. }
  unfold c07_read_scrip. eexists. split; [exact Henc|]. split; [reflexivity|].
  cbn [dc_fnc dc_lon dc_lat].
  set (C := c07_scrip_corners lon lat t).
  set (u := c07_unique (concat C)).
  assert (Hm : match C with r :: _ => length r | [] => 0%nat end = match t with r :: _ => length r | [] => 0%nat end).
  { unfold C, c07_scrip_corners. destruct t; simpl; [reflexivity|]. apply map_length. }
  assert (HlenC : length C = length t) by (unfold C, c07_scrip_corners; apply map_length).
  (* the inverse indices, reshaped, are the per-face index rows *)
  assert (Hchunk : c07_chunk m (length C) (map (fun p => Z.of_nat (c07_index_of p u)) (concat C))
                   = map (map (fun p => Z.of_nat (c07_index_of p u))) C).
  { rewrite concat_map. rewrite <- flat_map_concat_map.
    apply c07_chunk_flat_map. apply Forall_forall. intros r Hr. rewrite map_length.
    unfold C, c07_scrip_corners in Hr. apply in_map_iff in Hr. destruct Hr as (r' & <- & Hr').
    rewrite map_length. apply (Ht r' Hr'). }
  assert (Hm' : match C with r :: _ => length r | [] => 0%nat end = m \/ C = []).
  { destruct t as [|r0 t'] eqn:Et; [right; reflexivity|left]. rewrite Hm. apply (Ht r0). left. reflexivity. }
  assert (Hdec : map (map (fun x => if x =? -1 then FILL else x))
                     (c07_chunk (match C with r :: _ => length r | [] => 0%nat end) (length C)
                        (map (fun p => Z.of_nat (c07_index_of p u)) (concat C)))
                 = map (map (fun p => Z.of_nat (c07_index_of p u))) C).
  { destruct Hm' as [Hm'|Hm'].
    - rewrite Hm', Hchunk. rewrite map_map. apply map_ext. intros r. rewrite map_map. apply map_ext.
      intros p. destruct (Z.of_nat (c07_index_of p u) =? -1) eqn:E; [lia|reflexivity].
    - rewrite Hm'. reflexivity. }
  rewrite Hdec. split; [|rewrite map_length; exact HlenC].
  (* positions *)
  unfold c07_positions. rewrite map_map. unfold C at 1, c07_scrip_corners. rewrite map_map.
  apply map_ext_in. intros r Hr. destruct (Ht r Hr) as [_ Hri].
  assert (Hnn : Forall (fun x => 0 <= x) r) by (eapply Forall_impl; [|exact Hri]; simpl; intros; lia).
  rewrite (c07_corners_nonneg r Hnn).
  rewrite c07_corners_nonneg by (rewrite map_map; apply Forall_forall; intros x Hx;
                                 apply in_map_iff in Hx; destruct Hx as (y & <- & _); lia).
  rewrite !map_map. apply map_ext_in. intros i Hi. rewrite Nat2Z.id.
  rewrite c07_nth_pair.
  apply c07_index_of_spec. unfold u. apply c07_unique_In.
  apply in_concat. eexists. split.
  - unfold C, c07_scrip_corners. apply in_map. exact Hr.
  - apply in_map_iff. exists i. split; [reflexivity|exact Hi].
Qed.

Example c07_scrip_roundtrip_nonvacuous :
  exists c d, c07_encode_scrip false [[0; 1; 2]; [2; 1; 3]] [10; 30; 20; 40] [7; 5; 6; 5] = Some c
    /\ c07_read_scrip false true c = Some d
    /\ c07_positions (dc_lon d) (dc_lat d) (dc_fnc d) = [[(10, 7); (30, 5); (20, 6)]; [(20, 6); (30, 5); (40, 5)]].
Proof. do 2 eexists. repeat split; vm_compute; reflexivity. Qed.

(* a padded row makes the encoder index with the fill value: IndexError *)
Theorem c07_scrip_mixed_refuted :
  exists t lon lat, std_tableb 4 t = true /\ c07_encode_scrip false t lon lat = None.
Proof.
  exists [[0; 1; 2; 3]; [2; 3; 4; FILL]], [0; 1; 2; 3; 4], [5; 6; 7; 8; 9]. split; vm_compute; reflexivity.
Qed.

(* ---- the history statements in the form Props/ quotes them ---- *)
Lemma c07_template_invariant vr h : c07_tmpl_ok (c07_template_after vr c07_base_template h).
Proof. apply c07_template_after_ok. exact c07_base_ok. Qed.

Lemma c07_template_accumulates vr h kv : vr_copy_template vr = false ->
  (In kv (c07_template_after vr c07_base_template h) <->
   In kv c07_base_template \/ exists sp, In sp h /\ c07_step_adds sp kv).
Proof. intros Hc. apply (c07_template_after_entries vr h Hc). exact c07_base_ok. Qed.

Lemma c07_template_copied vr h tmpl : vr_copy_template vr = true -> c07_template_after vr tmpl h = tmpl.
Proof. intros Hc. apply c07_template_copy. exact Hc. Qed.

(* ------------------------------------------------------------------------------------- *)
(* the code as it is, stated on the executable c07_run the harness runs: after ANY history of
   encode calls (any formats, any datasets), a UGRID encode of a well-formed dataset is
   self-consistent and decodes — directly, and through a file when it can be written — to the
   grid's own arrays                                                                        *)

Lemma c07_run_app vr h1 : forall tmpl h2,
  c07_run vr tmpl (h1 ++ h2) =
  (fst (c07_run vr (fst (c07_run vr tmpl h1)) h2),
   snd (c07_run vr tmpl h1) ++ snd (c07_run vr (fst (c07_run vr tmpl h1)) h2)).
Proof.
  induction h1 as [|sp h1 IH]; intros tmpl h2; simpl.
  - destruct (c07_run vr tmpl h2); reflexivity.
  - destruct (c07_one vr tmpl sp) as [t1 r] eqn:E1. rewrite IH.
    destruct (c07_run vr t1 h1) as [t2 rs] eqn:E2. simpl.
    destruct (c07_run vr t2 h2) as [t3 rs'] eqn:E3. reflexivity.
Qed.

Theorem c07_run_ugrid_faithful h sp :
  c07_dispatch (sp_encode_as sp) (sp_format sp) = Some C07_UGRID -> c07_ds_wfb (sp_ds sp) = true ->
  exists r t lon lat,
    snd (c07_run c07_faithful c07_base_template (h ++ [sp]))
      = snd (c07_run c07_faithful c07_base_template h) ++ [r] /\
    rs_closed r = true /\
    c07_fnc_table (sp_ds sp) = Some t /\ c07_lonlat (sp_ds sp) = Some (lon, lat) /\
    rs_direct r = Some {| dc_fnc := t; dc_lon := lon; dc_lat := lat |} /\
    (rs_writable r = true -> rs_file r = Some {| dc_fnc := t; dc_lon := lon; dc_lat := lat |}) /\
    rs_writable r = c07_writable (c07_ds1 (c07_ds0 c07_faithful (sp_ds sp))).
Proof.
  intros Hd Hwf. rewrite c07_run_app.
  change (fst (c07_run c07_faithful c07_base_template h)) with (c07_template_after c07_faithful c07_base_template h).
  set (tmpl := c07_template_after c07_faithful c07_base_template h).
  assert (Hok : c07_tmpl_ok tmpl) by apply c07_template_invariant.
  assert (Hcl : c07_closed (uo_ds (c07_encode_ugrid c07_faithful tmpl (sp_ds sp))) = true)
    by (apply c07_ugrid_closed_repaired; [reflexivity|exact Hwf]).
  destruct (c07_ugrid_roundtrip c07_faithful tmpl (sp_ds sp) false Hok Hwf Hcl) as (t & lon & lat & Ht & Hl & Hr1).
  destruct (c07_ugrid_roundtrip c07_faithful tmpl (sp_ds sp) true Hok Hwf Hcl) as (t' & lon' & lat' & Ht' & Hl' & Hr2).
  rewrite Ht in Ht'. rewrite Hl in Hl'. inversion Ht'; inversion Hl'; subst t' lon' lat'.
  cbn [c07_run snd]. unfold c07_one. rewrite Hd.
  eexists. exists t, lon, lat. cbn [snd].
  split; [reflexivity|]. cbn [rs_closed rs_direct rs_file rs_writable].
  split; [exact Hcl|]. split; [exact Ht|]. split; [exact Hl|]. split; [exact Hr1|].
  split; [intros Hw; rewrite Hw; exact Hr2|].
  apply c07_ugrid_writable. exact Hok.
Qed.

Example c07_run_ugrid_faithful_nonvacuous :
  c07_dispatch false c07_ex_ugrid = Some C07_UGRID /\ c07_ds_wfb c07_ex_small = true.
Proof. repeat split; vm_compute; reflexivity. Qed.


(* ------------------------------------------------------------------------------------- *)
(* the proposed repair of the unstorable attributes                                       *)

Definition c07_is_helper (var key : Z) : bool :=
  match find (fun p => fst p =? var) c07_helper_attrs with
  | Some p => c07_mem key (snd p)
  | None => false
  end.

(* if the only unstorable attributes are the helper objects, the stripped dataset is storable *)
Lemma c07_strip_writable ds :
  (forall v kv, In v ds -> In kv (cv_attrs v) -> c07_netcdf_ok (snd kv) = false ->
                c07_is_helper (cv_name v) (fst kv) = true) ->
  c07_writable (map c07_strip_var ds) = true.
Proof.
  intros H. unfold c07_writable. apply forallb_forall. intros v' Hv'.
  apply in_map_iff in Hv'. destruct Hv' as (v & <- & Hv). apply forallb_forall. intros kv Hkv.
  destruct (c07_netcdf_ok (snd kv)) eqn:E; [reflexivity|exfalso].
  unfold c07_strip_var in Hkv. unfold c07_is_helper in H.
  destruct (find (fun p => fst p =? cv_name v) c07_helper_attrs) as [p|] eqn:Ef.
  - cbn [cv_attrs] in Hkv. apply filter_In in Hkv. destruct Hkv as [Hin Hneg].
    specialize (H v kv Hv Hin E). rewrite Ef in H. rewrite H in Hneg. discriminate.
  - specialize (H v kv Hv Hkv E). rewrite Ef in H. discriminate.
Qed.

Theorem c07_ugrid_writable_stripped vr tmpl ds :
  vr_strip_helpers vr = true -> c07_tmpl_ok tmpl ->
  (forall v kv, In v ds -> In kv (cv_attrs v) -> c07_netcdf_ok (snd kv) = false ->
                c07_is_helper (cv_name v) (fst kv) = true) ->
  c07_writable (uo_ds (c07_encode_ugrid vr tmpl ds)) = true.
Proof.
  intros Hs Hok H. rewrite (c07_ugrid_writable vr tmpl ds Hok). unfold c07_ds0. rewrite Hs.
  rewrite c07_ds1_strip.
  apply c07_strip_writable. intros v kv Hv. apply H. apply c07_ds1_in in Hv. apply Hv.
Qed.

Example c07_ugrid_writable_stripped_nonvacuous :
  c07_writable (uo_ds (c07_encode_ugrid c07_repaired c07_base_template c07_ex_edges)) = true
  /\ c07_writable (uo_ds (c07_encode_ugrid c07_faithful c07_base_template c07_ex_edges)) = true
  /\ c07_writable (uo_ds (c07_encode_ugrid c07_before_fixes c07_base_template c07_ex_edges)) = false.
Proof. repeat split; vm_compute; reflexivity. Qed.

(* ------------------------------------------------------------------------------------- *)
(* a Cartesian-only grid (node_x/y/z, node_lon never materialised): the topology names
   node_lon / node_lat although the dataset has neither, and the reader fails               *)

Definition c07_ex_cartesian : c07_ds :=
  [ {| cv_name := c07_s_node_x; cv_dims := [c07_s_n_node]; cv_attrs := []; cv_data := C07_DFloat [0; 1; 2; 3; 4] |};
    {| cv_name := c07_s_node_y; cv_dims := [c07_s_n_node]; cv_attrs := []; cv_data := C07_DFloat [5; 6; 7; 8; 9] |};
    {| cv_name := c07_s_node_z; cv_dims := [c07_s_n_node]; cv_attrs := []; cv_data := C07_DFloat [9; 8; 7; 6; 5] |};
    {| cv_name := c07_s_fnc; cv_dims := [c07_s_n_face; c07_s_n_max_face_nodes]; cv_attrs := c07_ex_fnc_attrs;
       cv_data := C07_DInt [[0; 1; 2; 3]; [2; 3; 4; FILL]] |} ].

Theorem c07_ugrid_cartesian_only_refuted :
  exists ds, c07_has ds c07_s_node_x = true /\ c07_has ds c07_s_node_lon = false /\
    c07_closed (uo_ds (c07_encode_ugrid c07_faithful c07_base_template ds)) = false /\
    c07_read_ugrid false (uo_ds (c07_encode_ugrid c07_faithful c07_base_template ds)) = None /\
    (exists o, c07_encode_exodus c07_faithful ds = Some o).
Proof.
  exists c07_ex_cartesian. repeat split; try (vm_compute; reflexivity).
  eexists. vm_compute. reflexivity.
Qed.

(* the code as it is strips the helpers: writable whenever they are the only unstorable attributes *)
Corollary c07_ugrid_writable_faithful tmpl ds :
  c07_tmpl_ok tmpl ->
  (forall v kv, In v ds -> In kv (cv_attrs v) -> c07_netcdf_ok (snd kv) = false ->
                c07_is_helper (cv_name v) (fst kv) = true) ->
  c07_writable (uo_ds (c07_encode_ugrid c07_faithful tmpl ds)) = true.
Proof. apply c07_ugrid_writable_stripped. reflexivity. Qed.

(* ------------------------------------------------------------------------------------- *)
(* node indices not referenced by any face (orphan node 0, orphan nodes in the middle / at the
   end): c07_ugrid_roundtrip carries no hypothesis about which indices are in use — the declared
   start_index 0 is applied, never the smallest index in use.  Concrete instance, both routes: *)

Definition c07_ex_orphan : c07_ds :=
  [ {| cv_name := c07_s_node_lon; cv_dims := [c07_s_n_node]; cv_attrs := []; cv_data := C07_DFloat [0; 1; 2; 3; 4; 5; 6; 7] |};
    {| cv_name := c07_s_node_lat; cv_dims := [c07_s_n_node]; cv_attrs := []; cv_data := C07_DFloat [8; 9; 10; 11; 12; 13; 14; 15] |};
    {| cv_name := c07_s_fnc; cv_dims := [c07_s_n_face; c07_s_n_max_face_nodes]; cv_attrs := c07_ex_fnc_attrs;
       cv_data := C07_DInt [[1; 2; 3; 4]; [3; 4; 6; FILL]] |} ].      (* nodes 0, 5 and 7 are unused *)

Example c07_ugrid_roundtrip_orphan_nodes :
  c07_ds_wfb c07_ex_orphan = true /\
  c07_read_ugrid false (uo_ds (c07_encode_ugrid c07_faithful c07_base_template c07_ex_orphan))
  = Some {| dc_fnc := [[1; 2; 3; 4]; [3; 4; 6; FILL]]; dc_lon := [0; 1; 2; 3; 4; 5; 6; 7];
            dc_lat := [8; 9; 10; 11; 12; 13; 14; 15] |} /\
  c07_read_ugrid true (uo_ds (c07_encode_ugrid c07_faithful c07_base_template c07_ex_orphan))
  = Some {| dc_fnc := [[1; 2; 3; 4]; [3; 4; 6; FILL]]; dc_lon := [0; 1; 2; 3; 4; 5; 6; 7];
            dc_lat := [8; 9; 10; 11; 12; 13; 14; 15] |}.
Proof. repeat split; vm_compute; reflexivity. Qed.

(* were a declared start_index of 0 treated as absent (index base inferred from the smallest index
   in use), the same grid would come back renumbered: the model's reader keeps the two cases apart *)
Example c07_standardize_inferred_base_differs :
  c07_standardize {| cv_name := c07_s_fnc; cv_dims := []; cv_attrs := [(c07_s_fillvalue, C07_ANum FILL)];
                     cv_data := C07_DInt [[1; 2; 3; 4]; [3; 4; 6; FILL]] |}
  = Some [[0; 1; 2; 3]; [2; 3; 5; FILL]].
Proof. vm_compute. reflexivity. Qed.

(* ------------------------------------------------------------------------------------- *)
(* global attributes of the grid's dataset (the UGRID exporter works on a deep copy, so they reach
   the export): the harness hands them to the model as the attributes of one more, data-less entry
   named "@global"; c07_ugrid_writable covers it like any variable — an unstorable global
   attribute (e.g. a None-valued source_grid_spec) makes the export unwritable, storable ones do not *)

Definition c07_ex_global (a : c07_aval) : c07_var :=
  {| cv_name := c07_code "@global"%string; cv_dims := [];
     cv_attrs := [(c07_code "title"%string, C07_AStr [c07_code "t"%string]); (c07_code "source_grid_spec"%string, a)];
     cv_data := C07_DNone |}.

Example c07_ugrid_writable_global_attrs :
  c07_ds_wfb (c07_ex_small ++ [c07_ex_global C07_AObj]) = true /\
  c07_writable (uo_ds (c07_encode_ugrid c07_faithful c07_base_template (c07_ex_small ++ [c07_ex_global C07_AObj]))) = false /\
  c07_writable (uo_ds (c07_encode_ugrid c07_faithful c07_base_template
                         (c07_ex_small ++ [c07_ex_global (C07_AStr [c07_code "UGRID"%string])]))) = true /\
  c07_closed (uo_ds (c07_encode_ugrid c07_faithful c07_base_template (c07_ex_small ++ [c07_ex_global C07_AObj]))) = true.
Proof. repeat split; vm_compute; reflexivity. Qed.
