(* Proofs about Model/C14.v: exact sign-test geometry of great-circle arcs.
   Vectors are integer direction vectors (homogeneous rational points).  All statements are for
   every input (no size bound); algebra by ring/nia, no axioms. *)
From Coq Require Import ZArith Lia ZifyBool List Bool Nsatz.
From Verif Require Import Base C14_consts C14.
Local Open Scope Z_scope.

(* ------------------------------------------------------------------------------------------ *)
(* tactics                                                                                      *)

Ltac c14_destruct_vecs :=
  repeat match goal with
         | v : c14_vec |- _ => let x := fresh v "x" in let y := fresh v "y" in let z := fresh v "z" in
                                destruct v as [[x y] z]
         end.

Ltac c14_unf :=
  unfold c14_apex, c14_triple, c14_nsq, c14_dot, c14_cross, c14_neg, c14_scale, c14_add, c14_zrot,
         c14_x, c14_y, c14_z in *; cbn [fst snd] in *.

Lemma c14_vec_eq_tac (u v : c14_vec) :
  c14_x u = c14_x v -> c14_y u = c14_y v -> c14_z u = c14_z v -> u = v.
Proof. destruct u as [[a b] c], v as [[d e] f]; unfold c14_x, c14_y, c14_z; simpl; congruence. Qed.

Ltac c14_ring := intros; c14_destruct_vecs; c14_unf;
  first [ ring | apply c14_vec_eq_tac; c14_unf; ring ].

(* ------------------------------------------------------------------------------------------ *)
(* vector identities                                                                            *)

Lemma c14_vec_eq (u v : c14_vec) :
  c14_x u = c14_x v -> c14_y u = c14_y v -> c14_z u = c14_z v -> u = v.
Proof. destruct u as [[a b] c], v as [[d e] f]; unfold c14_x, c14_y, c14_z; simpl; congruence. Qed.

Lemma c14_dot_comm u v : c14_dot u v = c14_dot v u.
Proof. c14_ring. Qed.

Lemma c14_cross_anti u v : c14_cross u v = c14_neg (c14_cross v u).
Proof. c14_ring. Qed.

Lemma c14_dot_neg_r u v : c14_dot u (c14_neg v) = - c14_dot u v.
Proof. c14_ring. Qed.

Lemma c14_dot_neg_l u v : c14_dot (c14_neg u) v = - c14_dot u v.
Proof. c14_ring. Qed.

Lemma c14_cross_neg_r u v : c14_cross u (c14_neg v) = c14_neg (c14_cross u v).
Proof. c14_ring. Qed.

Lemma c14_cross_neg_l u v : c14_cross (c14_neg u) v = c14_neg (c14_cross u v).
Proof. c14_ring. Qed.

Lemma c14_neg_neg u : c14_neg (c14_neg u) = u.
Proof. c14_ring. Qed.

Lemma c14_cross_orth_l u v : c14_dot u (c14_cross u v) = 0.
Proof. c14_ring. Qed.

Lemma c14_cross_orth_r u v : c14_dot v (c14_cross u v) = 0.
Proof. c14_ring. Qed.

Lemma c14_triple_swap a b p : c14_triple b a p = - c14_triple a b p.
Proof. c14_ring. Qed.

Lemma c14_nsq_nonneg v : 0 <= c14_nsq v.
Proof. c14_destruct_vecs; c14_unf; nia. Qed.

Lemma c14_is0_true v : c14_is0 v = true <-> v = (0, 0, 0).
Proof.
  destruct v as [[x y] z]; unfold c14_is0, c14_x, c14_y, c14_z; cbn [fst snd].
  split; [intros H | intros [= -> -> ->]; reflexivity].
  assert (x = 0 /\ y = 0 /\ z = 0) as (-> & -> & ->) by lia. reflexivity.
Qed.

Lemma c14_is0_false v : c14_is0 v = false <-> v <> (0, 0, 0).
Proof.
  rewrite <- c14_is0_true. destruct (c14_is0 v); split; congruence.
Qed.

Lemma c14_nsq_pos v : v <> (0, 0, 0) -> 0 < c14_nsq v.
Proof.
  destruct v as [[x y] z]; intros H; c14_unf.
  assert (x <> 0 \/ y <> 0 \/ z <> 0).
  { destruct (Z.eq_dec x 0), (Z.eq_dec y 0), (Z.eq_dec z 0); subst; try tauto; auto. }
  nia.
Qed.

Lemma c14_nsq_zero v : c14_nsq v = 0 -> v = (0, 0, 0).
Proof.
  intros H. destruct (c14_is0 v) eqn:E; [apply c14_is0_true; exact E|].
  apply c14_is0_false, c14_nsq_pos in E. lia.
Qed.

Lemma c14_is0_neg v : c14_is0 (c14_neg v) = c14_is0 v.
Proof. destruct v as [[x y] z]; unfold c14_is0; c14_unf; lia. Qed.

(* decomposition of q in the (dual) basis a, b, n = a x b *)
Lemma c14_decompose a b q :
  c14_scale (c14_nsq (c14_cross a b)) q =
  c14_add (c14_add (c14_scale (c14_dot (c14_cross q b) (c14_cross a b)) a)
                   (c14_scale (c14_dot (c14_cross a q) (c14_cross a b)) b))
          (c14_scale (c14_triple a b q) (c14_cross a b)).
Proof. c14_ring. Qed.

(* (n1 x n2) x p = n2 (n1.p) - n1 (n2.p) *)
Lemma c14_cross_cross_p n1 n2 p :
  c14_cross (c14_cross n1 n2) p =
  c14_add (c14_scale (c14_dot n1 p) n2) (c14_neg (c14_scale (c14_dot n2 p) n1)).
Proof. c14_ring. Qed.

(* |p|^2 q - (p.q) p = - p x (p x q) *)
Lemma c14_parallel_decomp p q :
  c14_add (c14_scale (c14_nsq p) q) (c14_neg (c14_scale (c14_dot p q) p)) =
  c14_neg (c14_cross p (c14_cross p q)).
Proof. c14_ring. Qed.

(* ------------------------------------------------------------------------------------------ *)
(* sign lemmas                                                                                  *)

Lemma c14_leb_scale k x : 0 < k -> (0 <=? k * x) = (0 <=? x).
Proof. intros. destruct (0 <=? x) eqn:E; nia. Qed.

Lemma c14_eqb_scale k x : 0 < k -> (k * x =? 0) = (x =? 0).
Proof. intros. destruct (x =? 0) eqn:E; nia. Qed.

(* ------------------------------------------------------------------------------------------ *)
(* on_arc: symmetry, scaling, rotation about the polar axis                                      *)

Lemma c14_on_arc_unfold a b p :
  c14_on_arc a b p =
  (c14_triple a b p =? 0) && (0 <=? c14_dot (c14_cross a p) (c14_cross a b))
                          && (0 <=? c14_dot (c14_cross p b) (c14_cross a b)).
Proof. reflexivity. Qed.

Lemma c14_on_arc_true a b p :
  c14_on_arc a b p = true <->
  c14_triple a b p = 0 /\ 0 <= c14_dot (c14_cross a p) (c14_cross a b)
                       /\ 0 <= c14_dot (c14_cross p b) (c14_cross a b).
Proof. rewrite c14_on_arc_unfold. lia. Qed.

Lemma c14_on_arc_swap a b p : c14_on_arc a b p = c14_on_arc b a p.
Proof.
  rewrite !c14_on_arc_unfold.
  assert (E1 : c14_triple b a p = - c14_triple a b p) by apply c14_triple_swap.
  assert (E2 : c14_dot (c14_cross b p) (c14_cross b a) = c14_dot (c14_cross p b) (c14_cross a b)) by c14_ring.
  assert (E3 : c14_dot (c14_cross p a) (c14_cross b a) = c14_dot (c14_cross a p) (c14_cross a b)) by c14_ring.
  rewrite E1, E2, E3. lia.
Qed.

Lemma c14_on_arc_scale k l m a b p : 0 < k -> 0 < l -> 0 < m ->
  c14_on_arc (c14_scale k a) (c14_scale l b) (c14_scale m p) = c14_on_arc a b p.
Proof.
  intros Hk Hl Hm. rewrite !c14_on_arc_unfold.
  assert (E1 : c14_triple (c14_scale k a) (c14_scale l b) (c14_scale m p) = (k * l * m) * c14_triple a b p) by c14_ring.
  assert (E2 : c14_dot (c14_cross (c14_scale k a) (c14_scale m p)) (c14_cross (c14_scale k a) (c14_scale l b))
               = (k * k * l * m) * c14_dot (c14_cross a p) (c14_cross a b)) by c14_ring.
  assert (E3 : c14_dot (c14_cross (c14_scale m p) (c14_scale l b)) (c14_cross (c14_scale k a) (c14_scale l b))
               = (k * l * l * m) * c14_dot (c14_cross p b) (c14_cross a b)) by c14_ring.
  rewrite E1, E2, E3.
  rewrite c14_eqb_scale, !c14_leb_scale by nia. reflexivity.
Qed.

Lemma c14_on_arc_scale_p m a b p : 0 < m -> c14_on_arc a b (c14_scale m p) = c14_on_arc a b p.
Proof.
  intros Hm. rewrite <- (c14_on_arc_scale 1 1 m a b p) by lia.
  f_equal; c14_ring.
Qed.

Section ZRot.
  Variables c s r : Z.
  Hypothesis Hr : 0 < r.
  Hypothesis Hcs : c * c + s * s = r * r.

  Lemma c14_zrot_cross u v :
    c14_cross (c14_zrot c s r u) (c14_zrot c s r v) = c14_scale r (c14_zrot c s r (c14_cross u v)).
  Proof.
    assert (HH : forall X, r * (r * X) = (c * c + s * s) * X) by (intro; rewrite Hcs; ring).
    c14_destruct_vecs; c14_unf. f_equal; [f_equal|]; try ring.
    rewrite HH. ring.
  Qed.

  Lemma c14_zrot_dot u v :
    c14_dot (c14_zrot c s r u) (c14_zrot c s r v) = (r * r) * c14_dot u v.
  Proof.
    c14_destruct_vecs; c14_unf.
    transitivity ((c * c + s * s) * (ux * vx + uy * vy) + (r * r) * (uz * vz)); [ring | rewrite Hcs; ring].
  Qed.

  Lemma c14_zrot_scale k u : c14_zrot c s r (c14_scale k u) = c14_scale k (c14_zrot c s r u).
  Proof. c14_ring. Qed.

  Lemma c14_dot_scale_l k u v : c14_dot (c14_scale k u) v = k * c14_dot u v.
  Proof. c14_ring. Qed.

  Lemma c14_dot_scale_r k u v : c14_dot u (c14_scale k v) = k * c14_dot u v.
  Proof. c14_ring. Qed.

  Lemma c14_zrot_triple a b p :
    c14_triple (c14_zrot c s r a) (c14_zrot c s r b) (c14_zrot c s r p) = (r * r * r) * c14_triple a b p.
  Proof.
    unfold c14_triple. rewrite c14_zrot_cross, c14_dot_scale_l, c14_zrot_dot. ring.
  Qed.

  Lemma c14_on_arc_zrot a b p :
    c14_on_arc (c14_zrot c s r a) (c14_zrot c s r b) (c14_zrot c s r p) = c14_on_arc a b p.
  Proof.
    rewrite !c14_on_arc_unfold.
    rewrite c14_zrot_triple, !c14_zrot_cross, !c14_dot_scale_l, !c14_dot_scale_r, !c14_zrot_dot.
    rewrite c14_eqb_scale by nia.
    rewrite !Z.mul_assoc, !c14_leb_scale by nia. reflexivity.
  Qed.

  Lemma c14_zrot_neg u : c14_zrot c s r (c14_neg u) = c14_neg (c14_zrot c s r u).
  Proof. c14_ring. Qed.

  Lemma c14_zrot_is0 u : c14_is0 (c14_zrot c s r u) = c14_is0 u.
  Proof.
    destruct (c14_is0 u) eqn:E.
    - apply c14_is0_true in E; subst. unfold c14_is0; c14_unf; lia.
    - apply c14_is0_false. apply c14_is0_false in E. intros H. apply E.
      apply c14_nsq_zero.
      assert (c14_nsq (c14_zrot c s r u) = (r * r) * c14_nsq u) by apply c14_zrot_dot.
      rewrite H in H0. change (c14_nsq (0,0,0)) with 0 in H0. nia.
  Qed.
End ZRot.

(* ------------------------------------------------------------------------------------------ *)
(* on_arc is the usual definition of the minor arc: the non-negative combinations of a and b     *)

Lemma c14_on_arc_cone_fwd a b p :
  c14_on_arc a b p = true ->
  exists al be, 0 <= al /\ 0 <= be /\
    c14_scale (c14_nsq (c14_cross a b)) p = c14_add (c14_scale al a) (c14_scale be b).
Proof.
  intros H. apply c14_on_arc_true in H. destruct H as (H0 & H1 & H2).
  exists (c14_dot (c14_cross p b) (c14_cross a b)), (c14_dot (c14_cross a p) (c14_cross a b)).
  split; [assumption|split; [assumption|]].
  rewrite c14_decompose, H0. c14_ring.
Qed.

Lemma c14_on_arc_cone_bwd a b p k al be :
  0 < k -> 0 <= al -> 0 <= be ->
  c14_scale k p = c14_add (c14_scale al a) (c14_scale be b) ->
  c14_on_arc a b p = true.
Proof.
  intros Hk Hal Hbe E.
  rewrite <- (c14_on_arc_scale_p k) by assumption. rewrite E.
  apply c14_on_arc_true.
  assert (E0 : c14_triple a b (c14_add (c14_scale al a) (c14_scale be b)) = 0) by c14_ring.
  assert (E1 : c14_dot (c14_cross a (c14_add (c14_scale al a) (c14_scale be b))) (c14_cross a b)
               = be * c14_nsq (c14_cross a b)) by c14_ring.
  assert (E2 : c14_dot (c14_cross (c14_add (c14_scale al a) (c14_scale be b)) b) (c14_cross a b)
               = al * c14_nsq (c14_cross a b)) by c14_ring.
  rewrite E0, E1, E2. pose proof (c14_nsq_nonneg (c14_cross a b)). nia.
Qed.

(* ------------------------------------------------------------------------------------------ *)
(* two points of one arc (0 < arc < 180) are never antipodal; common points of two arcs on
   different great circles are unique                                                           *)

Lemma c14_scale_zero k v : k <> 0 -> c14_scale k v = (0, 0, 0) -> v = (0, 0, 0).
Proof.
  destruct v as [[x y] z]; c14_unf; intros Hk [= H1 H2 H3].
  f_equal; [f_equal|]; nia.
Qed.

(* a point q on the arc whose two "between" quantities vanish is the zero vector *)
Lemma c14_on_arc_degenerate a b q :
  c14_cross a b <> (0, 0, 0) ->
  c14_triple a b q = 0 ->
  c14_dot (c14_cross a q) (c14_cross a b) = 0 ->
  c14_dot (c14_cross q b) (c14_cross a b) = 0 ->
  q = (0, 0, 0).
Proof.
  intros Hn H0 H1 H2.
  pose proof (c14_decompose a b q) as D. rewrite H0, H1, H2 in D.
  apply (c14_scale_zero (c14_nsq (c14_cross a b))).
  - pose proof (c14_nsq_pos _ Hn). lia.
  - rewrite D. c14_ring.
Qed.

Lemma c14_no_antipodal_pair a b p q k m :
  c14_cross a b <> (0, 0, 0) ->
  c14_on_arc a b p = true -> c14_on_arc a b q = true ->
  0 < k -> m <= 0 -> c14_scale k q = c14_scale m p ->
  q = (0, 0, 0).
Proof.
  intros Hn Hp Hq Hk Hm E.
  apply c14_on_arc_true in Hp. destruct Hp as (P0 & P1 & P2).
  apply c14_on_arc_true in Hq. destruct Hq as (Q0 & Q1 & Q2).
  apply (c14_on_arc_degenerate a b); auto.
  - assert (F : k * c14_dot (c14_cross a q) (c14_cross a b) = m * c14_dot (c14_cross a p) (c14_cross a b)).
    { transitivity (c14_dot (c14_cross a (c14_scale k q)) (c14_cross a b)); [c14_ring | rewrite E; c14_ring]. }
    nia.
  - assert (F : k * c14_dot (c14_cross q b) (c14_cross a b) = m * c14_dot (c14_cross p b) (c14_cross a b)).
    { transitivity (c14_dot (c14_cross (c14_scale k q) b) (c14_cross a b)); [c14_ring | rewrite E; c14_ring]. }
    nia.
Qed.

(* a point orthogonal to both normals is parallel to their cross product *)
Lemma c14_parallel_to_node n1 n2 p :
  c14_dot n1 p = 0 -> c14_dot n2 p = 0 -> c14_cross (c14_cross n1 n2) p = (0, 0, 0).
Proof. intros H1 H2. rewrite c14_cross_cross_p, H1, H2. c14_ring. Qed.

(* x x p = 0 gives |x|^2 p = (x.p) x *)
Lemma c14_parallel_scale x p :
  c14_cross x p = (0, 0, 0) -> c14_scale (c14_nsq x) p = c14_scale (c14_dot x p) x.
Proof.
  intros H. pose proof (c14_parallel_decomp x p) as D. rewrite H in D.
  assert (Z0 : c14_neg (c14_cross x (0, 0, 0)) = (0, 0, 0)) by c14_ring. rewrite Z0 in D.
  destruct x as [[x1 x2] x3], p as [[p1 p2] p3]. c14_unf.
  injection D as D1 D2 D3. f_equal; [f_equal|]; lia.
Qed.

Definition c14_same_dir (p q : c14_vec) : Prop := c14_cross p q = (0, 0, 0) /\ 0 < c14_dot p q.

Lemma c14_common_point_unique a b c d p q :
  c14_cross (c14_cross a b) (c14_cross c d) <> (0, 0, 0) ->
  p <> (0, 0, 0) -> q <> (0, 0, 0) ->
  c14_on_arc a b p = true -> c14_on_arc c d p = true ->
  c14_on_arc a b q = true -> c14_on_arc c d q = true ->
  c14_same_dir p q.
Proof.
  intros Hx Hp Hq Pab Pcd Qab Qcd.
  set (x := c14_cross (c14_cross a b) (c14_cross c d)) in *.
  assert (Hn1 : c14_cross a b <> (0, 0, 0)).
  { intros E. apply Hx. unfold x. rewrite E. c14_ring. }
  assert (Xp : c14_cross x p = (0, 0, 0)).
  { apply c14_parallel_to_node.
    - apply c14_on_arc_true in Pab. unfold c14_triple in Pab. tauto.
    - apply c14_on_arc_true in Pcd. unfold c14_triple in Pcd. tauto. }
  assert (Xq : c14_cross x q = (0, 0, 0)).
  { apply c14_parallel_to_node.
    - apply c14_on_arc_true in Qab. unfold c14_triple in Qab. tauto.
    - apply c14_on_arc_true in Qcd. unfold c14_triple in Qcd. tauto. }
  pose proof (c14_parallel_scale x p Xp) as Sp.
  pose proof (c14_parallel_scale x q Xq) as Sq.
  pose proof (c14_nsq_pos x Hx) as Nx.
  (* p x q = 0 *)
  assert (Cpq : c14_cross p q = (0, 0, 0)).
  { apply (c14_scale_zero (c14_nsq x * c14_nsq x)); [nia|].
    transitivity (c14_cross (c14_scale (c14_nsq x) p) (c14_scale (c14_nsq x) q)); [c14_ring|].
    rewrite Sp, Sq. c14_ring. }
  split; [exact Cpq|].
  pose proof (c14_parallel_scale p q Cpq) as Spq.
  pose proof (c14_nsq_pos p Hp) as Np.
  destruct (Z_lt_le_dec 0 (c14_dot p q)) as [|Hle]; [assumption|exfalso].
  apply Hq. eapply (c14_no_antipodal_pair a b p q); eauto.
Qed.

(* ------------------------------------------------------------------------------------------ *)
(* arc_cross: returned points lie on both arcs and on both great circles; at most one; symmetric *)

Lemma c14_arc_cross_sound a b c d y :
  In y (c14_arc_cross a b c d) ->
  c14_on_arc a b y = true /\ c14_on_arc c d y = true /\ y <> (0, 0, 0) /\
  c14_dot (c14_cross a b) y = 0 /\ c14_dot (c14_cross c d) y = 0.
Proof.
  unfold c14_arc_cross. set (x := c14_cross (c14_cross a b) (c14_cross c d)).
  destruct (c14_is0 x) eqn:E0; [intros []|].
  assert (Hx : x <> (0, 0, 0)) by (apply c14_is0_false; exact E0).
  assert (Hnx : c14_neg x <> (0, 0, 0)) by (apply c14_is0_false; rewrite c14_is0_neg; exact E0).
  intros H. apply in_app_or in H.
  destruct H as [H|H].
  - destruct (c14_on_arc a b x && c14_on_arc c d x) eqn:E; [|destruct H].
    destruct H as [<-|[]]. apply andb_true_iff in E. destruct E as [E1 E2].
    repeat split; auto; unfold x; c14_ring.
  - destruct (c14_on_arc a b (c14_neg x) && c14_on_arc c d (c14_neg x)) eqn:E; [|destruct H].
    destruct H as [<-|[]]. apply andb_true_iff in E. destruct E as [E1 E2].
    repeat split; auto; unfold x; c14_ring.
Qed.

Lemma c14_not_both_nodes a b c d :
  let x := c14_cross (c14_cross a b) (c14_cross c d) in
  x <> (0, 0, 0) ->
  c14_on_arc a b x && c14_on_arc c d x = true ->
  c14_on_arc a b (c14_neg x) && c14_on_arc c d (c14_neg x) = true -> False.
Proof.
  intros x Hx E1 E2. apply andb_true_iff in E1, E2. destruct E1 as [A1 A2], E2 as [B1 B2].
  assert (Hnx : c14_neg x <> (0, 0, 0)) by (apply c14_is0_false; rewrite c14_is0_neg; apply c14_is0_false; exact Hx).
  destruct (c14_common_point_unique a b c d x (c14_neg x) Hx Hx Hnx A1 A2 B1 B2) as [_ Hd].
  rewrite c14_dot_neg_r in Hd. pose proof (c14_nsq_nonneg x). unfold c14_nsq in *. lia.
Qed.

Lemma c14_arc_cross_at_most_one a b c d : (length (c14_arc_cross a b c d) <= 1)%nat.
Proof.
  unfold c14_arc_cross. set (x := c14_cross (c14_cross a b) (c14_cross c d)).
  destruct (c14_is0 x) eqn:E0; [simpl; lia|].
  assert (Hx : x <> (0, 0, 0)) by (apply c14_is0_false; exact E0).
  destruct (c14_on_arc a b x && c14_on_arc c d x) eqn:E1;
    destruct (c14_on_arc a b (c14_neg x) && c14_on_arc c d (c14_neg x)) eqn:E2; simpl; try lia.
  exfalso. exact (c14_not_both_nodes a b c d Hx E1 E2).
Qed.

Lemma c14_arc_cross_swap_arcs a b c d : c14_arc_cross a b c d = c14_arc_cross c d a b.
Proof.
  unfold c14_arc_cross.
  assert (Ex : c14_cross (c14_cross c d) (c14_cross a b) = c14_neg (c14_cross (c14_cross a b) (c14_cross c d)))
    by apply c14_cross_anti.
  rewrite Ex. set (x := c14_cross (c14_cross a b) (c14_cross c d)).
  rewrite c14_is0_neg, c14_neg_neg.
  destruct (c14_is0 x) eqn:E0; [reflexivity|].
  assert (Hx : x <> (0, 0, 0)) by (apply c14_is0_false; exact E0).
  rewrite (andb_comm (c14_on_arc c d (c14_neg x))), (andb_comm (c14_on_arc c d x)).
  destruct (c14_on_arc a b x && c14_on_arc c d x) eqn:E1;
    destruct (c14_on_arc a b (c14_neg x) && c14_on_arc c d (c14_neg x)) eqn:E2; try reflexivity.
  exfalso. exact (c14_not_both_nodes a b c d Hx E1 E2).
Qed.

Lemma c14_arc_cross_swap_endpoints a b c d : c14_arc_cross b a c d = c14_arc_cross a b c d.
Proof.
  unfold c14_arc_cross.
  assert (Ex : c14_cross (c14_cross b a) (c14_cross c d) = c14_neg (c14_cross (c14_cross a b) (c14_cross c d)))
    by c14_ring.
  rewrite Ex. set (x := c14_cross (c14_cross a b) (c14_cross c d)).
  rewrite c14_is0_neg, c14_neg_neg, !(c14_on_arc_swap b a).
  destruct (c14_is0 x) eqn:E0; [reflexivity|].
  assert (Hx : x <> (0, 0, 0)) by (apply c14_is0_false; exact E0).
  destruct (c14_on_arc a b x && c14_on_arc c d x) eqn:E1;
    destruct (c14_on_arc a b (c14_neg x) && c14_on_arc c d (c14_neg x)) eqn:E2; try reflexivity.
  exfalso. exact (c14_not_both_nodes a b c d Hx E1 E2).
Qed.

Lemma c14_arc_cross_swap_endpoints2 a b c d : c14_arc_cross a b d c = c14_arc_cross a b c d.
Proof.
  rewrite (c14_arc_cross_swap_arcs a b d c), c14_arc_cross_swap_endpoints.
  symmetry. apply c14_arc_cross_swap_arcs.
Qed.

(* completeness: every common point is reported (up to positive scaling) *)
Lemma c14_arc_cross_complete a b c d p :
  c14_cross (c14_cross a b) (c14_cross c d) <> (0, 0, 0) ->
  p <> (0, 0, 0) -> c14_on_arc a b p = true -> c14_on_arc c d p = true ->
  exists y, In y (c14_arc_cross a b c d) /\ c14_same_dir y p.
Proof.
  intros Hx Hp Pab Pcd.
  unfold c14_arc_cross. set (x := c14_cross (c14_cross a b) (c14_cross c d)) in *.
  assert (E0 : c14_is0 x = false) by (apply c14_is0_false; exact Hx). rewrite E0.
  assert (Xp : c14_cross x p = (0, 0, 0)).
  { apply c14_parallel_to_node.
    - apply c14_on_arc_true in Pab. unfold c14_triple in Pab. tauto.
    - apply c14_on_arc_true in Pcd. unfold c14_triple in Pcd. tauto. }
  pose proof (c14_parallel_scale x p Xp) as Sp.
  pose proof (c14_nsq_pos x Hx) as Nx.
  assert (Hd : c14_dot x p <> 0).
  { intros E. rewrite E in Sp. apply Hp. apply (c14_scale_zero (c14_nsq x)); [lia|].
    rewrite Sp. c14_ring. }
  destruct (Z_lt_le_dec 0 (c14_dot x p)) as [Hpos|Hneg].
  - exists x. split.
    + assert (A1 : c14_on_arc a b x = true).
      { rewrite <- (c14_on_arc_scale_p (c14_dot x p)), <- Sp, c14_on_arc_scale_p by lia. exact Pab. }
      assert (A2 : c14_on_arc c d x = true).
      { rewrite <- (c14_on_arc_scale_p (c14_dot x p)), <- Sp, c14_on_arc_scale_p by lia. exact Pcd. }
      rewrite A1, A2. simpl. left; reflexivity.
    + split; assumption.
  - exists (c14_neg x). split.
    + assert (Sn : c14_scale (c14_nsq x) p = c14_scale (- c14_dot x p) (c14_neg x)) by (rewrite Sp; c14_ring).
      assert (A1 : c14_on_arc a b (c14_neg x) = true).
      { rewrite <- (c14_on_arc_scale_p (- c14_dot x p)), <- Sn, c14_on_arc_scale_p by lia. exact Pab. }
      assert (A2 : c14_on_arc c d (c14_neg x) = true).
      { rewrite <- (c14_on_arc_scale_p (- c14_dot x p)), <- Sn, c14_on_arc_scale_p by lia. exact Pcd. }
      rewrite A1, A2. apply in_or_app. right. simpl. left; reflexivity.
    + split.
      * rewrite c14_cross_neg_l, Xp. reflexivity.
      * rewrite c14_dot_neg_l. lia.
Qed.

(* rotation about the polar axis commutes with arc_cross *)
Lemma c14_arc_cross_zrot cc s r a b c d :
  0 < r -> cc * cc + s * s = r * r ->
  c14_arc_cross (c14_zrot cc s r a) (c14_zrot cc s r b) (c14_zrot cc s r c) (c14_zrot cc s r d)
  = map (fun y => c14_scale (r * r * r) (c14_zrot cc s r y)) (c14_arc_cross a b c d).
Proof.
  intros Hr Hcs. unfold c14_arc_cross.
  set (Z := c14_zrot cc s r).
  assert (Ex : c14_cross (c14_cross (Z a) (Z b)) (c14_cross (Z c) (Z d))
               = c14_scale (r * r * r) (Z (c14_cross (c14_cross a b) (c14_cross c d)))).
  { unfold Z. rewrite !(c14_zrot_cross cc s r Hcs).
    transitivity (c14_scale (r * r) (c14_cross (c14_zrot cc s r (c14_cross a b)) (c14_zrot cc s r (c14_cross c d)))); [c14_ring|].
    rewrite (c14_zrot_cross cc s r Hcs). c14_ring. }
  rewrite Ex. set (x := c14_cross (c14_cross a b) (c14_cross c d)).
  assert (Hr3 : 0 < r * r * r) by nia.
  assert (I0 : c14_is0 (c14_scale (r * r * r) (Z x)) = c14_is0 x).
  { unfold Z. rewrite <- (c14_zrot_is0 cc s r Hr Hcs x).
    destruct (c14_is0 (c14_zrot cc s r x)) eqn:E.
    - apply c14_is0_true in E. rewrite E. unfold c14_is0; c14_unf; lia.
    - apply c14_is0_false. apply c14_is0_false in E. intros H. apply E.
      apply (c14_scale_zero (r * r * r)); [lia|exact H]. }
  rewrite I0. destruct (c14_is0 x); [reflexivity|].
  assert (N : c14_neg (c14_scale (r * r * r) (Z x)) = c14_scale (r * r * r) (Z (c14_neg x))).
  { unfold Z. rewrite c14_zrot_neg. c14_ring. }
  rewrite N.
  unfold Z. rewrite !c14_on_arc_scale_p by assumption.
  rewrite !(c14_on_arc_zrot cc s r Hr Hcs).
  destruct (c14_on_arc a b x && c14_on_arc c d x), (c14_on_arc a b (c14_neg x) && c14_on_arc c d (c14_neg x));
    reflexivity.
Qed.

(* ------------------------------------------------------------------------------------------ *)
(* the faithful model of point_within_gca (longitude-interval logic) against the specification   *)

(* planar core: for directions la, lb, lp in the plane with cross2 la lb <> 0, the sorted-longitude
   interval test of the undirected branch is the pair of sign tests *)
Lemma c14_lon_logic xa ya xb yb xp yp :
  let D := xa * yb - ya * xb in let s1 := xa * yp - ya * xp in let s2 := xp * yb - yp * xb in
  D <> 0 -> (xp <> 0 \/ yp <> 0) ->
  (let mn := if c14_lon_le (xa, ya) (xb, yb) then (xa, ya) else (xb, yb) in
   let mx := if c14_lon_le (xa, ya) (xb, yb) then (xb, yb) else (xa, ya) in
   if 0 <? c14_cross2 mn mx then c14_lon_between (xa, ya) (xp, yp) (xb, yb)
   else c14_lon_le mx (xp, yp) || c14_lon_le (xp, yp) mn)
  = (0 <=? s1 * D) && (0 <=? s2 * D).
Proof.
  intros D s1 s2 HD Hp.
  assert (Ix : xp * D = xa * s2 + xb * s1) by (unfold D, s1, s2; ring).
  assert (Iy : yp * D = ya * s2 + yb * s1) by (unfold D, s1, s2; ring).
  assert (Cab : xa * yb - ya * xb = D) by reflexivity.
  assert (Cba : xb * ya - yb * xa = - D) by (unfold D; ring).
  assert (Cap : xa * yp - ya * xp = s1) by reflexivity.
  assert (Cpa : xp * ya - yp * xa = - s1) by (unfold s1; ring).
  assert (Cpb : xp * yb - yp * xb = s2) by reflexivity.
  assert (Cbp : xb * yp - yb * xp = - s2) by (unfold s2; ring).
  clearbody D s1 s2.
  unfold c14_lon_between, c14_lon_le, c14_upper, c14_cross2; cbn [fst snd].
  destruct ((0 <? ya) || (ya =? 0) && (0 <? xa)) eqn:Ua;
  destruct ((0 <? yb) || (yb =? 0) && (0 <? xb)) eqn:Ub;
  destruct ((0 <? yp) || (yp =? 0) && (0 <? xp)) eqn:Up;
  rewrite ?Cab, ?Cba, ?Cap, ?Cpa, ?Cpb, ?Cbp;
  try (destruct (Z.leb_spec 0 D) as [HDp|HDn]);
  cbn [fst snd]; rewrite ?Ua, ?Ub, ?Up, ?Cab, ?Cba, ?Cap, ?Cpa, ?Cpb, ?Cbp.
  all: try (destruct (Z.ltb_spec 0 D)); try (destruct (Z.ltb_spec 0 (- D))); try lia.
  all: assert (Ha : (0 < ya \/ (ya = 0 /\ 0 < xa)) \/ (ya < 0 \/ (ya = 0 /\ xa <= 0))) by lia.
  all: assert (Hb : (0 < yb \/ (yb = 0 /\ 0 < xb)) \/ (yb < 0 \/ (yb = 0 /\ xb <= 0))) by lia.
  all: assert (Hpp : (0 < yp \/ (yp = 0 /\ 0 < xp)) \/ (yp < 0 \/ (yp = 0 /\ xp < 0))) by lia.
  all: destruct Ha as [[Ha|[Ha Ha']]|[Ha|[Ha Ha']]]; try (exfalso; lia);
       destruct Hb as [[Hb|[Hb Hb']]|[Hb|[Hb Hb']]]; try (exfalso; lia);
       destruct Hpp as [[Hpp|[Hpp Hpp']]|[Hpp|[Hpp Hpp']]]; try (exfalso; lia).
  all: clear Ua Ub Up Hp Cba Cpa Cbp; try clear HDp; try clear HDn; try clear H0.
  all: assert (S1 : s1 < 0 \/ s1 = 0 \/ 0 < s1) by lia;
       assert (S2 : s2 < 0 \/ s2 = 0 \/ 0 < s2) by lia;
       destruct S1 as [S1|[S1|S1]], S2 as [S2|[S2|S2]].
  all: try (timeout 10 nia).
Qed.

Lemma c14_plane_ok_exact a b p : c14_cross a b <> (0, 0, 0) -> c14_triple a b p = 0 -> c14_plane_ok a b p = true.
Proof.
  intros Hn H. unfold c14_plane_ok. rewrite H.
  apply c14_is0_false in Hn. rewrite Hn. cbn [negb andb].
  pose proof (c14_nsq_nonneg (c14_cross a b)). pose proof (c14_nsq_nonneg p).
  assert (0 <= c14_TOL_num * c14_TOL_num) by nia.
  assert (0 <= c14_nsq (c14_cross a b) * c14_nsq p) by nia.
  nia.
Qed.

Lemma c14_plane_ok_false_triple a b p :
  c14_cross a b <> (0, 0, 0) -> c14_plane_ok a b p = false -> c14_triple a b p <> 0.
Proof.
  intros Hn H E. rewrite c14_plane_ok_exact in H by assumption. discriminate.
Qed.

(* for p on the plane, a x p is parallel to n = a x b:  |n|^2 (a x p) = ((a x p).n) n *)
Lemma c14_cross_ap_parallel a b p :
  c14_triple a b p = 0 ->
  c14_scale (c14_nsq (c14_cross a b)) (c14_cross a p)
  = c14_scale (c14_dot (c14_cross a p) (c14_cross a b)) (c14_cross a b).
Proof.
  intros H.
  assert (E : c14_cross (c14_cross a b) (c14_cross a p) = c14_scale (c14_triple a b p) a) by c14_ring.
  rewrite H in E.
  assert (E' : c14_cross (c14_cross a b) (c14_cross a p) = (0, 0, 0)) by (rewrite E; c14_ring).
  rewrite (c14_parallel_scale _ _ E'). f_equal. apply c14_dot_comm.
Qed.

Lemma c14_cross_pb_parallel a b p :
  c14_triple a b p = 0 ->
  c14_scale (c14_nsq (c14_cross a b)) (c14_cross p b)
  = c14_scale (c14_dot (c14_cross p b) (c14_cross a b)) (c14_cross a b).
Proof.
  intros H.
  assert (E : c14_cross (c14_cross a b) (c14_cross p b) = c14_scale (- c14_triple a b p) b) by c14_ring.
  rewrite H in E.
  assert (E' : c14_cross (c14_cross a b) (c14_cross p b) = (0, 0, 0)) by (rewrite E; c14_ring).
  rewrite (c14_parallel_scale _ _ E'). f_equal. apply c14_dot_comm.
Qed.

Lemma c14_sign_transfer N D s X : 0 < N -> D <> 0 -> N * s = X * D -> (0 <=? s * D) = (0 <=? X).
Proof.
  intros HN HD E.
  assert (E2 : N * (s * D) = X * (D * D)) by (rewrite Z.mul_assoc, E; ring).
  assert (0 < D * D) by nia.
  destruct (Z.leb_spec 0 X); destruct (Z.leb_spec 0 (s * D)); try reflexivity; exfalso; nia.
Qed.

Lemma c14_lon_f_plain v :
  c14_is_pole v = false -> (c14_x v <> 0 \/ c14_y v <> 0) -> c14_lon_f v = (c14_x v, c14_y v).
Proof.
  intros Hp Hxy. unfold c14_lon_f. rewrite Hp.
  destruct ((c14_x v =? 0) && (c14_y v =? 0)) eqn:E; [exfalso; lia | reflexivity].
Qed.

(* Theorem: for an arc whose plane does not contain the polar axis (n_z <> 0), with no point in the
   pole snap zone, and a query that is exactly on the plane or fails the tolerance test, the
   longitude-interval logic of the implementation decides exactly the specification. *)
Lemma c14_lonlat_general_correct a b p :
  c14_z (c14_cross a b) <> 0 ->
  c14_is_pole a = false -> c14_is_pole b = false -> c14_is_pole p = false ->
  p <> (0, 0, 0) ->
  (c14_triple a b p = 0 \/ c14_plane_ok a b p = false) ->
  c14_pwg_lonlat a b p = Some (c14_on_arc a b p).
Proof.
  intros Hnz Pa Pb Pp Hp0 Hpl.
  assert (Hn : c14_cross a b <> (0, 0, 0)).
  { intros E. apply Hnz. rewrite E. reflexivity. }
  unfold c14_pwg_lonlat.
  assert (Anti : c14_antipodal a b = false).
  { unfold c14_antipodal. apply c14_is0_false in Hn. rewrite Hn. reflexivity. }
  rewrite Anti.
  destruct Hpl as [Ht|Hpl].
  2:{ rewrite Hpl. cbn [negb]. f_equal. symmetry.
      rewrite c14_on_arc_unfold.
      apply (c14_plane_ok_false_triple a b p Hn) in Hpl.
      destruct (Z.eqb_spec (c14_triple a b p) 0); [contradiction|reflexivity]. }
  rewrite (c14_plane_ok_exact a b p Hn Ht). cbn [negb].
  (* longitudes are the plain (x, y) directions *)
  assert (Da : c14_x a <> 0 \/ c14_y a <> 0).
  { destruct a as [[xa ya] za], b as [[xb yb] zb]; c14_unf. nia. }
  assert (Db : c14_x b <> 0 \/ c14_y b <> 0).
  { destruct a as [[xa ya] za], b as [[xb yb] zb]; c14_unf. nia. }
  assert (Dp : c14_x p <> 0 \/ c14_y p <> 0).
  { destruct (Z.eq_dec (c14_x p) 0) as [Ex|]; [|left; assumption].
    destruct (Z.eq_dec (c14_y p) 0) as [Ey|]; [|right; assumption].
    exfalso. apply Hp0.
    destruct a as [[xa ya] za], b as [[xb yb] zb], p as [[xp yp] zp]; c14_unf. subst xp yp.
    assert (zp = 0) by nia. subst. reflexivity. }
  rewrite (c14_lon_f_plain a Pa Da), (c14_lon_f_plain b Pb Db), (c14_lon_f_plain p Pp Dp).
  rewrite Pa, Pb.
  set (D := c14_z (c14_cross a b)) in *.
  assert (ED : c14_cross2 (c14_x a, c14_y a) (c14_x b, c14_y b) = D).
  { unfold D. destruct a as [[xa ya] za], b as [[xb yb] zb]; unfold c14_cross2; c14_unf. ring. }
  unfold c14_lon_eq, c14_lon_anti. rewrite ED.
  destruct (Z.eqb_spec D 0) as [|_]; [contradiction|]. cbn [andb orb].
  (* the planar lemma *)
  pose proof (c14_lon_logic (c14_x a) (c14_y a) (c14_x b) (c14_y b) (c14_x p) (c14_y p)) as L.
  cbv zeta in L.
  assert (ED' : c14_x a * c14_y b - c14_y a * c14_x b = D).
  { rewrite <- ED. reflexivity. }
  rewrite ED' in L. specialize (L Hnz Dp).
  cbv zeta.
  match goal with |- (if ?c then Some ?x else Some ?y) = _ =>
    transitivity (Some (if c then x else y)); [destruct c; reflexivity|] end.
  f_equal. etransitivity; [exact L|]. clear L.
  (* transfer the signs *)
  rewrite c14_on_arc_unfold, Ht. cbn [Z.eqb andb].
  pose proof (c14_nsq_pos _ Hn) as HN.
  pose proof (c14_cross_ap_parallel a b p Ht) as P1.
  pose proof (c14_cross_pb_parallel a b p Ht) as P2.
  f_equal.
  - apply (c14_sign_transfer (c14_nsq (c14_cross a b))); auto.
    apply (f_equal c14_z) in P1.
    destruct a as [[xa ya] za], b as [[xb yb] zb], p as [[xp yp] zp].
    clear - P1. subst D. c14_unf. lia.
  - apply (c14_sign_transfer (c14_nsq (c14_cross a b))); auto.
    apply (f_equal c14_z) in P2.
    destruct a as [[xa ya] za], b as [[xb yb] zb], p as [[xp yp] zp].
    clear - P2. subst D. c14_unf. lia.
Qed.

(* ------------------------------------------------------------------------------------------ *)
(* the pole branch of the faithful model violates the specification (defects of the code)        *)

(* arc from lat 80.2 (lon 0) over the north pole to lat 29.9 (lon 180); the query at lat 49.9 on lon 0 lies
   below the first endpoint, not on the arc, and is accepted *)
Lemma c14_lonlat_through_pole_refuted :
  exists a b p, c14_cross a b <> (0, 0, 0) /\ c14_on_arc a b (0, 0, 1) = true /\
                c14_on_arc a b p = false /\ c14_pwg_lonlat a b p = Some true.
Proof.
  exists (17, 0, 98), (-87, 0, 50), (64, 0, 76). repeat split; try (vm_compute; congruence).
Qed.

(* _decide_pole_latitude no longer depends on the order of the endpoints (it did before the fix b3cc87d4, for an
   endpoint exactly on the equator): for latitudes of different absolute value the same pole is chosen *)
Lemma c14_lat_le_abs_total l1 l2 :
  c14_lat_le (c14_lat_abs l1) (c14_lat_abs l2) = false -> c14_lat_le (c14_lat_abs l2) (c14_lat_abs l1) = true.
Proof.
  destruct l1 as [s1 q1], l2 as [s2 q2]. unfold c14_lat_le, c14_lat_abs. cbn [fst snd].
  destruct (Z.leb_spec (Z.abs s1) 0); destruct (Z.leb_spec 0 (Z.abs s2)); destruct (Z.leb_spec (Z.abs s2) 0);
    destruct (Z.leb_spec 0 (Z.abs s1)); try discriminate; try reflexivity; try lia.
Qed.

Lemma c14_decide_pole_sym l1 l2 :
  c14_lat_le (c14_lat_abs l1) (c14_lat_abs l2) = false ->      (* |lat2| < |lat1| *)
  c14_decide_pole l1 l2 = c14_decide_pole l2 l1.
Proof.
  intros H. unfold c14_decide_pole. rewrite H, (c14_lat_le_abs_total l1 l2 H). reflexivity.
Qed.

(* the inputs that refuted the property before the fixes now agree with the specification *)
Example c14_ex_equator_endpoint_fixed :
  c14_pwg_lonlat (1, 0, 0) (-17, 0, -98) (-8, 0, -99) = Some (c14_on_arc (1, 0, 0) (-17, 0, -98) (-8, 0, -99)) /\
  c14_pwg_lonlat (0, 1, 0) (0, 0, -1) (0, 3, 4) = Some (c14_on_arc (0, 1, 0) (0, 0, -1) (0, 3, 4)) /\
  c14_pwg_lonlat (0, 0, -1) (0, 1, 0) (0, 3, 4) = Some (c14_on_arc (0, 0, -1) (0, 1, 0) (0, 3, 4)).
Proof. repeat split; vm_compute; reflexivity. Qed.

(* swapping the endpoints still changes the answer in the pole branch: arc from (lon 90, lat -18.4) to the south pole,
   query = the south pole itself *)
Lemma c14_lonlat_swap_refuted :
  exists a b p, c14_cross a b <> (0, 0, 0) /\ c14_pwg_lonlat a b p <> c14_pwg_lonlat b a p.
Proof.
  exists (0, 3, -1), (0, 0, -1), (0, 0, -2). split; vm_compute; congruence.
Qed.

(* ------------------------------------------------------------------------------------------ *)
(* gca_gca_intersection: the faithful model is the specification whenever its four membership
   tests are right and the circles are not (numerically) parallel                               *)

Lemma c14_gca_gca_structure w0 w1 v0 v1 :
  let x := c14_cross (c14_cross w0 w1) (c14_cross v0 v1) in
  let q := c14_nsq w0 * c14_nsq w1 * c14_nsq v0 * c14_nsq v1 in
  c14_small (c14_x x) q && c14_small (c14_y x) q && c14_small (c14_z x) q = false ->
  c14_pwg w0 w1 x = Some (c14_on_arc w0 w1 x) -> c14_pwg v0 v1 x = Some (c14_on_arc v0 v1 x) ->
  c14_pwg w0 w1 (c14_neg x) = Some (c14_on_arc w0 w1 (c14_neg x)) ->
  c14_pwg v0 v1 (c14_neg x) = Some (c14_on_arc v0 v1 (c14_neg x)) ->
  c14_gca_gca w0 w1 v0 v1 = Some (c14_arc_cross w0 w1 v0 v1).
Proof.
  intros x q Hs P1 P2 P3 P4.
  unfold c14_gca_gca, c14_arc_cross. fold x. fold q. rewrite Hs, P1, P2, P3, P4.
  assert (Hx : c14_is0 x = false).
  { destruct (c14_is0 x) eqn:E; [|reflexivity]. apply c14_is0_true in E. exfalso.
    rewrite E in Hs. unfold c14_small, c14_x, c14_y, c14_z in Hs. cbn [fst snd] in Hs.
    assert (0 <= q).
    { unfold q. pose proof (c14_nsq_nonneg w0). pose proof (c14_nsq_nonneg w1).
      pose proof (c14_nsq_nonneg v0). pose proof (c14_nsq_nonneg v1). nia. }
    assert (0 <= c14_EPS_num * c14_EPS_num * q) by nia.
    lia. }
  rewrite Hx.
  destruct (c14_on_arc w0 w1 x), (c14_on_arc v0 v1 x), (c14_on_arc w0 w1 (c14_neg x)), (c14_on_arc v0 v1 (c14_neg x));
    reflexivity.
Qed.

(* ------------------------------------------------------------------------------------------ *)
(* extreme latitude                                                                             *)

(* the apex lies on the great circle *)
Lemma c14_apex_on_circle n : c14_dot n (c14_apex n) = 0.
Proof. c14_ring. Qed.

(* no point of the great circle with normal n is higher than the apex: sin(lat q) <= sin(lat apex) *)
Lemma c14_apex_is_highest n q :
  n <> (0, 0, 0) -> c14_dot n q = 0 ->
  c14_lat_le (c14_lat_of q) (c14_lat_of (c14_apex n)) = true.
Proof.
  intros Hn Hq.
  destruct n as [[nx ny] nz], q as [[qx qy] qz].
  unfold c14_lat_le, c14_lat_of. c14_unf.
  assert (Ez : nx * nx + ny * ny + nz * nz - nz * nz = nx * nx + ny * ny) by ring.
  rewrite Ez.
  set (h := nx * nx + ny * ny).
  assert (Hh : 0 <= h) by (unfold h; nia).
  destruct (Z.leb_spec qz 0) as [Hz|Hz].
  - destruct (Z.leb_spec 0 h); [reflexivity|lia].
  - (* qz > 0: then h > 0, and the Cauchy-Schwarz bound *)
    assert (Hh0 : 0 < h).
    { destruct (Z.eq_dec h 0) as [E|]; [|lia]. exfalso.
      assert (Hx0 : nx = 0) by (unfold h in E; clear - E; nia).
      assert (Hy0 : ny = 0) by (unfold h in E; clear - E; nia).
      subst nx ny.
      assert (nz = 0) by nia. subst. apply Hn. reflexivity. }
    destruct (Z.leb_spec h 0); [lia|].
    assert (CS : (nx * qx + ny * qy) * (nx * qx + ny * qy) <= h * (qx * qx + qy * qy)).
    { assert (I : h * (qx * qx + qy * qy) - (nx * qx + ny * qy) * (nx * qx + ny * qy)
                  = (nx * qy - ny * qx) * (nx * qy - ny * qx)) by (unfold h; ring).
      pose proof (Z.square_nonneg (nx * qy - ny * qx)). lia. }
    assert (Enz : nz * qz = - (nx * qx + ny * qy)) by lia.
    assert (E2 : (nz * qz) * (nz * qz) = (nx * qx + ny * qy) * (nx * qx + ny * qy)) by (rewrite Enz; ring).
    assert (K : qz * qz * (h + nz * nz) <= h * (qx * qx + qy * qy + qz * qz)).
    { transitivity (qz * qz * h + (nx * qx + ny * qy) * (nx * qx + ny * qy)); [rewrite <- E2; lia|].
      transitivity (qz * qz * h + h * (qx * qx + qy * qy)); [lia|]. lia. }
    assert (E3 : - nz * nx * (- nz * nx) + - nz * ny * (- nz * ny) + h * h = h * (h + nz * nz)) by (unfold h; ring).
    rewrite E3.
    apply Z.leb_le. nia.
Qed.

(* the sine of the latitude of any point of the circle is proportional to the cosine of its angle
   to the apex:  z_q |n|^2 = q . apex *)
Lemma c14_z_is_dot_apex n q : c14_dot n q = 0 -> c14_z q * c14_nsq n = c14_dot q (c14_apex n).
Proof.
  destruct n as [[nx ny] nz], q as [[qx qy] qz]. c14_unf. intros H.
  assert (E : nz * qz = - (nx * qx + ny * qy)) by lia.
  transitivity (qz * (nx * nx + ny * ny) + nz * (nz * qz)); [ring|]. rewrite E. ring.
Qed.

Lemma c14_dot_lin k l a b m :
  c14_dot (c14_add (c14_scale k a) (c14_scale l b)) m = k * c14_dot a m + l * c14_dot b m.
Proof. c14_ring. Qed.

(* the candidate node3 of extreme_gca_latitude, up to the positive factor |den| da db *)
Definition c14_node3 (a : c14_vec) (da : Z) (b : c14_vec) (db : Z) : c14_vec :=
  let dt := c14_dot a b in
  let num := (c14_z a * dt - c14_z b * (da * da)) * db in
  let den := (c14_z a * db + c14_z b * da) * (dt - da * db) in
  c14_add (c14_scale ((den - num) * db) a) (c14_scale (num * da) b).

(* closed form d_a_max: for exactly unit endpoints the candidate is parallel to the apex of the circle *)
Lemma c14_node3_parallel_apex a da b db :
  c14_nsq a = da * da -> c14_nsq b = db * db ->
  c14_cross (c14_node3 a da b db) (c14_apex (c14_cross a b)) = (0, 0, 0).
Proof.
  intros Ha Hb.
  set (n := c14_cross a b).
  set (m := c14_cross n (0, 0, 1)).
  set (v := c14_node3 a da b db).
  (* apex = - n x m, and v x (n x m) = n (v.m) - m (v.n) *)
  assert (EA : c14_apex n = c14_neg (c14_cross n m)) by (unfold m; c14_ring).
  assert (EV : c14_cross v (c14_cross n m) = c14_add (c14_scale (c14_dot v m) n) (c14_neg (c14_scale (c14_dot v n) m)))
    by c14_ring.
  assert (Vn : c14_dot v n = 0) by (unfold v, c14_node3, n; c14_ring).
  assert (Am : c14_dot a m = c14_z a * c14_dot a b - c14_z b * c14_nsq a) by (unfold m, n; c14_ring).
  assert (Bm : c14_dot b m = c14_z a * c14_nsq b - c14_z b * c14_dot a b) by (unfold m, n; c14_ring).
  assert (Vm : c14_dot v m = 0).
  { unfold v, c14_node3. cbv zeta. rewrite c14_dot_lin, Am, Bm, Ha, Hb. ring. }
  rewrite EA, c14_cross_neg_r, EV, Vn, Vm. c14_ring.
Qed.

(* when the closed-form parameter lies in (0,1) the candidate is a strictly positive combination of the
   endpoints, hence a point of the arc *)
Lemma c14_node3_on_arc a da b db :
  0 < da -> 0 < db ->
  let dt := c14_dot a b in
  let num := (c14_z a * dt - c14_z b * (da * da)) * db in
  let den := (c14_z a * db + c14_z b * da) * (dt - da * db) in
  ((0 < den /\ 0 < num < den) \/ (den < 0 /\ den < num < 0)) ->
  c14_on_arc a b (c14_scale (Z.sgn den) (c14_node3 a da b db)) = true.
Proof.
  intros Hda Hdb dt num den H.
  apply (c14_on_arc_cone_bwd a b _ 1 (Z.sgn den * ((den - num) * db)) (Z.sgn den * (num * da))).
  - lia.
  - destruct H as [[H1 H2]|[H1 H2]].
    + rewrite Z.sgn_pos by assumption. nia.
    + rewrite Z.sgn_neg by assumption. nia.
  - destruct H as [[H1 H2]|[H1 H2]].
    + rewrite Z.sgn_pos by assumption. nia.
    + rewrite Z.sgn_neg by assumption. nia.
  - unfold c14_node3. fold dt. fold num. fold den. c14_ring.
Qed.

(* the faithful extreme-latitude model, spelled out with c14_node3 *)
Lemma c14_extreme_unfold a da b db is_max :
  c14_extreme a da b db is_max =
  let dt := c14_dot a b in
  let num := (c14_z a * dt - c14_z b * (da * da)) * db in
  let den := (c14_z a * db + c14_z b * da) * (dt - da * db) in
  let pick := if is_max then c14_lat_max else c14_lat_min in
  let inside := if den =? 0 then false
                else if 0 <? den then (0 <? num) && (num <? den) else (num <? 0) && (den <? num) in
  if inside then pick (pick (c14_lat_of (c14_scale (Z.sgn den) (c14_node3 a da b db))) (c14_lat_f a)) (c14_lat_f b)
  else pick (c14_lat_f a) (c14_lat_f b).
Proof.
  unfold c14_extreme, c14_node3. cbv zeta.
  match goal with |- (if ?c then _ else _) = _ => destruct c; [|reflexivity] end.
  do 3 f_equal. c14_ring.
Qed.


(* ------------------------------------------------------------------------------------------ *)
(* arcs on one meridian half: the same-longitude branch of point_within_gca *)


(* ------------------------------------------------------------------------------------------ *)
(* arcs on one meridian half: the same-longitude branch of point_within_gca                       *)

Section Meridian.
  Variables xa ya za xb yb zb xp yp zp : Z.
  Let L := xa * xa + ya * ya.
  Let Hb := xa * xb + ya * yb.
  Let Hp := xa * xp + ya * yp.
  Let Cab := L * zb - za * Hb.
  Let Cap := L * zp - za * Hp.
  Let Cpb := Hp * zb - zp * Hb.
  Hypothesis Eab : xa * yb - ya * xb = 0.

  Lemma c14_mer_triple :
    L * c14_triple (xa,ya,za) (xb,yb,zb) (xp,yp,zp) = - Cab * (xa * yp - ya * xp).
  Proof. unfold c14_triple, c14_dot, c14_cross, c14_x, c14_y, c14_z; cbn [fst snd]. subst L Hb Hp Cab Cap Cpb. nsatz. Qed.

  Lemma c14_mer_nx : L * (ya * zb - za * yb) = ya * Cab.
  Proof. subst L Hb Hp Cab Cap Cpb. nsatz. Qed.

  Lemma c14_mer_ny : L * (za * xb - xa * zb) = - xa * Cab.
  Proof. subst L Hb Hp Cab Cap Cpb. nsatz. Qed.

  Hypothesis Eap : xa * yp - ya * xp = 0.

  Lemma c14_mer_id1 :
    c14_dot (c14_cross (xa,ya,za) (xp,yp,zp)) (c14_cross (xa,ya,za) (xb,yb,zb)) * L = Cap * Cab.
  Proof. unfold c14_dot, c14_cross, c14_x, c14_y, c14_z; cbn [fst snd]. subst L Hb Hp Cab Cap Cpb. nsatz. Qed.

  Lemma c14_mer_id2 :
    c14_dot (c14_cross (xp,yp,zp) (xb,yb,zb)) (c14_cross (xa,ya,za) (xb,yb,zb)) * L = Cpb * Cab.
  Proof. unfold c14_dot, c14_cross, c14_x, c14_y, c14_z; cbn [fst snd]. subst L Hb Hp Cab Cap Cpb. nsatz. Qed.

  Lemma c14_mer_three : Hp * Cab = L * Cpb + Hb * Cap.
  Proof. subst L Hb Hp Cab Cap Cpb. ring. Qed.

  Lemma c14_mer_Hb2 : Hb * Hb = L * (xb * xb + yb * yb).
  Proof. subst L Hb. nsatz. Qed.

  Lemma c14_mer_Hp2 : Hp * Hp = L * (xp * xp + yp * yp).
  Proof. subst L Hp. nsatz. Qed.
End Meridian.

(* z_u/|u| <= z_v/|v|  <->  Hu z_v - z_u Hv >= 0  for vectors on the same meridian half (Hu, Hv > 0, Hu^2 = L hu2, ...) *)
Lemma c14_lat_le_meridian L zu hu2 Hu zv hv2 Hv :
  0 < L -> 0 < Hu -> 0 < Hv -> Hu * Hu = L * hu2 -> Hv * Hv = L * hv2 ->
  c14_lat_le (zu, hu2 + zu * zu) (zv, hv2 + zv * zv) = (0 <=? Hu * zv - zu * Hv).
Proof.
  intros HL HHu HHv Eu Ev. unfold c14_lat_le.
  assert (K : forall s t, L * (s * s * (hv2 + zv * zv)) - L * (t * t * (hu2 + zu * zu))
                          = s * s * (Hv * Hv) - t * t * (Hu * Hu) + L * (s * s * (zv * zv) - t * t * (zu * zu))).
  { intros. rewrite Eu, Ev. ring. }
  destruct (Z.leb_spec zu 0) as [Hzu|Hzu]; destruct (Z.leb_spec 0 zv) as [Hzv|Hzv].
  - (* zu <= 0 <= zv *) symmetry. apply Z.leb_le. nia.
  - (* zu <= 0, zv < 0 *)
    pose proof (K zu zv) as K1.
    assert (E : L * (zu * zu * (hv2 + zv * zv)) - L * (zv * zv * (hu2 + zu * zu)) = (zu * Hv) * (zu * Hv) - (zv * Hu) * (zv * Hu)) by (rewrite K1; ring).
    destruct (Z.leb_spec (zv * zv * (hu2 + zu * zu)) (zu * zu * (hv2 + zv * zv))); destruct (Z.leb_spec 0 (Hu * zv - zu * Hv)); try reflexivity; exfalso; nia.
  - destruct (Z.leb_spec zv 0) as [Hzv0|Hzv0].
    + (* zu > 0, zv = 0 *) assert (zv = 0) by lia. subst zv. symmetry. apply Z.leb_gt. nia.
    + pose proof (K zu zv) as K1.
      assert (E : L * (zu * zu * (hv2 + zv * zv)) - L * (zv * zv * (hu2 + zu * zu)) = (zu * Hv) * (zu * Hv) - (zv * Hu) * (zv * Hu)) by (rewrite K1; ring).
      destruct (Z.leb_spec (zu * zu * (hv2 + zv * zv)) (zv * zv * (hu2 + zu * zu))); destruct (Z.leb_spec 0 (Hu * zv - zu * Hv)); try reflexivity; exfalso; nia.
  - (* zu > 0, zv < 0 *) destruct (Z.leb_spec zv 0); [|lia]. symmetry. apply Z.leb_gt. nia.
Qed.


Lemma c14_mul_pos_zero L N : 0 < L -> L * N = 0 -> N = 0.
Proof. intros. nia. Qed.

Lemma c14_mul_nonzero_zero C X : C <> 0 -> 0 = - C * X -> X = 0.
Proof. intros. nia. Qed.

Lemma c14_sq_sum_pos x y : x <> 0 \/ y <> 0 -> 0 < x * x + y * y.
Proof. intros. nia. Qed.

Lemma c14_sq_nonzero L Hp s : 0 < L -> 0 < s -> Hp * Hp = L * s -> Hp <> 0.
Proof. intros HL Hs E E0. rewrite E0 in E. nia. Qed.

Lemma c14_sign_prod_pos L X C D : 0 < L -> 0 < D -> X * L = C * D -> (0 <=? X) = (0 <=? C).
Proof. intros. destruct (Z.leb_spec 0 X); destruct (Z.leb_spec 0 C); try reflexivity; exfalso; nia. Qed.

Lemma c14_sign_prod_neg L X C D : 0 < L -> D < 0 -> X * L = C * D -> (0 <=? X) = (0 <=? - C).
Proof. intros. destruct (Z.leb_spec 0 X); destruct (Z.leb_spec 0 (- C)); try reflexivity; exfalso; nia. Qed.

Lemma c14_between_same_half L Hb Hp Cab Cap Cpb X1 X2 :
  0 < L -> 0 < Hb -> 0 < Hp -> Cab <> 0 ->
  X1 * L = Cap * Cab -> X2 * L = Cpb * Cab -> Hp * Cab = L * Cpb + Hb * Cap ->
  (0 <=? Cap) && (0 <=? Cpb) || (0 <=? - Cpb) && (0 <=? - Cap) = (0 <=? X1) && (0 <=? X2).
Proof.
  intros HL HHb HHp HC I1 I2 I3.
  destruct (Z_lt_le_dec 0 Cab) as [Hpos|Hneg].
  - rewrite (c14_sign_prod_pos L X1 Cap Cab HL Hpos I1), (c14_sign_prod_pos L X2 Cpb Cab HL Hpos I2).
    assert (0 < Hp * Cab) by nia.
    destruct (Z.leb_spec 0 Cap); destruct (Z.leb_spec 0 Cpb); destruct (Z.leb_spec 0 (- Cpb)); destruct (Z.leb_spec 0 (- Cap));
      cbn [andb orb]; try reflexivity; exfalso; nia.
  - assert (Hn : Cab < 0) by lia.
    rewrite (c14_sign_prod_neg L X1 Cap Cab HL Hn I1), (c14_sign_prod_neg L X2 Cpb Cab HL Hn I2).
    assert (Hp * Cab < 0) by nia.
    destruct (Z.leb_spec 0 Cap); destruct (Z.leb_spec 0 Cpb); destruct (Z.leb_spec 0 (- Cpb)); destruct (Z.leb_spec 0 (- Cap));
      cbn [andb orb]; try reflexivity; exfalso; nia.
Qed.

Lemma c14_not_on_arc_other_half L Hb Hp Cab Cap Cpb X1 X2 :
  0 < L -> 0 < Hb -> Hp < 0 -> Cab <> 0 ->
  X1 * L = Cap * Cab -> X2 * L = Cpb * Cab -> Hp * Cab = L * Cpb + Hb * Cap ->
  (0 <=? X1) && (0 <=? X2) = false.
Proof.
  intros HL HHb HHp HC I1 I2 I3.
  destruct (Z_lt_le_dec 0 Cab) as [Hpos|Hneg].
  - rewrite (c14_sign_prod_pos L X1 Cap Cab HL Hpos I1), (c14_sign_prod_pos L X2 Cpb Cab HL Hpos I2).
    assert (Hp * Cab < 0) by nia.
    destruct (Z.leb_spec 0 Cap); destruct (Z.leb_spec 0 Cpb); cbn [andb]; try reflexivity; exfalso; nia.
  - assert (Hn : Cab < 0) by lia.
    rewrite (c14_sign_prod_neg L X1 Cap Cab HL Hn I1), (c14_sign_prod_neg L X2 Cpb Cab HL Hn I2).
    assert (0 < Hp * Cab) by nia.
    destruct (Z.leb_spec 0 (- Cap)); destruct (Z.leb_spec 0 (- Cpb)); cbn [andb]; try reflexivity; exfalso; nia.
Qed.

Lemma c14_lonlat_meridian_correct a b p :
  c14_lon_eq (c14_lon_f a) (c14_lon_f b) = true ->
  c14_cross a b <> (0, 0, 0) ->
  c14_is_pole a = false -> c14_is_pole b = false -> c14_is_pole p = false ->
  (c14_x a <> 0 \/ c14_y a <> 0) -> (c14_x b <> 0 \/ c14_y b <> 0) -> (c14_x p <> 0 \/ c14_y p <> 0) ->
  (c14_triple a b p = 0 \/ c14_plane_ok a b p = false) ->
  c14_pwg_lonlat a b p = Some (c14_on_arc a b p).
Proof.
  intros Heq Hn Pa Pb Pp Da Db Dp Hpl.
  unfold c14_pwg_lonlat.
  assert (Anti : c14_antipodal a b = false).
  { unfold c14_antipodal. apply c14_is0_false in Hn. rewrite Hn. reflexivity. }
  rewrite Anti.
  destruct Hpl as [Ht|Hpl].
  2:{ rewrite Hpl. cbn [negb]. f_equal. symmetry. rewrite c14_on_arc_unfold.
      apply (c14_plane_ok_false_triple a b p Hn) in Hpl.
      destruct (Z.eqb_spec (c14_triple a b p) 0); [contradiction|reflexivity]. }
  rewrite (c14_plane_ok_exact a b p Hn Ht). cbn [negb].
  rewrite (c14_lon_f_plain a Pa Da), (c14_lon_f_plain b Pb Db), (c14_lon_f_plain p Pp Dp) in *.
  rewrite Heq.
  unfold c14_lat_f. rewrite Pa, Pb, Pp.
  destruct a as [[xa ya] za], b as [[xb yb] zb], p as [[xp yp] zp].
  unfold c14_x, c14_y, c14_z in Da, Db, Dp; cbn [fst snd] in Da, Db, Dp.
  unfold c14_lon_eq, c14_cross2, c14_dot2, c14_x, c14_y, c14_z in Heq |- *; cbn [fst snd] in Heq |- *.
  assert (Eab : xa * yb - ya * xb = 0) by lia.
  assert (HHb : 0 < xa * xb + ya * yb) by lia.
  set (L := xa * xa + ya * ya).
  set (Hb := xa * xb + ya * yb) in *.
  set (Hp := xa * xp + ya * yp).
  set (Cab := L * zb - za * Hb).
  set (Cap := L * zp - za * Hp).
  set (Cpb := Hp * zb - zp * Hb).
  assert (HL : 0 < L) by (apply c14_sq_sum_pos; exact Da).
  (* the plane normal is Cab * (ya, -xa, 0) / L *)
  pose proof (c14_mer_nx xa ya za xb yb zb Eab) as Nx.
  pose proof (c14_mer_ny xa ya za xb yb zb Eab) as Ny.
  cbv zeta in Nx, Ny. fold L Hb Cab in Nx, Ny.
  assert (HCab : Cab <> 0).
  { intros E. apply Hn. unfold c14_cross, c14_x, c14_y, c14_z; cbn [fst snd].
    rewrite E in Nx, Ny. rewrite Z.mul_0_r in Nx, Ny.
    pose proof (c14_mul_pos_zero _ _ HL Nx) as N1. pose proof (c14_mul_pos_zero _ _ HL Ny) as N2.
    rewrite N1, N2, Eab. reflexivity. }
  pose proof (c14_mer_triple xa ya za xb yb zb xp yp zp Eab) as MT. cbv zeta in MT.
  rewrite Ht in MT. fold L Hb Cab in MT.
  rewrite Z.mul_0_r in MT. pose proof (c14_mul_nonzero_zero _ _ HCab MT) as Eap.
  pose proof (c14_mer_id1 xa ya za xb yb zb xp yp zp Eab Eap) as I1.
  pose proof (c14_mer_id2 xa ya za xb yb zb xp yp zp Eab Eap) as I2.
  pose proof (c14_mer_three xa ya za xb yb zb xp yp zp) as I3.
  pose proof (c14_mer_Hb2 xa ya xb yb xp yp Eab Eap) as Q1.
  pose proof (c14_mer_Hp2 xa ya xb yb xp yp Eab Eap) as Q2.
  cbv zeta in I1, I2, I3, Q1, Q2. fold L Hb Hp Cab Cap Cpb in I1, I2, I3, Q1, Q2.
  assert (HHp : Hp <> 0).
  { apply (c14_sq_nonzero L Hp (xp * xp + yp * yp) HL (c14_sq_sum_pos _ _ Dp) Q2). }
  assert (Ecross : (xa * yp - ya * xp =? 0) = true) by lia. rewrite Ecross. cbn [andb].
  rewrite c14_on_arc_unfold, Ht. cbn [Z.eqb andb].
  set (X1 := c14_dot (c14_cross (xa, ya, za) (xp, yp, zp)) (c14_cross (xa, ya, za) (xb, yb, zb))) in *.
  set (X2 := c14_dot (c14_cross (xp, yp, zp) (xb, yb, zb)) (c14_cross (xa, ya, za) (xb, yb, zb))) in *.
  destruct (Z.ltb_spec 0 Hp) as [Hpos|Hneg].
  - (* same meridian half: latitude interval *)
    f_equal. unfold c14_lat_between, c14_lat_of, c14_nsq, c14_dot, c14_x, c14_y, c14_z; cbn [fst snd].
    assert (QL : L * L = L * (xa * xa + ya * ya)) by (unfold L; ring).
    rewrite (c14_lat_le_meridian L za (xa * xa + ya * ya) L zp (xp * xp + yp * yp) Hp HL HL Hpos QL Q2).
    rewrite (c14_lat_le_meridian L zp (xp * xp + yp * yp) Hp zb (xb * xb + yb * yb) Hb HL Hpos HHb Q2 Q1).
    rewrite (c14_lat_le_meridian L zb (xb * xb + yb * yb) Hb zp (xp * xp + yp * yp) Hp HL HHb Hpos Q1 Q2).
    rewrite (c14_lat_le_meridian L zp (xp * xp + yp * yp) Hp za (xa * xa + ya * ya) L HL Hpos HL Q2 QL).
    fold Cap Cpb.
    assert (E3 : Hb * zp - zb * Hp = - Cpb) by (unfold Cpb; ring).
    assert (E4 : Hp * za - zp * L = - Cap) by (unfold Cap; ring).
    rewrite E3, E4.
    exact (c14_between_same_half L Hb Hp Cab Cap Cpb X1 X2 HL HHb Hpos HCab I1 I2 I3).
  - (* opposite meridian half: rejected, and indeed not on the arc *)
    assert (Hp < 0) by lia.
    assert (Ed : (0 <? Hp) = false) by lia.
    f_equal. symmetry.
    exact (c14_not_on_arc_other_half L Hb Hp Cab Cap Cpb X1 X2 HL HHb H HCab I1 I2 I3).
Qed.

(* ------------------------------------------------------------------------------------------ *)
(* over R: along a great circle parametrised by the angle t, z(t) = z1 cos t + z2 sin t is
   Zc cos(t - t0); on a parameter interval that contains no apex angle (t0 + 2k pi) it is largest
   at an endpoint; everywhere it is at most the apex value Zc                                    *)
From Coq Require Import Reals Lra.
Local Open Scope R_scope.

Lemma c14_cos_max_endpoints u1 u u2 :
  0 <= u1 -> u1 <= u -> u <= u2 -> u2 <= 2 * PI -> cos u <= Rmax (cos u1) (cos u2).
Proof.
  intros H0 H1 H2 H3.
  pose proof PI_RGT_0 as HPI.
  destruct (Rle_dec u PI) as [Hu|Hu].
  - apply Rle_trans with (cos u1); [|apply Rmax_l].
    apply cos_decr_1; lra.
  - apply Rle_trans with (cos u2); [|apply Rmax_r].
    apply cos_incr_1; lra.
Qed.

Lemma c14_extreme_R z1 z2 Zc t0 t1 t2 t :
  0 <= Zc -> z1 = Zc * cos t0 -> z2 = Zc * sin t0 ->
  let z := fun s => z1 * cos s + z2 * sin s in
  t1 <= t <= t2 ->
  z t <= Zc /\
  (t0 <= t1 -> t2 <= t0 + 2 * PI -> z t <= Rmax (z t1) (z t2)).
Proof.
  intros HZ E1 E2 z Ht.
  assert (Ez : forall s, z s = Zc * cos (s - t0)).
  { intros s. unfold z. rewrite E1, E2, cos_minus. ring. }
  split.
  - rewrite Ez. pose proof (COS_bound (t - t0)) as [_ Hc]. nra.
  - intros Ha Hb. rewrite !Ez.
    pose proof (c14_cos_max_endpoints (t1 - t0) (t - t0) (t2 - t0)) as H.
    assert (Hm : cos (t - t0) <= Rmax (cos (t1 - t0)) (cos (t2 - t0))) by (apply H; lra).
    unfold Rmax in *.
    destruct (Rle_dec (cos (t1 - t0)) (cos (t2 - t0))); destruct (Rle_dec (Zc * cos (t1 - t0)) (Zc * cos (t2 - t0))); nra.
Qed.

Local Open Scope Z_scope.

Lemma c14_arc_cross_swap_endpoints_both a b c d :
  c14_arc_cross b a c d = c14_arc_cross a b c d /\ c14_arc_cross a b d c = c14_arc_cross a b c d.
Proof. split; [apply c14_arc_cross_swap_endpoints | apply c14_arc_cross_swap_endpoints2]. Qed.

Lemma c14_apex_highest n q : n <> (0, 0, 0) -> c14_dot n q = 0 ->
  c14_dot n (c14_apex n) = 0 /\ c14_lat_le (c14_lat_of q) (c14_lat_of (c14_apex n)) = true.
Proof. intros Hn Hq. split; [apply c14_apex_on_circle | apply c14_apex_is_highest; assumption]. Qed.

(* ------------------------------------------------------------------------------------------ *)
(* non-vacuity: concrete inputs meeting the hypotheses of the theorems above                     *)
Local Open Scope Z_scope.

Example c14_ex_general_true :
  let a := (1, 0, 0) in let b := (0, 1, 0) in let p := (1, 1, 0) in
  c14_z (c14_cross a b) <> 0 /\ c14_is_pole a = false /\ c14_is_pole b = false /\ c14_is_pole p = false /\
  p <> (0, 0, 0) /\ c14_triple a b p = 0 /\ c14_pwg_lonlat a b p = Some true.
Proof. cbv zeta. repeat split; try (vm_compute; congruence). Qed.

Example c14_ex_general_false_off_plane :
  let a := (3, 1, 2) in let b := (-1, 4, 1) in let p := (1, 1, 1) in
  c14_z (c14_cross a b) <> 0 /\ c14_is_pole a = false /\ c14_is_pole b = false /\ c14_is_pole p = false /\
  p <> (0, 0, 0) /\ c14_plane_ok a b p = false /\ c14_pwg_lonlat a b p = Some false.
Proof. cbv zeta. repeat split; try (vm_compute; congruence). Qed.

Example c14_ex_general_false_outside :
  let a := (3, 1, 2) in let b := (-1, 4, 1) in let p := (7, -2, 3) in   (* p = 2a - b: on the circle, before a *)
  c14_z (c14_cross a b) <> 0 /\ c14_triple a b p = 0 /\ c14_is_pole p = false /\ c14_pwg_lonlat a b p = Some false.
Proof. cbv zeta. repeat split; try (vm_compute; congruence). Qed.

Example c14_ex_crossing :
  let a := (1, 0, 0) in let b := (0, 1, 0) in let c := (1, 1, -1) in let d := (1, 1, 1) in
  c14_cross (c14_cross a b) (c14_cross c d) <> (0, 0, 0) /\
  c14_on_arc a b (1, 1, 0) = true /\ c14_on_arc c d (1, 1, 0) = true /\
  c14_arc_cross a b c d = [(2, 2, 0)] /\ c14_gca_gca a b c d = Some [(2, 2, 0)].
Proof. cbv zeta. repeat split; try (vm_compute; congruence). Qed.

Example c14_ex_zrot : 0 < 5 /\ 3 * 3 + 4 * 4 = 5 * 5 /\ c14_zrot 3 4 5 (1, 0, 2) = (3, 4, 10).
Proof. repeat split; vm_compute; congruence. Qed.

Example c14_ex_extreme :
  let a := (3, 0, 4) in let b := (0, 3, 4) in
  c14_nsq a = 5 * 5 /\ c14_nsq b = 5 * 5 /\ c14_node3 a 5 b 5 <> (0, 0, 0) /\
  c14_extreme a 5 b 5 true = (7200, 66420000) /\ c14_extreme_spec a b true = (288, 106272) /\
  7200 * 7200 * 106272 = 288 * 288 * 66420000.
Proof. cbv zeta. repeat split; try (vm_compute; congruence). Qed.

Example c14_ex_meridian :
  let a := (3, 0, 1) in let b := (2, 0, 5) in let p := (1, 0, 1) in
  c14_lon_eq (c14_lon_f a) (c14_lon_f b) = true /\ c14_cross a b <> (0, 0, 0) /\
  c14_is_pole a = false /\ c14_is_pole b = false /\ c14_is_pole p = false /\ c14_triple a b p = 0 /\
  c14_pwg_lonlat a b p = Some true /\ c14_pwg_lonlat a b (-1, 0, 1) = Some false /\ c14_on_arc a b (-1, 0, 1) = false.
Proof. cbv zeta. repeat split; try (vm_compute; congruence). Qed.

(* ------------------------------------------------------------------------------------------ *)
(* point_within_gca as coded since a3bf7a7f (undirected): on-plane test + two sign tests           *)

(* the quantity is not inside the tolerance window just beyond an endpoint: X >= 0, or X/sqrt(q) < -MACHINE_EPSILON *)
Definition c14_clear (X q : Z) : Prop :=
  0 <= X \/ c14_EPS_num * c14_EPS_num * q < X * X * (c14_EPS_den * c14_EPS_den).

Lemma c14_side_ok_clear X q : c14_clear X q -> c14_side_ok X q = (0 <=? X).
Proof.
  unfold c14_clear, c14_side_ok. intros [H|H].
  - destruct (Z.leb_spec 0 X); [reflexivity|lia].
  - destruct (Z.leb_spec 0 X); [reflexivity|]. cbn [orb]. apply Z.leb_gt. exact H.
Qed.

Definition c14_clear_pt (a b p : c14_vec) : Prop :=
  c14_clear (c14_dot (c14_cross a p) (c14_cross a b)) (c14_nsq a * c14_nsq p * c14_nsq (c14_cross a b)) /\
  c14_clear (c14_dot (c14_cross p b) (c14_cross a b)) (c14_nsq p * c14_nsq b * c14_nsq (c14_cross a b)).

(* for EVERY arc shorter than 180 degrees (a x b <> 0: through a pole, meridional, almost meridional, anywhere) and every
   query that is exactly on the great circle or fails the on-plane tolerance, and is not within MACHINE_EPSILON beyond an
   endpoint, the undirected decision is exactly the specification *)
Lemma c14_pwg_correct a b p :
  c14_cross a b <> (0, 0, 0) ->
  (c14_triple a b p = 0 \/ c14_plane_ok a b p = false) ->
  c14_clear_pt a b p ->
  c14_pwg a b p = Some (c14_on_arc a b p).
Proof.
  intros Hn Hpl [C1 C2]. unfold c14_pwg.
  assert (Anti : c14_antipodal a b = false).
  { unfold c14_antipodal. apply c14_is0_false in Hn. rewrite Hn. reflexivity. }
  rewrite Anti.
  destruct Hpl as [Ht|Hpl].
  2:{ rewrite Hpl. cbn [negb]. f_equal. symmetry. rewrite c14_on_arc_unfold.
      apply (c14_plane_ok_false_triple a b p Hn) in Hpl.
      destruct (Z.eqb_spec (c14_triple a b p) 0); [contradiction|reflexivity]. }
  rewrite (c14_plane_ok_exact a b p Hn Ht). cbn [negb]. cbv zeta.
  rewrite (c14_side_ok_clear _ _ C1), (c14_side_ok_clear _ _ C2).
  rewrite c14_on_arc_unfold, Ht. reflexivity.
Qed.

(* integer directions are always clear of the window when the test quantity is a non-negative integer; a sufficient
   condition that needs no tolerance reasoning: both "between" quantities are non-negative, or one is negative enough *)
Lemma c14_clear_nonneg X q : 0 <= X -> c14_clear X q.
Proof. intros; left; assumption. Qed.

(* swapping the endpoints does not change the undirected decision (no hypotheses at all) *)
Lemma c14_pwg_swap a b p : c14_pwg a b p = c14_pwg b a p.
Proof.
  unfold c14_pwg.
  assert (EA : c14_antipodal b a = c14_antipodal a b).
  { unfold c14_antipodal. rewrite (c14_cross_anti b a), c14_is0_neg, (c14_dot_comm b a). reflexivity. }
  assert (EP : c14_plane_ok b a p = c14_plane_ok a b p).
  { unfold c14_plane_ok. rewrite (c14_cross_anti b a), c14_is0_neg, c14_triple_swap.
    assert (N : c14_nsq (c14_neg (c14_cross a b)) = c14_nsq (c14_cross a b)) by c14_ring.
    rewrite N. replace (- c14_triple a b p * - c14_triple a b p) with (c14_triple a b p * c14_triple a b p) by ring.
    reflexivity. }
  rewrite EA, EP. destruct (c14_antipodal a b); [reflexivity|].
  destruct (c14_plane_ok a b p); [|reflexivity]. cbn [negb]. cbv zeta. f_equal.
  assert (E1 : c14_dot (c14_cross b p) (c14_cross b a) = c14_dot (c14_cross p b) (c14_cross a b)) by c14_ring.
  assert (E2 : c14_dot (c14_cross p a) (c14_cross b a) = c14_dot (c14_cross a p) (c14_cross a b)) by c14_ring.
  assert (N : c14_nsq (c14_cross b a) = c14_nsq (c14_cross a b)) by c14_ring.
  rewrite E1, E2, N. rewrite andb_comm. f_equal; f_equal; ring.
Qed.

Example c14_ex_through_pole_now_correct :
  let a := (17, 0, 98) in let b := (-87, 0, 50) in
  c14_cross a b <> (0, 0, 0) /\ c14_on_arc a b (0, 0, 1) = true /\
  c14_triple a b (64, 0, 76) = 0 /\ c14_clear_pt a b (64, 0, 76) /\
  c14_pwg a b (64, 0, 76) = Some false /\ c14_pwg_lonlat a b (64, 0, 76) = Some true /\
  c14_clear_pt a b (0, 0, 1) /\ c14_pwg a b (0, 0, 1) = Some true /\
  c14_pwg a b (-40, 0, 76) = Some true.
Proof.
  cbv zeta. repeat split; try (vm_compute; congruence); unfold c14_clear; vm_compute;
    first [left; discriminate | right; reflexivity].
Qed.

Example c14_ex_almost_meridional :
  (* endpoint longitudes differ by 1e-6 rad *)
  let a := (1000000, 0, 176327) in let b := (1000000, 1, 1191754) in
  c14_cross a b <> (0, 0, 0) /\ c14_z (c14_cross a b) <> 0 /\
  c14_clear_pt a b (2000000, 1, 1368081) /\ c14_pwg a b (2000000, 1, 1368081) = Some true /\
  c14_clear_pt a b (1000000, 2, 2207181) /\ c14_pwg a b (1000000, 2, 2207181) = Some false /\
  c14_on_arc a b (1000000, 2, 2207181) = false.
Proof.
  cbv zeta. repeat split; try (vm_compute; congruence); unfold c14_clear; vm_compute;
    first [left; discriminate | right; reflexivity].
Qed.

(* ------------------------------------------------------------------------------------------ *)
(* gca_gca_intersection end to end: no restriction on the position of the arcs                   *)

Lemma c14_clear_pt_triple_cross w0 w1 v0 v1 :
  let x := c14_cross (c14_cross w0 w1) (c14_cross v0 v1) in
  c14_triple w0 w1 x = 0 /\ c14_triple v0 v1 x = 0 /\ c14_triple w0 w1 (c14_neg x) = 0 /\ c14_triple v0 v1 (c14_neg x) = 0.
Proof. cbv zeta. repeat split; c14_ring. Qed.

Lemma c14_gca_gca_correct w0 w1 v0 v1 :
  let x := c14_cross (c14_cross w0 w1) (c14_cross v0 v1) in
  let q := c14_nsq w0 * c14_nsq w1 * c14_nsq v0 * c14_nsq v1 in
  c14_small (c14_x x) q && c14_small (c14_y x) q && c14_small (c14_z x) q = false ->
  x <> (0, 0, 0) ->
  c14_clear_pt w0 w1 x -> c14_clear_pt v0 v1 x -> c14_clear_pt w0 w1 (c14_neg x) -> c14_clear_pt v0 v1 (c14_neg x) ->
  c14_gca_gca w0 w1 v0 v1 = Some (c14_arc_cross w0 w1 v0 v1).
Proof.
  intros x q Hs Hx K1 K2 K3 K4.
  assert (Hw : c14_cross w0 w1 <> (0, 0, 0)).
  { intros E. apply Hx. unfold x. rewrite E. c14_ring. }
  assert (Hv : c14_cross v0 v1 <> (0, 0, 0)).
  { intros E. apply Hx. unfold x. rewrite E. c14_ring. }
  destruct (c14_clear_pt_triple_cross w0 w1 v0 v1) as (T1 & T2 & T3 & T4). cbv zeta in T1, T2, T3, T4. fold x in T1, T2, T3, T4.
  apply c14_gca_gca_structure; try exact Hs; fold x; apply c14_pwg_correct; auto.
Qed.

Example c14_ex_gca_through_pole :
  (* arc 1 passes over the north pole (lon 0 -> lon 180), arc 2 crosses it at the pole along the meridians 90 / 270 *)
  let w0 := (3, 0, 4) in let w1 := (-3, 0, 4) in let v0 := (0, 3, 4) in let v1 := (0, -1, 1) in
  let x := c14_cross (c14_cross w0 w1) (c14_cross v0 v1) in
  let q := c14_nsq w0 * c14_nsq w1 * c14_nsq v0 * c14_nsq v1 in
  c14_small (c14_x x) q && c14_small (c14_y x) q && c14_small (c14_z x) q = false /\ x <> (0, 0, 0) /\
  c14_clear_pt w0 w1 x /\ c14_clear_pt v0 v1 x /\ c14_clear_pt w0 w1 (c14_neg x) /\ c14_clear_pt v0 v1 (c14_neg x) /\
  c14_on_arc w0 w1 (0, 0, 1) = true /\
  (c14_gca_gca w0 w1 v0 v1 = Some [x] \/ c14_gca_gca w0 w1 v0 v1 = Some [c14_neg x]) /\ c14_x x = 0 /\ c14_y x = 0.
Proof.
  cbv zeta. repeat split; try (vm_compute; congruence); unfold c14_clear; try (vm_compute; first [left; discriminate | right; reflexivity]).
  vm_compute. first [left; reflexivity | right; reflexivity].
Qed.
