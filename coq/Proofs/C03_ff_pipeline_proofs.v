(* face_face_connectivity of the whole pipeline (table -> edges -> face_edge -> edge_face -> face_face) on a
   manifold standard-form table: row f lists g once per edge whose two faces are exactly f and g. *)
From Coq Require Import ZifyBool.
From Verif Require Import Base C02 C02_proofs C03 C03_proofs C03_C02_proofs.
Local Open Scope Z_scope.

(* the occurrence list of an edge is the pair {f, g} *)
Definition occ_is (f g : Z) (l : list Z) : bool :=
  match l with
  | [a; b] => ((a =? f) && (b =? g)) || ((a =? g) && (b =? f))
  | _ => false
  end.

Lemma filter_map_length {A B} (p : B -> bool) (h : A -> B) (l : list A) :
  length (filter p (map h l)) = length (filter (fun x => p (h x)) l).
Proof. induction l as [|a l IH]; simpl; [reflexivity|]. destruct (p (h a)); simpl; rewrite IH; reflexivity. Qed.

Lemma filter_ext_in_length {A} (p q : A -> bool) (l : list A) :
  (forall x, In x l -> p x = q x) -> length (filter p l) = length (filter q l).
Proof.
  induction l as [|a l IH]; intros H; simpl; [reflexivity|].
  rewrite (H a (or_introl eq_refl)). destruct (q a); simpl; rewrite IH; auto; intros x Hx; apply H; right; exact Hx.
Qed.

Lemma list_as_map_seq {A} (d : A) (l : list A) : l = map (fun i => nth i l d) (seq 0 (length l)).
Proof.
  induction l as [|a l IH]; simpl; [reflexivity|]. f_equal.
  rewrite <- seq_shift, map_map. exact IH.
Qed.

Lemma occ_nonneg fe npf e : Forall (fun f => 0 <= f) (c03_occ fe npf e).
Proof.
  unfold c03_occ. apply Forall_forall. intros g Hg. apply in_map_iff in Hg. destruct Hg as (ev & <- & Hev).
  apply filter_In in Hev. destruct Hev as [Hev _].
  pose proof (events_faces_nonneg fe npf 0 ltac:(lia)) as Hnn. rewrite Forall_forall in Hnn. apply Hnn. exact Hev.
Qed.

Lemma joins_row_of f g occ : Forall (fun x => 0 <= x) occ -> (length occ <= 2)%nat ->
  joins f g (c03_row_of occ) = occ_is f g occ.
Proof.
  intros Hnn Hlen. destruct occ as [|a [|b [|c occ]]]; simpl in Hlen; try lia.
  - reflexivity.
  - unfold c03_row_of, joins. simpl. rewrite ?is_fill_FILL, orb_true_r. reflexivity.
  - inversion Hnn as [|? ? Ha Hnn']; subst. inversion Hnn' as [|? ? Hb _]; subst.
    unfold c03_row_of, joins, occ_is. simpl. rewrite (is_fill_false a Ha), (is_fill_false b Hb). reflexivity.
Qed.

Theorem face_face_of_table m t f g : std_table m t ->
  let FE := face_edges t m in let NPF := n_nodes_per_face t in let n := length (edges t) in
  (forall e, (e < n)%nat -> (length (c03_occ FE NPF e) <= 2)%nat) ->        (* manifold: at most two faces per edge *)
  f <> g ->
  count_occ Z.eq_dec (c03_neighbours (c03_edge_faces FE NPF n) f) g
  = length (filter (fun e => occ_is f g (c03_occ FE NPF e)) (seq 0 n)).
Proof.
  intros Hstd FE NPF n Hman Hfg.
  rewrite (neighbours_count _ f g Hfg).
  rewrite (list_as_map_seq (FILL, FILL) (c03_edge_faces FE NPF n)) at 1.
  rewrite edge_faces_length, filter_map_length.
  apply filter_ext_in_length. intros e He. apply in_seq in He.
  subst FE NPF n. rewrite (edge_face_of_table m t e Hstd) by lia.
  apply joins_row_of; [apply occ_nonneg|apply Hman; lia].
Qed.

(* non-vacuity: a quad between two triangles; face 1 has neighbours 0 and 2, each through one edge *)
Example ff_pipeline_ex :
  let t := [[0;1;2;FILL];[1;3;4;2];[3;5;4;FILL]] in
  let FE := face_edges t 4 in let NPF := n_nodes_per_face t in let n := length (edges t) in
  forallb (fun e => Nat.leb (length (c03_occ FE NPF e)) 2) (seq 0 n) = true /\
  c03_neighbours (c03_edge_faces FE NPF n) 1 = [0; 2] /\
  length (filter (fun e => occ_is 1 2 (c03_occ FE NPF e)) (seq 0 n)) = 1%nat.
Proof. vm_compute. repeat split. Qed.
