(* Proofs about Model/C08_lonrange.v *)
From Coq Require Import ZifyBool.
From Verif Require Import Base C08_lonrange.
Local Open Scope Z_scope.
Ltac Zify.zify_post_hook ::= Z.to_euclidean_division_equations.

Lemma wrap1_same_point x : (c08_wrap1 x - x) mod 360 = 0.
Proof. unfold c08_wrap1. lia. Qed.

Theorem range_fix_same_points l : Forall2 (fun a b => (a - b) mod 360 = 0) (c08_range_fix l) l.
Proof.
  unfold c08_range_fix. destruct (existsb (fun x => 180 <? x) l).
  - induction l as [|x l IH]; simpl; constructor; [apply wrap1_same_point|exact IH].
  - induction l as [|x l IH]; constructor; [replace (x - x) with 0 by lia; reflexivity|exact IH].
Qed.

Theorem range_fix_in_range l : existsb (fun x => 180 <? x) l = true ->
  Forall (fun a => -180 <= a < 180) (c08_range_fix l).
Proof.
  unfold c08_range_fix. intros ->. induction l as [|x l IH]; simpl; constructor; [unfold c08_wrap1; lia|exact IH].
Qed.

(* not local: the octahedron's node on the antimeridian *)
Theorem range_fix_not_local_refuted : exists l n,
  firstn n (c08_range_fix l) <> c08_range_fix (firstn n l).
Proof. exists [180; 270], 1%nat. vm_compute. discriminate. Qed.

(* it IS local on arrays without an entry at exactly 180 whose entries lie in [0, 360): away from the antimeridian a
   subset reports the same numbers either way *)
Theorem range_fix_local_off_antimeridian l n :
  Forall (fun x => 0 <= x < 360 /\ x <> 180) l ->
  firstn n (c08_range_fix l) = map c08_wrap1 (firstn n l) /\
  c08_range_fix (firstn n l) = map c08_wrap1 (firstn n l).
Proof.
  intros H.
  assert (Hid : forall l', Forall (fun x => 0 <= x < 360 /\ x <> 180) l' ->
                 existsb (fun x => 180 <? x) l' = false -> map c08_wrap1 l' = l').
  { induction l' as [|x l' IH]; simpl; intros HF He; [reflexivity|].
    inversion HF as [|? ? Hx HF']; subst. apply orb_false_iff in He. destruct He as [He1 He2].
    rewrite (IH HF' He2). f_equal. unfold c08_wrap1. lia. }
  assert (Hn : Forall (fun x => 0 <= x < 360 /\ x <> 180) (firstn n l)).
  { clear Hid. revert n. induction H as [|x l Hx HF IH]; intros [|n]; simpl; constructor; [exact Hx|apply IH]. }
  split.
  - unfold c08_range_fix. destruct (existsb (fun x => 180 <? x) l) eqn:E.
    + rewrite firstn_map. reflexivity.
    + rewrite <- firstn_map. rewrite (Hid l H E). reflexivity.
  - unfold c08_range_fix. destruct (existsb (fun x => 180 <? x) (firstn n l)) eqn:E; [reflexivity|].
    symmetry. apply Hid; assumption.
Qed.
