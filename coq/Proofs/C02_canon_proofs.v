(* C02: the derived edge table is canonical — strictly ascending in (lower node, upper node), hence determined by the SET of
   boundary segments alone: two grids describing the same segments (faces listed in another order, rings started at another
   corner or traversed the other way) get the same edge numbering. *)
From Coq Require Import Sorting.Permutation Sorting.Sorted Classes.RelationClasses ZifyBool.
From Verif Require Import Base C02 C02_proofs C02_check C02_check_proofs C02_sup C02_sup_proofs.

Definition ltP (p q : Z * Z) : Prop := fst p < fst q \/ (fst p = fst q /\ snd p < snd q).

Lemma lebP_neq_ltP p q : lebP p q -> p <> q -> ltP p q.
Proof.
  destruct p as [a b], q as [c d]; unfold lebP, is_true, PairOrder.leb, ltP; simpl. intros H Hne.
  assert (~ (a = c /\ b = d)) by (intros [-> ->]; apply Hne; reflexivity). lia.
Qed.

Theorem edges_strictly_ascending t : StronglySorted ltP (edges t).
Proof.
  pose proof (edges_sorted t) as HS. pose proof (edges_NoDup t) as HN.
  induction HS as [|a l HS IH Hall]; [constructor|].
  inversion HN as [|? ? Hnotin HN']; subst. constructor; [apply IH; exact HN'|].
  rewrite Forall_forall in *. intros x Hx. apply lebP_neq_ltP; [apply Hall, Hx|]. intros ->. contradiction.
Qed.

Theorem edges_determined_by_segments m1 m2 t1 t2 : std_table m1 t1 -> std_table m2 t2 ->
  (forall q, In q (spec_pairs t1) <-> In q (spec_pairs t2)) -> edges t1 = edges t2.
Proof.
  intros H1 H2 Hsame. apply sorted_perm_eq; try apply edges_sorted.
  apply NoDup_Permutation; try apply edges_NoDup.
  intros q. rewrite (edges_iff m1 t1 q H1), (edges_iff m2 t2 q H2). apply Hsame.
Qed.
