(* The edge table a subset carries over from its source IS the edge table derived on the subset: same segments,
   same order, so that (a) face_edge_connectivity derived on the subset indexes it correctly and (b) edge-centred
   data sliced with subgrid_edge_indices sit on the same physical edges. *)
From Coq Require Import Sorting.Sorted Sorting.Permutation Classes.RelationClasses ZifyBool.
From Verif Require Import Base C02 C02_proofs C02_check C02_check_proofs C02_sup C02_sup_proofs
                          C09 C09_proofs C09_commute_proofs C09_edges.
Local Open Scope Z_scope.

Lemma c09_pmap_eq f q : c09_pmap f q = pmap f q.
Proof. reflexivity. Qed.

Lemma sorted_nth_le (l : list (Z * Z)) : StronglySorted lebP l ->
  forall i j, (i < j)%nat -> (j < length l)%nat -> lebP (nthP l i) (nthP l j).
Proof.
  induction 1 as [|a l HS IH Hall]; intros i j Hij Hj; simpl in Hj; [lia|].
  destruct j as [|j]; [lia|]. destruct i as [|i]; unfold nthP; simpl.
  - rewrite Forall_forall in Hall. apply Hall. apply nth_In. lia.
  - apply IH; lia.
Qed.

Lemma NoDup_map_in_inj {A B} (f : A -> B) (l : list A) :
  NoDup l -> (forall x y, In x l -> In y l -> f x = f y -> x = y) -> NoDup (map f l).
Proof.
  induction 1 as [|a l Ha Hnd IH]; intros Hinj; simpl; constructor.
  - intros Hin. apply in_map_iff in Hin. destruct Hin as (y & Hy & Hyl).
    assert (y = a) by (apply Hinj; [right; exact Hyl|left; reflexivity|exact Hy]). subst y. contradiction.
  - apply IH. intros x y Hx Hy. apply Hinj; right; assumption.
Qed.

(* every derived edge is stored with its smaller node first, whatever the table *)
Lemma map_norm_edges_any t : map norm_pair (edges t) = edges t.
Proof.
  rewrite <- (map_id (edges t)) at 2. apply map_ext_in. intros q Hq.
  unfold edges, build_edges in Hq. cbn [er_edges] in Hq. apply filter_In in Hq. destruct Hq as [Hq _].
  rewrite C02_proofs.unique_In in Hq. unfold all_pairs in Hq. apply in_map_iff in Hq. destruct Hq as (p & <- & _).
  apply norm_pair_idem.
Qed.

Section SliceEdges.
Variables (m : nat) (T : table) (idx : list Z).
Hypothesis Hstd : std_table m T.
Hypothesis Hidx : Forall (fun i => 0 <= i < Z.of_nat (length T)) idx.

Local Notation E := (edges T).
Local Notation FE := (face_edges T m).
Local Notation ei := (c09_edge_indices FE idx).

Lemma rows_std : std_table m (c09_rows T idx).
Proof.
  unfold std_table, c09_rows in *. apply Forall_forall. intros r Hr. apply in_map_iff in Hr.
  destruct Hr as (i & <- & Hi). rewrite Forall_forall in Hstd, Hidx. apply Hstd. apply nth_In.
  specialize (Hidx i Hi). lia.
Qed.

Lemma row_of_idx i : In i idx -> nth_error T (Z.to_nat i) = Some (nth (Z.to_nat i) T []).
Proof.
  intros Hi. rewrite Forall_forall in Hidx. specialize (Hidx i Hi). apply nth_error_nth'. lia.
Qed.

(* every recorded edge index is a real row of the source's edge table, reached from a corner pair of a selected face *)
Lemma ei_char e : In e ei <->
  exists i r j e0, In i idx /\ nth_error T (Z.to_nat i) = Some r /\ (j < first_fill r)%nat /\ e = Z.of_nat e0 /\
     nth_error E e0 = Some (norm_pair (nthP (cyc_pairs (corners r)) j)).
Proof.
  unfold c09_edge_indices. rewrite faces_touching_spec. split.
  - intros (Hne & i & Hi & Hin).
    pose proof (row_of_idx i Hi) as Hr. set (r := nth (Z.to_nat i) T []) in *.
    destruct (face_edge_spec m T (Z.to_nat i) r Hstd Hr) as (fe & Hfe & Hlen & Hreal & Hpad).
    assert (Hin' : In e fe) by (erewrite <- nth_error_nth; [exact Hin|exact Hfe]). clear Hin. rename Hin' into Hin.
    destruct (In_nth_error _ _ Hin) as (j & Hj).
    assert (Hjm : (j < m)%nat) by (rewrite <- Hlen; apply nth_error_Some; rewrite Hj; discriminate).
    destruct (Nat.lt_ge_cases j (first_fill r)) as [Hlt|Hge].
    + destruct (Hreal j Hlt) as (e0 & He0 & Hq). rewrite Hj in He0. inversion He0; subst e.
      exists i, r, j, e0. repeat split; assumption.
    + rewrite (Hpad j (conj Hge Hjm)) in Hj. inversion Hj. congruence.
  - intros (i & r & j & e0 & Hi & Hr & Hj & -> & Hq). split; [unfold FILL; lia|].
    exists i. split; [exact Hi|].
    destruct (face_edge_spec m T (Z.to_nat i) r Hstd Hr) as (fe & Hfe & Hlen & Hreal & Hpad).
    assert (Hn : nth (Z.to_nat i) FE [] = fe) by (apply nth_error_nth; exact Hfe).
    destruct (Hreal j Hj) as (e1 & He1 & Hq1).
    assert (e1 = e0).
    { apply (proj1 (NoDup_nth_error E) (edges_NoDup T) e1 e0).
      - apply nth_error_Some. rewrite Hq1. discriminate.
      - rewrite Hq1, Hq. reflexivity. }
    subst e1. pose proof (nth_error_In _ _ He1) as HIn. rewrite <- Hn in HIn. exact HIn.
Qed.

Lemma ei_range e : In e ei -> 0 <= e < Z.of_nat (length E).
Proof.
  intros H. apply ei_char in H. destruct H as (i & r & j & e0 & _ & _ & _ & -> & Hq).
  assert (e0 < length E)%nat by (apply nth_error_Some; rewrite Hq; discriminate). lia.
Qed.

Lemma row_cyc_len r : In r T -> first_fill r = length (cyc_pairs (corners r)).
Proof.
  intros Hr. unfold std_table in Hstd. rewrite Forall_forall in Hstd. destruct (Hstd r Hr) as [_ Hsr].
  destruct (std_row_inv r Hsr) as (c & n & _ & _ & Hcor & Hff). rewrite Hcor, cyc_pairs_length. exact Hff.
Qed.

(* the picked rows are exactly the segments of the selected faces *)
Lemma pick_In q : In q (c09_pick_edges E ei) <-> In q (edges (c09_rows T idx)).
Proof.
  rewrite (edges_iff m (c09_rows T idx) q rows_std). unfold c09_pick_edges, spec_pairs.
  rewrite !in_map_iff. split.
  - intros (e & <- & He). apply ei_char in He. destruct He as (i & r & j & e0 & Hi & Hr & Hj & -> & Hq).
    exists (nthP (cyc_pairs (corners r)) j). split.
    + unfold nthP at 2. rewrite Nat2Z.id. symmetry. apply nth_error_nth. exact Hq.
    + apply in_flat_map. exists r. split.
      * unfold c09_rows. apply in_map_iff. exists i. split; [|exact Hi]. apply nth_error_nth. exact Hr.
      * unfold nthP. apply nth_In. rewrite <- (row_cyc_len r (nth_error_In _ _ Hr)). exact Hj.
  - intros (p & <- & Hp). apply in_flat_map in Hp. destruct Hp as (r & Hr & Hp).
    unfold c09_rows in Hr. apply in_map_iff in Hr. destruct Hr as (i & Hri & Hi).
    pose proof (row_of_idx i Hi) as Hnr. rewrite Hri in Hnr.
    destruct (In_nth _ _ (FILL, FILL) Hp) as (j & Hj & Hjp).
    rewrite <- (row_cyc_len r (nth_error_In _ _ Hnr)) in Hj.
    destruct (face_edge_spec m T (Z.to_nat i) r Hstd Hnr) as (fe & _ & _ & Hreal & _).
    destruct (Hreal j Hj) as (e0 & _ & Hq). unfold nthP in Hq. rewrite Hjp in Hq.
    exists (Z.of_nat e0). split.
    + unfold nthP. rewrite Nat2Z.id. apply nth_error_nth. exact Hq.
    + apply ei_char. exists i, r, j, e0. repeat split; try assumption. unfold nthP. rewrite Hjp. exact Hq.
Qed.

Lemma pick_sorted : StronglySorted lebP (c09_pick_edges E ei).
Proof.
  pose proof (faces_touching_sorted FE idx) as Hs. fold ei in Hs.
  assert (Hr : forall e, In e ei -> 0 <= e < Z.of_nat (length E)) by apply ei_range.
  unfold c09_pick_edges. induction Hs as [|a l Hs IH Hall]; simpl; constructor.
  - apply IH. intros e He. apply Hr. right. exact He.
  - rewrite Forall_forall in *. intros q Hq. apply in_map_iff in Hq. destruct Hq as (b & <- & Hb).
    specialize (Hall b Hb). pose proof (Hr a (or_introl eq_refl)). pose proof (Hr b (or_intror Hb)).
    apply sorted_nth_le; [apply edges_sorted|lia|lia].
Qed.

Lemma pick_NoDup : NoDup (c09_pick_edges E ei).
Proof.
  unfold c09_pick_edges. apply NoDup_map_in_inj; [apply faces_touching_NoDup|].
  intros x y Hx Hy Heq. pose proof (ei_range x Hx). pose proof (ei_range y Hy).
  assert (Z.to_nat x = Z.to_nat y); [|lia].
  apply (proj1 (NoDup_nth E (FILL, FILL)) (edges_NoDup T)); [lia|lia|exact Heq].
Qed.

(* the rows picked from the source's table, in recorded order, ARE the edge table of the selected rows *)
Theorem pick_edges_eq : c09_pick_edges E ei = edges (c09_rows T idx).
Proof.
  apply sorted_perm_eq; [apply pick_sorted|apply edges_sorted|].
  apply NoDup_Permutation; [apply pick_NoDup|apply edges_NoDup|apply pick_In].
Qed.

(* hence the table the subset carries over equals the table derived on the subset *)
Theorem slice_edge_table_eq :
  fst (c09_slice_edge_table T m idx) = edges (fst (c09_slice_faces T idx)).
Proof.
  unfold c09_slice_edge_table. cbn [fst]. rewrite pick_edges_eq.
  rewrite slice_edges_commute.
  - unfold c09_slice_faces. cbn [snd]. apply map_ext. intros q. apply c09_pmap_eq.
  - pose proof rows_std as Hrs. unfold std_table in Hrs. apply Forall_forall. intros r Hr.
    rewrite Forall_forall in Hrs. destruct (Hrs r Hr) as [_ Hsr].
    destruct (std_row_inv r Hsr) as (c & n & -> & Hc & _ & _).
    apply Forall_app. split.
    + eapply Forall_impl; [|exact Hc]. simpl. intros x Hx. right. exact Hx.
    + apply Forall_forall. intros x Hx. apply repeat_spec in Hx. left. exact Hx.
Qed.

(* so the subset's own derivation accepts and keeps it (C02_sup) *)
Corollary slice_edge_table_accepted :
  sup_accepts (fst (c09_slice_faces T idx)) (fst (c09_slice_edge_table T m idx)) = true.
Proof.
  apply sup_accepts_complete. rewrite slice_edge_table_eq, map_norm_edges_any. apply Permutation_refl.
Qed.

End SliceEdges.

(* non-vacuity: faces 2 and 0 of three; the carried table equals the table derived on the subset *)
Example slice_edge_table_ex :
  let T := [[0;1;2;FILL];[1;3;4;2];[5;1;0;FILL]] in
  c09_slice_edge_table T 4 [2;0] = ([(0,1);(0,2);(0,3);(1,2);(1,3)], [0;1;2;3;5])
  /\ edges (fst (c09_slice_faces T [2;0])) = [(0,1);(0,2);(0,3);(1,2);(1,3)]
  /\ c09_slice_edge_table_of T (edges T) (face_edges T 4) [2;0] = c09_slice_edge_table T 4 [2;0].
Proof. vm_compute. repeat split. Qed.
