From Coq Require Import ZifyBool.
From Verif Require Import Base C09_efd.
Local Open Scope Z_scope.

(* the repaired slice carries exactly what the subset would derive on its own, for every edge with at most two faces *)
Theorem efd_carried_is_derived dist sel l : (length l <= 2)%nat ->
  c09_efd_carried dist sel l = c09_efd_derived dist (c09_efd_kept sel l).
Proof.
  unfold c09_efd_carried, c09_efd_kept.
  destruct l as [|a [|b [|c l]]]; simpl; intros H; try lia; try reflexivity.
  - destruct (sel a); reflexivity.
  - destruct (sel a), (sel b); reflexivity.
Qed.

(* hence the table does not depend on whether the source had computed its distances before slicing: carried or derived
   afresh, the subset reports the same value *)
Corollary efd_history_independent dist sel l : (length l <= 2)%nat ->
  c09_efd_carried dist sel l = c09_efd_derived dist (filter sel l).
Proof. exact (efd_carried_is_derived dist sel l). Qed.

(* boundary edges of the subset report zero; edges keeping both faces report the source's value *)
Theorem efd_boundary_zero dist sel l : (length (filter sel l) < 2)%nat -> c09_efd_carried dist sel l = 0.
Proof. unfold c09_efd_carried, c09_efd_kept. intros H. destruct (Nat.ltb_spec (length (filter sel l)) 2); [reflexivity|lia]. Qed.

Theorem efd_interior_kept dist sel a b : sel a = true -> sel b = true ->
  c09_efd_carried dist sel [a; b] = dist a b.
Proof. intros Ha Hb. unfold c09_efd_carried, c09_efd_kept. simpl. rewrite Ha, Hb. reflexivity. Qed.

(* the code before the repair: an interior edge of the source that the selection leaves with one face keeps the source's
   non-zero distance, while the subset derives zero *)
Theorem efd_old_refuted : exists dist sel l, (length l <= 2)%nat /\
  c09_efd_carried_old dist l <> c09_efd_derived dist (c09_efd_kept sel l).
Proof.
  exists (fun a b => 1 + Z.abs (a - b)), (fun f => f =? 0), [0; 1]. split; [simpl; lia|]. vm_compute. discriminate.
Qed.
