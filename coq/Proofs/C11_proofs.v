(* C11_proofs.v — proofs about the neighbour-query model (coq/Model/C11.v). *)
From Coq Require Import ZArith List Bool Lia Permutation Sorted ZifyBool.
From Verif Require Import Base C11 C11_keys.
Import ListNotations.
Open Scope Z_scope.

(* ------------------------------------------------------------------------------------------ *)
(* brute force: sort facts                                                                    *)

Definition c11_le (a b : Z * nat) : Prop := fst a <= fst b.

Lemma c11_insert_perm : forall x l, Permutation (c11_insert x l) (x :: l).
Proof.
  induction l as [|y l IH]; cbn [c11_insert]; auto.
  destruct (fst y <? fst x); auto.
  eapply perm_trans; [apply perm_skip, IH | apply perm_swap].
Qed.

Lemma c11_sort_perm : forall l, Permutation (c11_sort l) l.
Proof.
  induction l as [|x l IH]; cbn [c11_sort fold_right]; auto.
  eapply perm_trans; [apply c11_insert_perm | apply perm_skip, IH].
Qed.

Lemma c11_insert_sorted : forall x l, StronglySorted c11_le l -> StronglySorted c11_le (c11_insert x l).
Proof.
  induction l as [|y l IH]; intros H; cbn [c11_insert].
  - repeat constructor.
  - inversion H as [|? ? Hs Hf]; subst.
    destruct (fst y <? fst x) eqn:E.
    + constructor; auto.
      eapply Permutation_Forall; [apply Permutation_sym, c11_insert_perm|].
      constructor; auto. unfold c11_le. lia.
    + constructor; auto. constructor.
      * unfold c11_le. lia.
      * eapply Forall_impl; [|exact Hf]. unfold c11_le. intros; lia.
Qed.

Lemma c11_sort_sorted : forall l, StronglySorted c11_le (c11_sort l).
Proof.
  induction l; cbn [c11_sort fold_right]; [constructor | apply c11_insert_sorted; auto].
Qed.

(* stability: among equal keys the earlier entry stays first *)
Lemma c11_insert_head_stable : forall x l, Forall (fun y => fst x <= fst y) l -> c11_insert x l = x :: l.
Proof.
  destruct l as [|y l]; intros H; cbn [c11_insert]; auto.
  inversion H; subst. destruct (fst y <? fst x) eqn:E; auto. lia.
Qed.

(* ------------------------------------------------------------------------------------------ *)
(* enumeration                                                                                *)

Lemma c11_enum_In : forall keys i d j,
  In (d, j) (c11_enum i keys) <-> (i <= j)%nat /\ nth_error keys (j - i) = Some d.
Proof.
  induction keys as [|a keys IH]; intros i d j; cbn [c11_enum].
  - split; [intros [] | intros [_ H]; destruct (j - i)%nat; discriminate].
  - split.
    + intros [H | H].
      * inversion H; subst. split; [lia|]. replace (j - j)%nat with 0%nat by lia. reflexivity.
      * apply IH in H. destruct H as [H1 H2]. split; [lia|].
        replace (j - i)%nat with (S (j - S i)) by lia. exact H2.
    + intros [H1 H2]. destruct (Nat.eq_dec i j) as [->|Hne].
      * left. replace (j - j)%nat with 0%nat in H2 by lia. cbn in H2. inversion H2. reflexivity.
      * right. apply IH. split; [lia|].
        replace (j - i)%nat with (S (j - S i)) in H2 by lia. exact H2.
Qed.

Lemma c11_enum_snd : forall keys i, map snd (c11_enum i keys) = seq i (length keys).
Proof. induction keys; intros; cbn [c11_enum map seq length]; [|rewrite IHkeys]; reflexivity. Qed.

Lemma c11_enum_length : forall keys i, length (c11_enum i keys) = length keys.
Proof. induction keys; intros; cbn [c11_enum length]; [|rewrite IHkeys]; reflexivity. Qed.

(* ------------------------------------------------------------------------------------------ *)
(* k nearest                                                                                  *)

Lemma c11_sorted_app : forall l1 l2, StronglySorted c11_le (l1 ++ l2) ->
  forall a b, In a l1 -> In b l2 -> c11_le a b.
Proof.
  induction l1 as [|x l1 IH]; intros l2 H a b Ha Hb; [destruct Ha|].
  cbn in H. inversion H as [|? ? Hs Hf]; subst.
  destruct Ha as [<-|Ha].
  - rewrite Forall_forall in Hf. apply Hf, in_or_app; auto.
  - eapply IH; eauto.
Qed.

Lemma c11_NoDup_app_l : forall (A : Type) (l1 l2 : list A), NoDup (l1 ++ l2) -> NoDup l1.
Proof.
  induction l1 as [|x l1 IH]; intros l2 H; [constructor|].
  cbn in H. inversion H; subst. constructor; [|eapply IH; eauto].
  intros Hin. apply H2, in_or_app. auto.
Qed.

Lemma c11_firstn_In : forall (A : Type) k (l : list A) x, In x (firstn k l) -> In x l.
Proof. intros A k l x H. rewrite <- (firstn_skipn k l). apply in_or_app. auto. Qed.

Lemma c11_sorted_firstn : forall k l, StronglySorted c11_le l -> StronglySorted c11_le (firstn k l).
Proof.
  induction k; intros [|x l] H; cbn [firstn]; try constructor.
  - inversion H; subst. apply IHk; auto.
  - inversion H as [|? ? Hs Hf]; subst. rewrite Forall_forall in *. intros y Hy.
    apply Hf. rewrite <- (firstn_skipn k l). apply in_or_app; auto.
Qed.

(* the specification of a k-nearest query result against the list of true distances (keys):
   min(k, n) entries, distinct valid indices each paired with its own key, nearest first, and no
   element left out is strictly nearer than one returned *)
Definition c11_knn_ok (keys : list Z) (k : nat) (res : list (Z * nat)) : Prop :=
  length res = Nat.min k (length keys)
  /\ NoDup (map snd res)
  /\ (forall p, In p res -> nth_error keys (snd p) = Some (fst p))
  /\ StronglySorted c11_le res
  /\ (forall j d, nth_error keys j = Some d -> ~ In j (map snd res) -> forall p, In p res -> fst p <= d).

Lemma c11_knn_spec : forall keys k, c11_knn_ok keys k (c11_knn keys k).
Proof.
  intros keys k. unfold c11_knn_ok, c11_knn.
  set (s := c11_sort (c11_enum 0 keys)).
  assert (Hp : Permutation s (c11_enum 0 keys)) by apply c11_sort_perm.
  assert (Hs : StronglySorted c11_le s) by apply c11_sort_sorted.
  assert (Hnd : NoDup (map snd s)).
  { eapply Permutation_NoDup; [apply Permutation_map, Permutation_sym, Hp|].
    rewrite c11_enum_snd. apply seq_NoDup. }
  repeat split.
  - rewrite firstn_length. rewrite (Permutation_length Hp), c11_enum_length. reflexivity.
  - rewrite <- (firstn_skipn k s), map_app in Hnd. apply c11_NoDup_app_l in Hnd. exact Hnd.
  - intros [d j] Hin. apply c11_firstn_In in Hin.
    apply (Permutation_in _ Hp) in Hin. apply c11_enum_In in Hin. destruct Hin as [_ H].
    cbn [fst snd]. replace (j - 0)%nat with j in H by lia. exact H.
  - apply c11_sorted_firstn, Hs.
  - intros j d Hj Hnot p Hin.
    assert (Hin2 : In (d, j) s).
    { apply (Permutation_in _ (Permutation_sym Hp)). apply c11_enum_In. split; [lia|].
      replace (j - 0)%nat with j by lia. exact Hj. }
    rewrite <- (firstn_skipn k s) in Hin2. apply in_app_or in Hin2. destruct Hin2 as [H|H].
    + exfalso. apply Hnot. change j with (snd (d, j)). apply in_map, H.
    + rewrite <- (firstn_skipn k s) in Hs.
      apply (c11_sorted_app _ _ Hs p (d, j) Hin H).
Qed.

(* any two results meeting the specification carry the same distances position by position:
   the specification fixes the answer up to exact ties *)
Lemma c11_sorted_le_unique : forall l1 l2 : list Z,
  Sorted Z.le l1 -> Sorted Z.le l2 -> Permutation l1 l2 -> l1 = l2.
Proof.
  induction l1 as [|a l1 IH]; intros l2 H1 H2 Hp.
  - apply Permutation_nil in Hp. auto.
  - destruct l2 as [|b l2]; [apply Permutation_sym, Permutation_nil in Hp; discriminate|].
    assert (Hs1 := Sorted_StronglySorted Z.le_trans H1).
    assert (Hs2 := Sorted_StronglySorted Z.le_trans H2).
    inversion Hs1 as [|? ? Hs1' Hf1]; inversion Hs2 as [|? ? Hs2' Hf2]; subst.
    rewrite Forall_forall in Hf1, Hf2.
    assert (a = b).
    { assert (Ha : In a (b :: l2)) by (eapply Permutation_in; [exact Hp | left; auto]).
      assert (Hb : In b (a :: l1)) by (eapply Permutation_in; [apply Permutation_sym, Hp | left; auto]).
      destruct Ha as [->|Ha]; auto. destruct Hb as [->|Hb]; auto.
      apply Hf2 in Ha. apply Hf1 in Hb. lia. }
    subst b. f_equal. apply IH.
    + inversion H1; auto.
    + inversion H2; auto.
    + eapply Permutation_cons_inv; eauto.
Qed.

(* ------------------------------------------------------------------------------------------ *)
(* the answer as a sorted prefix of the brute-force list; invariance under renumbering        *)

Lemma c11_enum_fst : forall keys i, map fst (c11_enum i keys) = keys.
Proof. induction keys; intros; cbn [c11_enum map fst]; [|rewrite IHkeys]; reflexivity. Qed.

Lemma c11_sort_keys_sorted : forall l, Sorted Z.le (map fst (c11_sort l)).
Proof.
  intros l. pose proof (c11_sort_sorted l) as H. induction H as [|a l' Hs IH Hf]; cbn [map]; [constructor|].
  constructor; auto. destruct l' as [|b l'']; cbn [map]; constructor.
  inversion Hf; subst. assumption.
Qed.

(* the distances of the k nearest are the first k entries of the sorted list of all distances *)
Lemma c11_knn_sorted_prefix : forall keys k,
  exists sorted, Sorted Z.le sorted /\ Permutation sorted keys /\ map fst (c11_knn keys k) = firstn k sorted.
Proof.
  intros keys k. exists (map fst (c11_sort (c11_enum 0 keys))). split; [apply c11_sort_keys_sorted|]. split.
  - rewrite <- (c11_enum_fst keys 0) at 2. apply Permutation_map, c11_sort_perm.
  - unfold c11_knn. symmetry. apply firstn_map.
Qed.

(* renumbering the elements (any permutation of the distance list) does not change the distances
   answered, position by position: the answer is determined up to exact ties *)
Lemma c11_knn_permutation_invariant : forall keys1 keys2 k, Permutation keys1 keys2 ->
  map fst (c11_knn keys1 k) = map fst (c11_knn keys2 k).
Proof.
  intros keys1 keys2 k Hp. unfold c11_knn. rewrite <- !firstn_map. f_equal.
  apply c11_sorted_le_unique; try apply c11_sort_keys_sorted.
  eapply perm_trans; [apply Permutation_map, c11_sort_perm|].
  eapply perm_trans; [|apply Permutation_sym, Permutation_map, c11_sort_perm].
  rewrite !c11_enum_fst. exact Hp.
Qed.

Example c11_knn_permutation_nonvacuous :
  map fst (c11_knn [5; 1; 7; 1; 0] 3) = [0; 1; 1] /\ map fst (c11_knn [1; 0; 1; 7; 5] 3) = [0; 1; 1].
Proof. split; reflexivity. Qed.

(* tie rule of the model (sklearn: "ties aside"): among equal distances the lower index comes first *)
Definition c11_le2 (a b : Z * nat) : Prop := fst a < fst b \/ (fst a = fst b /\ (snd a <= snd b)%nat).

Lemma c11_insert_sorted2 : forall x l, StronglySorted c11_le2 l -> Forall (fun y => (snd x < snd y)%nat) l ->
  StronglySorted c11_le2 (c11_insert x l).
Proof.
  induction l as [|y l IH]; intros Hs Hf; cbn [c11_insert]; [repeat constructor|].
  inversion Hs as [|? ? Hs' Hfy]; subst. inversion Hf as [|? ? Hxy Hf']; subst.
  destruct (fst y <? fst x) eqn:E.
  - constructor; [apply IH; auto|].
    eapply Permutation_Forall; [apply Permutation_sym, c11_insert_perm|]. constructor; auto.
    left. lia.
  - constructor; [constructor; auto|]. constructor.
    + unfold c11_le2. destruct (Z.eq_dec (fst x) (fst y)); [right; split; lia | left; lia].
    + rewrite Forall_forall in *. intros z Hz. specialize (Hfy z Hz). specialize (Hf' z Hz).
      unfold c11_le2 in *. destruct (Z.eq_dec (fst x) (fst z)); [right; split; lia | left; lia].
Qed.

Lemma c11_enum_snd_ge : forall keys i p, In p (c11_enum i keys) -> (i <= snd p)%nat.
Proof.
  intros keys i [d j] H. apply c11_enum_In in H. cbn. lia.
Qed.

Lemma c11_sort_enum_sorted2 : forall keys i, StronglySorted c11_le2 (c11_sort (c11_enum i keys)).
Proof.
  induction keys as [|a keys IH]; intros i; cbn [c11_enum c11_sort fold_right]; [constructor|].
  apply c11_insert_sorted2; [apply IH|].
  rewrite Forall_forall. intros y Hy. cbn [snd].
  apply (Permutation_in _ (c11_sort_perm _)) in Hy. apply c11_enum_snd_ge in Hy. lia.
Qed.

(* every returned entry precedes every later one in (distance, index) order: in particular the nearest
   element is, among the minimal distances, the one with the lowest index *)
Lemma c11_knn_tie_rule : forall keys k, StronglySorted c11_le2 (c11_knn keys k).
Proof.
  intros. unfold c11_knn. pose proof (c11_sort_enum_sorted2 keys 0%nat) as H.
  revert H. generalize (c11_sort (c11_enum 0 keys)). intros l. revert k.
  induction l as [|x l IH]; intros k H; destruct k; cbn [firstn]; try constructor.
  - inversion H; subst. apply IH; auto.
  - inversion H as [|? ? Hs Hf]; subst. rewrite Forall_forall in *. intros y Hy. apply Hf.
    rewrite <- (firstn_skipn k l). apply in_or_app; auto.
Qed.

Example c11_knn_tie_rule_nonvacuous : c11_knn [3; 1; 1; 0; 0] 4 = [(0, 3%nat); (0, 4%nat); (1, 1%nat); (1, 2%nat)].
Proof. reflexivity. Qed.

(* ------------------------------------------------------------------------------------------ *)
(* radius                                                                                     *)

Lemma c11_within_spec : forall keys rk d j,
  In (d, j) (c11_within keys rk) <-> nth_error keys j = Some d /\ d <= rk.
Proof.
  intros. unfold c11_within. rewrite filter_In, c11_enum_In. cbn [fst].
  replace (j - 0)%nat with j by lia. split.
  - intros [[_ H] H2]. split; auto. lia.
  - intros [H H2]. split; [split; [lia|auto] | lia].
Qed.

Lemma c11_within_NoDup : forall keys rk, NoDup (map snd (c11_within keys rk)).
Proof.
  intros. unfold c11_within.
  assert (H : forall (l : list (Z * nat)) f, NoDup (map snd l) -> NoDup (map snd (filter f l))).
  { induction l as [|x l IH]; intros f Hn; cbn [filter map]; auto.
    inversion Hn; subst. destruct (f x); cbn [map]; auto.
    constructor; auto. intros Hin. apply H1. apply in_map_iff in Hin.
    destruct Hin as [y [Hy1 Hy2]]. apply filter_In in Hy2. rewrite <- Hy1. apply in_map, Hy2. }
  apply H. rewrite c11_enum_snd. apply seq_NoDup.
Qed.

(* the squared key decides "distance <= r" for r >= 0 *)
Lemma c11_rkey_sq : forall d r, 0 <= d -> 0 <= r -> (d * d <= r * r <-> d <= r).
Proof. intros; nia. Qed.

(* ------------------------------------------------------------------------------------------ *)
(* keys                                                                                       *)

Lemma c11_sq_nonneg : forall p q, 0 <= c11_sq p q.
Proof.
  induction p as [|a p IH]; destruct q as [|b q]; cbn [c11_sq]; try lia.
  specialize (IH q). pose proof (Z.square_nonneg (a - b)). lia.
Qed.
Lemma c11_l1_nonneg : forall p q, 0 <= c11_l1 p q.
Proof. induction p as [|a p IH]; destruct q as [|b q]; cbn [c11_l1]; try lia; specialize (IH q); lia. Qed.
Lemma c11_linf_nonneg : forall p q, 0 <= c11_linf p q.
Proof. induction p as [|a p IH]; destruct q as [|b q]; cbn [c11_linf]; try lia; specialize (IH q); lia. Qed.

Lemma c11_key_nonneg : forall m p q, 0 <= c11_key m p q.
Proof. destruct m; intros; cbn [c11_key]; auto using c11_sq_nonneg, c11_l1_nonneg, c11_linf_nonneg. Qed.

Lemma c11_key_self : forall m p, c11_key m p p = 0.
Proof.
  assert (forall p, c11_sq p p = 0) by (induction p; cbn [c11_sq]; try lia; rewrite IHp; lia).
  assert (forall p, c11_l1 p p = 0) by (induction p; cbn [c11_l1]; try lia; rewrite IHp; lia).
  assert (forall p, c11_linf p p = 0) by (induction p; cbn [c11_linf]; try lia; rewrite IHp; lia).
  destruct m; intros; cbn [c11_key]; auto.
Qed.

Lemma c11_key_sym : forall m p q, c11_key m p q = c11_key m q p.
Proof.
  assert (forall p q, c11_sq p q = c11_sq q p)
    by (induction p; destruct q; cbn [c11_sq]; try lia; rewrite (IHp q); lia).
  assert (forall p q, c11_l1 p q = c11_l1 q p)
    by (induction p; destruct q; cbn [c11_l1]; try lia; rewrite (IHp q); lia).
  assert (forall p q, c11_linf p q = c11_linf q p)
    by (induction p; destruct q; cbn [c11_linf]; try lia; rewrite (IHp q); lia).
  destruct m; intros; cbn [c11_key]; auto.
Qed.

(* positive rescaling (a change of unit such as deg2rad) does not change any comparison of keys *)
Lemma c11_sq_scale : forall c p q, c11_sq (map (Z.mul c) p) (map (Z.mul c) q) = c * c * c11_sq p q.
Proof. induction p; destruct q; cbn [c11_sq map]; try lia. rewrite IHp. lia. Qed.

(* ------------------------------------------------------------------------------------------ *)
(* prepared query and tree coordinates line up                                                *)

(* a documented query for one element position: haversine ball trees take (lon, lat), k-d trees on
   spherical coordinates take (lat, lon); degrees *)
Definition c11_doc_query (m : c11_metric) (lon lat : Z) : c11_pt :=
  match m with C11Hav => [lon; lat] | _ => [lat; lon] end.

Lemma c11_prepare_xy_deg : forall num T m lon lat,
  c11_prepare_xy num T [c11_doc_query m lon lat] false m
  = Some [[c11_deg2rad num lat; c11_deg2rad num lon]].
Proof. intros. destruct m; reflexivity. Qed.

Lemma c11_prepare_xy_rad : forall num T m lon lat,
  c11_prepare_xy num T [c11_doc_query m lon lat] true m
  = Some [[c11_rad_units T lat; c11_rad_units T lon]].
Proof. intros. destruct m; reflexivity. Qed.

Lemma c11_zip2_nth : forall a b i x y, nth_error a i = Some x -> nth_error b i = Some y ->
  nth_error (c11_zip2 a b) i = Some [x; y].
Proof.
  induction a as [|a0 a IH]; intros b i x y Ha Hb; [destruct i; discriminate|].
  destruct b as [|b0 b]; [destruct i; discriminate|].
  destruct i; cbn in *; [inversion Ha; inversion Hb; reflexivity | apply IH; auto].
Qed.

Lemma c11_zip3_nth : forall a b c i x y z, nth_error a i = Some x -> nth_error b i = Some y ->
  nth_error c i = Some z -> nth_error (c11_zip3 a b c) i = Some [x; y; z].
Proof.
  induction a as [|a0 a IH]; intros b c i x y z Ha Hb Hc; [destruct i; discriminate|].
  destruct b as [|b0 b]; [destruct i; discriminate|].
  destruct c as [|c0 c]; [destruct i; discriminate|].
  destruct i; cbn in *; [inversion Ha; inversion Hb; inversion Hc; reflexivity | apply IH; auto].
Qed.

(* element i of the requested kind sits in the spherical tree at (deg2rad lat_i, deg2rad lon_i) of
   that kind's own arrays, and a documented degree query at its position is prepared to the very
   same point: key 0 *)
Lemma c11_tree_coords_spherical : forall num g kd i lon lat,
  nth_error (cs_lon (c11_select g kd)) i = Some lon ->
  nth_error (cs_lat (c11_select g kd)) i = Some lat ->
  nth_error (c11_tree_coords num g kd C11Spherical) i = Some [c11_deg2rad num lat; c11_deg2rad num lon].
Proof.
  intros. cbn [c11_tree_coords]. apply c11_zip2_nth; apply map_nth_error; auto.
Qed.

Lemma c11_tree_coords_cartesian : forall num g kd i x y z,
  nth_error (cs_x (c11_select g kd)) i = Some x ->
  nth_error (cs_y (c11_select g kd)) i = Some y ->
  nth_error (cs_z (c11_select g kd)) i = Some z ->
  nth_error (c11_tree_coords num g kd C11Cartesian) i = Some [x; y; z].
Proof. intros. cbn [c11_tree_coords]. apply c11_zip3_nth; auto. Qed.

(* the query functions are brute force over exactly those coordinates *)
Lemma c11_query_spec : forall num T g kd s m q rad k res,
  c11_query num T g kd s m q rad k = Some res ->
  (1 <= k <= c11_n_elements g kd)%nat /\
  exists pq, c11_prepare num T s m q rad = Some pq /\ length res = length pq /\
    forall i p r, nth_error pq i = Some p -> nth_error res i = Some r ->
      c11_knn_ok (c11_keys m (c11_tree_coords num g kd s) p) k r.
Proof.
  intros num T g kd s m q rad k res H. unfold c11_query in H.
  destruct (c11_k_ok (c11_n_elements g kd) k) eqn:Hk; cbn [negb] in H; [|discriminate].
  destruct (c11_prepare num T s m q rad) as [pq|] eqn:Hp; [|discriminate].
  inversion H; subst; clear H. split.
  - unfold c11_k_ok in Hk. lia.
  - exists pq. split; auto. split; [apply map_length|].
    intros i p r Hi Hr. rewrite (map_nth_error _ _ _ Hi) in Hr. inversion Hr; subst.
    apply c11_knn_spec.
Qed.

Lemma c11_query_radius_spec : forall num T pi t g kd s m q rad r res,
  c11_query_radius num T pi t g kd s m q rad r = Some res ->
  0 <= r /\
  exists pq, c11_prepare num T s m q rad = Some pq /\ length res = length pq /\
    forall i p l, nth_error pq i = Some p -> nth_error res i = Some l ->
      NoDup (map snd l) /\
      forall d j, In (d, j) l <->
        nth_error (c11_keys m (c11_tree_coords num g kd s) p) j = Some d
        /\ d <= c11_rkey m (c11_radius_units num T pi t s r).
Proof.
  intros num T pi t g kd s m q rad r res H. unfold c11_query_radius in H.
  destruct (r <? 0) eqn:Hr; [discriminate|].
  destruct (c11_prepare num T s m q rad) as [pq|] eqn:Hp; [|discriminate].
  inversion H; subst; clear H. split; [lia|].
  exists pq. split; auto. split; [apply map_length|].
  intros i p l Hi Hl. rewrite (map_nth_error _ _ _ Hi) in Hl. inversion Hl; subst.
  split; [apply c11_within_NoDup | intros; apply c11_within_spec].
Qed.

(* a documented degree query placed exactly on element i gets that element at distance 0, and
   nothing is nearer *)
Lemma c11_query_own_element : forall num T g kd m i lon lat,
  nth_error (cs_lon (c11_select g kd)) i = Some lon ->
  nth_error (cs_lat (c11_select g kd)) i = Some lat ->
  m <> C11Hav ->
  exists pq, c11_prepare num T C11Spherical m [c11_doc_query m lon lat] false = Some [pq] /\
    nth_error (c11_keys m (c11_tree_coords num g kd C11Spherical) pq) i = Some 0 /\
    forall j d, nth_error (c11_keys m (c11_tree_coords num g kd C11Spherical) pq) j = Some d -> 0 <= d.
Proof.
  intros num T g kd m i lon lat Hlon Hlat Hm.
  exists [c11_deg2rad num lat; c11_deg2rad num lon]. split.
  - cbn [c11_prepare]. apply c11_prepare_xy_deg.
  - split.
    + unfold c11_keys. erewrite map_nth_error; [|apply c11_tree_coords_spherical; eauto].
      rewrite c11_key_self. reflexivity.
    + intros j d H. unfold c11_keys in H. apply nth_error_In, in_map_iff in H.
      destruct H as [x [<- _]]. apply c11_key_nonneg.
Qed.

(* the great-circle radius is read in degrees and clamped at the half turn *)
Lemma c11_radius_units_ball_spherical : forall num T pi r,
  c11_radius_units num T pi C11Ball C11Spherical r = Z.min (c11_deg2rad num r) pi.
Proof. reflexivity. Qed.

(* ------------------------------------------------------------------------------------------ *)
(* squeeze logic / units                                                                      *)

Lemma c11_query_shape_spec : forall nq k,
  c11_query_shape nq k = (if Nat.eqb nq 1 then filter (fun d => negb (Nat.eqb d 1)) [nq; k] else [nq; k]).
Proof.
  intros. unfold c11_query_shape. destruct (Nat.eqb nq 1) eqn:E; auto.
  apply Nat.eqb_eq in E. subst. cbn. destruct (Nat.eqb k 1); reflexivity.
Qed.

(* ------------------------------------------------------------------------------------------ *)
(* cache state machine                                                                        *)

Lemma c11_kind_eqb_eq : forall a b, c11_kind_eqb a b = true <-> a = b.
Proof. destruct a, b; cbn; split; intros; try discriminate; auto. Qed.
Lemma c11_system_eqb_eq : forall a b, c11_system_eqb a b = true <-> a = b.
Proof. destruct a, b; cbn; split; intros; try discriminate; auto. Qed.
Lemma c11_metric_eqb_eq : forall a b, c11_metric_eqb a b = true <-> a = b.
Proof. destruct a, b; cbn; split; intros; try discriminate; auto. Qed.

(* invariant of every object the machine holds: the slot of its current kind is filled and every
   filled slot carries the object's own (system, metric) *)
Definition c11_obj_inv (o : c11_obj) : Prop :=
  c11_slot o (ob_kind o) = Some (ob_sys o, ob_metric o)
  /\ forall k v, c11_slot o k = Some v -> v = (ob_sys o, ob_metric o).

Lemma c11_upd_eq : forall (cur : option (c11_system * c11_metric)) (rc : bool) p,
  (forall v, cur = Some v -> v = p) ->
  match cur with None => Some p | Some v => if rc then Some p else Some v end = Some p.
Proof. intros [v|] rc p H; auto. destruct rc; auto. rewrite (H v eq_refl). reflexivity. Qed.

Lemma c11_build_slot_inv : forall o k,
  (forall k' v, c11_slot o k' = Some v -> v = (ob_sys o, ob_metric o)) -> ob_kind o = k ->
  c11_obj_inv (c11_build_slot o k).
Proof.
  intros [id kd nk sy me rc n f e] k H Hk. cbn in Hk. subst kd.
  assert (Hn := H C11Nodes). assert (Hf := H C11Faces). assert (He := H C11Edges).
  cbn in Hn, Hf, He. clear H. unfold c11_obj_inv.
  destruct k; cbn; (split; [apply c11_upd_eq; auto|]); intros k' v Hv; destruct k'; cbn in Hv; auto.
  - rewrite c11_upd_eq in Hv by auto. inversion Hv; auto.
  - rewrite c11_upd_eq in Hv by auto. inversion Hv; auto.
  - rewrite c11_upd_eq in Hv by auto. inversion Hv; auto.
Qed.

Lemma c11_new_obj_inv : forall id r, c11_obj_inv (c11_new_obj id r).
Proof.
  intros. unfold c11_new_obj. apply c11_build_slot_inv; auto.
  intros k' v Hv. destruct k'; discriminate.
Qed.

Lemma c11_new_obj_fields : forall id r,
  ob_kind (c11_new_obj id r) = rq_kind r /\ ob_sys (c11_new_obj id r) = rq_sys r
  /\ ob_metric (c11_new_obj id r) = rq_metric r.
Proof. intros. unfold c11_new_obj. destruct (rq_kind r); cbn; auto. Qed.

Lemma c11_set_kind_inv : forall o k, c11_obj_inv o -> c11_obj_inv (c11_set_kind o k).
Proof.
  intros o k [_ H]. unfold c11_set_kind. apply c11_build_slot_inv; auto.
Qed.

Lemma c11_set_kind_fields : forall o k,
  ob_kind (c11_set_kind o k) = k /\ ob_sys (c11_set_kind o k) = ob_sys o
  /\ ob_metric (c11_set_kind o k) = ob_metric o.
Proof. intros. unfold c11_set_kind. destruct k; cbn; auto. Qed.

Lemma c11_observe_inv : forall o, c11_obj_inv o -> c11_observe o = (ob_kind o, Some (ob_sys o, ob_metric o)).
Proof. intros o [H _]. unfold c11_observe. rewrite H. reflexivity. Qed.

Definition c11_cache_inv (c : option c11_obj) : Prop :=
  match c with None => True | Some o => c11_obj_inv o end.

Lemma c11_get_inv : forall cf id c r, c11_cache_inv c -> c11_obj_inv (c11_get cf id c r).
Proof.
  intros cf id [o|] r H; cbn [c11_get]; [|apply c11_new_obj_inv].
  repeat match goal with |- context [if ?b then _ else _] => destruct b end;
    auto using c11_new_obj_inv, c11_set_kind_inv.
Qed.

Definition c11_state_inv (st : c11_state) : Prop := c11_cache_inv (st_ball st) /\ c11_cache_inv (st_kd st).

Lemma c11_step_inv : forall cfb cfk st r, c11_state_inv st ->
  c11_state_inv (fst (c11_step cfb cfk st r)) /\ c11_obj_inv (snd (c11_step cfb cfk st r)).
Proof.
  intros cfb cfk st r [Hb Hk]. unfold c11_step.
  destruct (rq_tree r); cbn [fst snd]; unfold c11_state_inv; cbn [st_ball st_kd c11_cache_inv];
    auto using c11_get_inv.
Qed.

Lemma c11_run_inv : forall cfb cfk rs st, c11_state_inv st -> c11_state_inv (c11_run cfb cfk st rs).
Proof.
  induction rs as [|r rs IH]; intros st H; cbn [c11_run]; auto.
  apply IH. apply c11_step_inv, H.
Qed.

Lemma c11_init_inv : c11_state_inv c11_init.
Proof. split; exact I. Qed.

(* the object handed back by one get_* call on an invariant cache *)
Lemma c11_get_reflects_complete : forall cf id c r, c11_cache_inv c -> c11_cfg_complete cf = true ->
  c11_reflects (c11_get cf id c r) r.
Proof.
  intros cf id c r Hc Hcf. unfold c11_reflects.
  rewrite c11_observe_inv by (apply c11_get_inv; auto).
  destruct c as [o|]; cbn [c11_get].
  2:{ destruct (c11_new_obj_fields id r) as [-> [-> ->]]. reflexivity. }
  unfold c11_cfg_complete in Hcf.
  destruct (rq_reconstruct r); cbn [orb].
  { destruct (c11_new_obj_fields id r) as [-> [-> ->]]. reflexivity. }
  destruct (c11_kind_eqb (rq_kind r) (ob_kind o)) eqn:Ek;
  destruct (c11_system_eqb (rq_sys r) (ob_sys o)) eqn:Es;
  destruct (c11_metric_eqb (rq_metric r) (ob_metric o)) eqn:Em;
  destruct (cf_rb_kind cf), (cf_rb_sys cf), (cf_rb_metric cf), (cf_switch cf); try discriminate;
  cbn [andb orb negb];
  try (destruct (c11_new_obj_fields id r) as [-> [-> ->]]; reflexivity);
  try (destruct (c11_set_kind_fields o (rq_kind r)) as [-> [-> ->]]);
  try apply c11_kind_eqb_eq in Ek; try apply c11_system_eqb_eq in Es; try apply c11_metric_eqb_eq in Em;
  congruence.
Qed.

Lemma c11_get_kind : forall cf id c r, c11_cache_inv c -> (cf_rb_kind cf || cf_switch cf) = true ->
  fst (c11_observe (c11_get cf id c r)) = rq_kind r.
Proof.
  intros cf id c r Hc Hcf.
  rewrite c11_observe_inv by (apply c11_get_inv; auto). cbn [fst].
  destruct c as [o|]; cbn [c11_get].
  2:{ apply c11_new_obj_fields. }
  destruct (rq_reconstruct r); cbn [orb]; [apply c11_new_obj_fields|].
  destruct (c11_kind_eqb (rq_kind r) (ob_kind o)) eqn:Ek;
  destruct (c11_system_eqb (rq_sys r) (ob_sys o));
  destruct (c11_metric_eqb (rq_metric r) (ob_metric o));
  destruct (cf_rb_kind cf), (cf_rb_sys cf), (cf_rb_metric cf), (cf_switch cf); try discriminate;
  cbn [andb orb negb];
  try apply c11_new_obj_fields; try apply c11_set_kind_fields;
  apply c11_kind_eqb_eq in Ek; congruence.
Qed.

Lemma c11_get_reconstruct : forall cf id c r, rq_reconstruct r = true -> c11_reflects (c11_get cf id c r) r.
Proof.
  intros cf id c r Hr. unfold c11_reflects.
  assert (E : c11_get cf id c r = c11_new_obj id r).
  { destruct c; cbn [c11_get]; auto. rewrite Hr. reflexivity. }
  rewrite E, c11_observe_inv by apply c11_new_obj_inv.
  destruct (c11_new_obj_fields id r) as [-> [-> ->]]. reflexivity.
Qed.

Definition c11_cfg_of (t : c11_treetype) (cfb cfk : c11_cfg) : c11_cfg :=
  match t with C11Ball => cfb | C11KD => cfk end.

(* histories: after any sequence of earlier requests ... *)
Theorem c11_cache_complete : forall cfb cfk rs r,
  c11_cfg_complete (c11_cfg_of (rq_tree r) cfb cfk) = true ->
  c11_reflects (snd (c11_step cfb cfk (c11_run cfb cfk c11_init rs) r)) r.
Proof.
  intros cfb cfk rs r Hcf.
  assert (Hi := c11_run_inv cfb cfk rs c11_init c11_init_inv). destruct Hi as [Hb Hk].
  unfold c11_step. destruct (rq_tree r); cbn [snd c11_cfg_of] in *;
    apply c11_get_reflects_complete; auto.
Qed.

Theorem c11_cache_kind : forall cfb cfk rs r,
  (let cf := c11_cfg_of (rq_tree r) cfb cfk in cf_rb_kind cf || cf_switch cf) = true ->
  fst (c11_observe (snd (c11_step cfb cfk (c11_run cfb cfk c11_init rs) r))) = rq_kind r.
Proof.
  intros cfb cfk rs r Hcf.
  assert (Hi := c11_run_inv cfb cfk rs c11_init c11_init_inv). destruct Hi as [Hb Hk].
  unfold c11_step. destruct (rq_tree r); cbn [snd c11_cfg_of] in *; apply c11_get_kind; auto.
Qed.

Theorem c11_cache_reconstruct : forall cfb cfk rs r, rq_reconstruct r = true ->
  c11_reflects (snd (c11_step cfb cfk (c11_run cfb cfk c11_init rs) r)) r.
Proof.
  intros. unfold c11_step. destruct (rq_tree r); cbn [snd]; apply c11_get_reconstruct; auto.
Qed.

(* ... and conversely: whenever a compared key is missing there is a two-request history whose
   second answer does not reflect the request (the faithful model of the unchanged source, where
   only `coordinates` is compared, is such a configuration) *)
Definition c11_mk (t : c11_treetype) (k : c11_kind) (s : c11_system) (m : c11_metric) : c11_req :=
  {| rq_tree := t; rq_kind := k; rq_sys := s; rq_metric := m; rq_reconstruct := false |}.

Theorem c11_cache_incomplete_refuted : forall cfb cfk t,
  c11_cfg_complete (c11_cfg_of t cfb cfk) = false ->
  exists r1 r2, rq_tree r2 = t /\ rq_reconstruct r2 = false /\
    ~ c11_reflects (snd (c11_step cfb cfk (c11_run cfb cfk c11_init [r1]) r2)) r2.
Proof.
  intros cfb cfk t H. unfold c11_cfg_complete in H.
  destruct t; cbn [c11_cfg_of] in H.
  - destruct cfb as [a b c d]; cbn in H.
    destruct b.
    2:{ exists (c11_mk C11Ball C11Nodes C11Spherical C11Hav), (c11_mk C11Ball C11Nodes C11Cartesian C11Hav).
        repeat split. unfold c11_reflects. destruct a, c, d; cbn; intros E; discriminate. }
    destruct c.
    2:{ exists (c11_mk C11Ball C11Nodes C11Cartesian C11L2), (c11_mk C11Ball C11Nodes C11Cartesian C11L1).
        repeat split. unfold c11_reflects. destruct a, d; cbn; intros E; discriminate. }
    destruct a; [discriminate|]. destruct d; [discriminate|].
    exists (c11_mk C11Ball C11Nodes C11Cartesian C11L2), (c11_mk C11Ball C11Faces C11Cartesian C11L2).
    repeat split. unfold c11_reflects. cbn; intros E; discriminate.
  - destruct cfk as [a b c d]; cbn in H.
    destruct b.
    2:{ exists (c11_mk C11KD C11Nodes C11Spherical C11L2), (c11_mk C11KD C11Nodes C11Cartesian C11L2).
        repeat split. unfold c11_reflects. destruct a, c, d; cbn; intros E; discriminate. }
    destruct c.
    2:{ exists (c11_mk C11KD C11Nodes C11Cartesian C11L2), (c11_mk C11KD C11Nodes C11Cartesian C11L1).
        repeat split. unfold c11_reflects. destruct a, d; cbn; intros E; discriminate. }
    destruct a; [discriminate|]. destruct d; [discriminate|].
    exists (c11_mk C11KD C11Nodes C11Cartesian C11L2), (c11_mk C11KD C11Faces C11Cartesian C11L2).
    repeat split. unfold c11_reflects. cbn; intros E; discriminate.
Qed.

(* the element count the handed-back tree validates k against is that of its current kind, after
   any history (the setter refreshes it whether or not a sub-tree had to be built) *)
Definition c11_count_inv (c : option c11_obj) : Prop :=
  match c with None => True | Some o => ob_n o = ob_kind o end.

Lemma c11_build_slot_count : forall o k, ob_n (c11_build_slot o k) = ob_n o /\ ob_kind (c11_build_slot o k) = ob_kind o.
Proof. intros o k. destruct k; cbn; auto. Qed.

Lemma c11_get_count : forall cf id c r, c11_count_inv c -> ob_n (c11_get cf id c r) = ob_kind (c11_get cf id c r).
Proof.
  intros cf id c r H.
  assert (Hn : ob_n (c11_new_obj id r) = ob_kind (c11_new_obj id r)).
  { unfold c11_new_obj. destruct (c11_build_slot_count
      {| ob_id := id; ob_kind := rq_kind r; ob_n := rq_kind r; ob_sys := rq_sys r; ob_metric := rq_metric r;
         ob_reconstruct := rq_reconstruct r; ob_nodes := None; ob_faces := None; ob_edges := None |} (rq_kind r)) as [-> ->].
    reflexivity. }
  destruct c as [o|]; cbn [c11_get]; auto.
  repeat match goal with |- context [if ?b then _ else _] => destruct b end; auto.
  unfold c11_set_kind.
  match goal with |- ob_n (c11_build_slot ?x ?k) = _ => destruct (c11_build_slot_count x k) as [-> ->] end.
  reflexivity.
Qed.

Lemma c11_step_count : forall cfb cfk st r, c11_count_inv (st_ball st) -> c11_count_inv (st_kd st) ->
  let so := c11_step cfb cfk st r in
  c11_count_inv (st_ball (fst so)) /\ c11_count_inv (st_kd (fst so)) /\ ob_n (snd so) = ob_kind (snd so).
Proof.
  intros cfb cfk st r Hb Hk. unfold c11_step. destruct (rq_tree r); cbn [fst snd st_ball st_kd c11_count_inv];
    repeat split; auto using c11_get_count.
Qed.

Lemma c11_run_count : forall cfb cfk rs st, c11_count_inv (st_ball st) -> c11_count_inv (st_kd st) ->
  c11_count_inv (st_ball (c11_run cfb cfk st rs)) /\ c11_count_inv (st_kd (c11_run cfb cfk st rs)).
Proof.
  induction rs as [|r rs IH]; intros st Hb Hk; cbn [c11_run]; auto.
  destruct (c11_step_count cfb cfk st r Hb Hk) as [H1 [H2 _]]. apply IH; auto.
Qed.

Theorem c11_cache_count : forall cfb cfk rs r,
  let o := snd (c11_step cfb cfk (c11_run cfb cfk c11_init rs) r) in ob_n o = ob_kind o.
Proof.
  intros cfb cfk rs r. destruct (c11_run_count cfb cfk rs c11_init I I) as [Hb Hk].
  apply (c11_step_count cfb cfk _ r Hb Hk).
Qed.

(* the configuration regenerated from the current source, decided either way *)
Lemma c11_cache_current_source : forall t,
  if c11_cfg_complete (c11_cfg_of t c11_ball_cfg c11_kd_cfg)
  then forall rs r, rq_tree r = t ->
         c11_reflects (snd (c11_step c11_ball_cfg c11_kd_cfg (c11_run c11_ball_cfg c11_kd_cfg c11_init rs) r)) r
  else exists r1 r2, rq_tree r2 = t /\ rq_reconstruct r2 = false /\
         ~ c11_reflects (snd (c11_step c11_ball_cfg c11_kd_cfg (c11_run c11_ball_cfg c11_kd_cfg c11_init [r1]) r2)) r2.
Proof.
  intros t. destruct (c11_cfg_complete (c11_cfg_of t c11_ball_cfg c11_kd_cfg)) eqn:E.
  - intros rs r Hr. apply c11_cache_complete. rewrite Hr. exact E.
  - apply c11_cache_incomplete_refuted. exact E.
Qed.

(* trace = observations of the objects handed back, in order *)
Lemma c11_trace_length : forall cfb cfk rs st, length (c11_trace cfb cfk st rs) = length rs.
Proof. induction rs; intros; cbn [c11_trace length]; auto. Qed.

(* ------------------------------------------------------------------------------------------ *)
(* non-vacuity examples                                                                       *)

Example c11_knn_example : c11_knn [5; 1; 7; 1; 0] 3 = [(0, 4%nat); (1, 1%nat); (1, 3%nat)].
Proof. reflexivity. Qed.

Example c11_within_example : c11_within [5; 1; 7; 1; 0] 1 = [(1, 1%nat); (1, 3%nat); (0, 4%nat)].
Proof. reflexivity. Qed.

Definition c11_ex_cset : c11_cset :=
  {| cs_lon := [10; 170; -170]; cs_lat := [0; 20; 20]; cs_x := [1; 0; 0]; cs_y := [0; 1; 0]; cs_z := [0; 0; 1] |}.
Definition c11_ex_grid : c11_grid := {| cg_node := c11_ex_cset; cg_face := c11_ex_cset; cg_edge := c11_ex_cset |}.

Example c11_query_nonvacuous :
  c11_query 3 2 c11_ex_grid C11Nodes C11Spherical C11L2 [[20; 170]] false 2
  = Some [[(0, 1%nat); (234000, 0%nat)]].
Proof. vm_compute. reflexivity. Qed.

Example c11_query_radius_nonvacuous :
  c11_query_radius 3 2 13 C11KD c11_ex_grid C11Faces C11Cartesian C11L1 [[1; 0; 0]] false 1
  = Some [[(0, 0%nat)]].
Proof. vm_compute. reflexivity. Qed.

Definition c11_cfg_source_like : c11_cfg :=
  {| cf_rb_kind := false; cf_rb_sys := false; cf_rb_metric := false; cf_switch := true |}.
Definition c11_cfg_repaired : c11_cfg :=
  {| cf_rb_kind := false; cf_rb_sys := true; cf_rb_metric := true; cf_switch := true |}.

Example c11_cache_complete_nonvacuous : c11_cfg_complete c11_cfg_repaired = true.
Proof. reflexivity. Qed.
Example c11_cache_incomplete_nonvacuous : c11_cfg_complete c11_cfg_source_like = false.
Proof. reflexivity. Qed.

(* queries are pure in their argument and repeatable: the caller's array is what it was, so the same
   array handed in again (to any tree, with any k) is the same query *)
Lemma c11_arg_unchanged : forall num s q rad, c11_arg_after false num s q rad = q.
Proof. reflexivity. Qed.

Lemma c11_query_repeatable : forall num T g kd s m q rad k kd' k',
  c11_query num T g kd' s m (c11_arg_after false num s q rad) rad k' = c11_query num T g kd' s m q rad k'
  /\ (c11_query num T g kd s m q rad k = c11_query num T g kd s m (c11_arg_after false num s q rad) rad k).
Proof. intros. split; reflexivity. Qed.

Example c11_query_repeatable_nonvacuous :
  c11_query 3 2 c11_ex_grid C11Nodes C11Spherical C11L2 (c11_arg_after false 3 C11Spherical [[20; 170]] false) false 2
  = Some [[(0, 1%nat); (234000, 0%nat)]].
Proof. vm_compute. reflexivity. Qed.

(* the in-place variant answers the second, identical-looking call differently *)
Lemma c11_arg_inplace_refuted : exists num T g kd s m q k,
  c11_query num T g kd s m (c11_arg_after true num s q false) false k <> c11_query num T g kd s m q false k.
Proof.
  exists 3, 2, c11_ex_grid, C11Nodes, C11Spherical, C11L2, [[20; 170]], 1%nat.
  vm_compute. intros E. discriminate.
Qed.

(* a derived grid starts with its own empty caches: whatever is requested on it, the first grid's cache
   state - hence what every handle obtained from the first grid answers - stays what it was *)
Lemma c11_run2_derived_only : forall cfb cfk ops sa sb,
  Forall (fun o => match o with C11OnDerived _ => True | _ => False end) ops ->
  fst (c11_run2 false cfb cfk sa sb ops) = sa.
Proof.
  induction ops as [|o ops IH]; intros sa sb H; [reflexivity|].
  inversion H as [|? ? Ho Hr]; subst. destruct o as [r|r]; [contradiction|].
  cbn [c11_run2]. apply IH. exact Hr.
Qed.

Lemma c11_derived_independent : forall cfb cfk rs ops,
  Forall (fun o => match o with C11OnDerived _ => True | _ => False end) ops ->
  let sa := c11_run cfb cfk c11_init rs in
  c11_handles (fst (c11_run2 false cfb cfk sa (c11_derive false sa) ops)) = c11_handles sa.
Proof. intros. cbn zeta. rewrite c11_run2_derived_only; auto. Qed.

(* and symmetrically: requests on the first grid do not touch the derived grid's state *)
Lemma c11_run2_original_only : forall cfb cfk ops sa sb,
  Forall (fun o => match o with C11OnOriginal _ => True | _ => False end) ops ->
  snd (c11_run2 false cfb cfk sa sb ops) = sb.
Proof.
  induction ops as [|o ops IH]; intros sa sb H; [reflexivity|].
  inversion H as [|? ? Ho Hr]; subst. destruct o as [r|r]; [|contradiction].
  cbn [c11_run2]. apply IH. exact Hr.
Qed.

Example c11_derived_independent_nonvacuous :
  c11_handles (fst (c11_run2 false c11_cfg_repaired c11_cfg_repaired
                     (c11_run c11_cfg_repaired c11_cfg_repaired c11_init [c11_mk C11Ball C11Nodes C11Spherical C11Hav])
                     c11_init [C11OnDerived (c11_mk C11Ball C11Faces C11Spherical C11Hav)]))
  = (Some (C11Nodes, Some (C11Spherical, C11Hav)), None).
Proof. reflexivity. Qed.

(* handing the cached wrappers to the derived grid by reference breaks it: a request for another kind on
   the derived grid flips the handle obtained from the first grid *)
Lemma c11_shared_trees_refuted : exists cf r0 r1,
  let sa := c11_run cf cf c11_init [r0] in
  c11_handles (fst (c11_run2 true cf cf sa (c11_derive true sa) [C11OnDerived r1])) <> c11_handles sa.
Proof.
  exists c11_cfg_repaired, (c11_mk C11Ball C11Nodes C11Spherical C11Hav), (c11_mk C11Ball C11Faces C11Spherical C11Hav).
  cbn. intros E. discriminate.
Qed.

(* the history of DESIGN section 8 on the faithful configuration: the second request asks for a
   Cartesian tree and gets the spherical haversine one back *)
Example c11_cache_source_like_witness :
  c11_trace c11_cfg_source_like c11_cfg_source_like c11_init
    [c11_mk C11Ball C11Nodes C11Spherical C11Hav; c11_mk C11Ball C11Nodes C11Cartesian C11L2]
  = [((C11Nodes, Some (C11Spherical, C11Hav)), 0%nat); ((C11Nodes, Some (C11Spherical, C11Hav)), 0%nat)].
Proof. reflexivity. Qed.

(* ------------------------------------------------------------------------------------------ *)
(* real-number facts: haversine distance = arc of the chord between the unit vectors;          *)
(* chord order = great-circle order                                                            *)
From Coq Require Import Reals Lra.
Local Open Scope R_scope.


Definition c11_hav (p1 l1 p2 l2 : R) : R :=
  Rsqr (sin ((p2 - p1) / 2)) + cos p1 * cos p2 * Rsqr (sin ((l2 - l1) / 2)).
Definition c11_ux (p l : R) := cos p * cos l.
Definition c11_uy (p l : R) := cos p * sin l.
Definition c11_uz (p l : R) := sin p.
Definition c11_chord2 (p1 l1 p2 l2 : R) : R :=
  Rsqr (c11_ux p1 l1 - c11_ux p2 l2) + Rsqr (c11_uy p1 l1 - c11_uy p2 l2) + Rsqr (c11_uz p1 l1 - c11_uz p2 l2).

Lemma c11_sin_half_sqr : forall a, Rsqr (sin (a / 2)) = (1 - cos a) / 2.
Proof.
  intros a. replace a with (2 * (a / 2)) at 2 by field.
  rewrite cos_2a_sin. unfold Rsqr. field.
Qed.

Lemma c11_haversine_chord : forall p1 l1 p2 l2, 4 * c11_hav p1 l1 p2 l2 = c11_chord2 p1 l1 p2 l2.
Proof.
  intros. unfold c11_hav, c11_chord2, c11_ux, c11_uy, c11_uz.
  rewrite !c11_sin_half_sqr, !cos_minus. unfold Rsqr.
  pose proof (sin2_cos2 p1) as A1. pose proof (sin2_cos2 p2) as A2.
  pose proof (sin2_cos2 l1) as B1. pose proof (sin2_cos2 l2) as B2. unfold Rsqr in *.
  set (sp1 := sin p1) in *. set (cp1 := cos p1) in *. set (sp2 := sin p2) in *. set (cp2 := cos p2) in *.
  set (sl1 := sin l1) in *. set (cl1 := cos l1) in *. set (sl2 := sin l2) in *. set (cl2 := cos l2) in *.
  replace (cp1 * cl1 - cp2 * cl2) with (cp1 * cl1 - cp2 * cl2) by ring.
  transitivity (cp1*cp1*(sl1*sl1+cl1*cl1) + cp2*cp2*(sl2*sl2+cl2*cl2) + (sp1*sp1 + sp2*sp2)
                - 2*cp1*cp2*(cl2*cl1+sl2*sl1) - 2*sp1*sp2).
  2: ring.
  rewrite B1, B2.
  transitivity ((sp1*sp1+cp1*cp1) + (sp2*sp2+cp2*cp2) - 2*cp1*cp2*(cl2*cl1+sl2*sl1) - 2*sp1*sp2).
  2: ring.
  rewrite A1, A2. field.
Qed.

(* great-circle distance of a chord of the unit sphere *)
Definition c11_arc (c : R) : R := 2 * asin (c / 2).

Lemma c11_asin_lt : forall x y, -1 <= x -> x < y -> y <= 1 -> asin x < asin y.
Proof.
  intros x y Hx Hxy Hy.
  destruct (Rlt_le_dec (asin x) (asin y)) as [H|H]; auto. exfalso.
  assert (Hs : sin (asin y) <= sin (asin x)).
  { pose proof (asin_bound x). pose proof (asin_bound y).
    apply sin_incr_1; lra. }
  rewrite !sin_asin in Hs by lra. lra.
Qed.

Lemma c11_chord_arc : forall c1 c2, 0 <= c1 <= 2 -> 0 <= c2 <= 2 -> (c1 < c2 <-> c11_arc c1 < c11_arc c2).
Proof.
  intros c1 c2 H1 H2. unfold c11_arc. split; intros H.
  - assert (asin (c1/2) < asin (c2/2)) by (apply c11_asin_lt; lra). lra.
  - destruct (Rlt_le_dec c1 c2) as [|Hle]; auto. exfalso.
    destruct (Req_dec c1 c2) as [->|Hne]; [lra|].
    assert (asin (c2/2) < asin (c1/2)) by (apply c11_asin_lt; lra). lra.
Qed.

(* arc is the angle: chord = 2 sin(arc/2), arc in [0, pi] *)
Lemma c11_arc_angle : forall c, 0 <= c <= 2 -> 0 <= c11_arc c <= PI /\ 2 * sin (c11_arc c / 2) = c.
Proof.
  intros c H. unfold c11_arc. split.
  - pose proof (asin_bound (c/2)). 
    assert (0 <= asin (c/2)). { rewrite <- asin_0. destruct (Req_dec 0 (c/2)) as [<-|Hn]; [lra|]. left. apply c11_asin_lt; lra. }
    lra.
  - replace (2 * asin (c/2) / 2) with (asin (c/2)) by field. rewrite sin_asin by lra. field.
Qed.

(* either side of the antimeridian: a longitude and the same longitude plus a full turn are the same point *)
Lemma c11_hav_antimeridian : forall p1 l1 p2 l2, c11_hav p1 (l1 + 2 * PI) p2 l2 = c11_hav p1 l1 p2 l2.
Proof.
  intros. apply Rmult_eq_reg_l with 4; [|lra]. rewrite !c11_haversine_chord.
  unfold c11_chord2, c11_ux, c11_uy, c11_uz. rewrite cos_plus, sin_plus, cos_2PI, sin_2PI.
  unfold Rsqr. ring.
Qed.

(* at a pole the stored longitude is irrelevant *)
Lemma c11_hav_pole : forall l l' p2 l2, c11_hav (PI / 2) l p2 l2 = c11_hav (PI / 2) l' p2 l2.
Proof.
  intros. apply Rmult_eq_reg_l with 4; [|lra]. rewrite !c11_haversine_chord.
  unfold c11_chord2, c11_ux, c11_uy, c11_uz. rewrite cos_PI2. unfold Rsqr. ring.
Qed.

(* hence: the element with the smallest chord is the element with the smallest great-circle distance *)
Lemma c11_chord_nearest_is_arc_nearest : forall c1 c2, 0 <= c1 <= 2 -> 0 <= c2 <= 2 ->
  (c1 <= c2 <-> c11_arc c1 <= c11_arc c2).
Proof.
  intros c1 c2 H1 H2. pose proof (c11_chord_arc c2 c1 H2 H1) as [A B]. split; intros H.
  - destruct (Rle_lt_dec (c11_arc c1) (c11_arc c2)); auto. apply B in r. lra.
  - destruct (Rle_lt_dec c1 c2); auto. apply A in r. lra.
Qed.

(* clamping a great-circle radius at the half turn changes no answer: no arc exceeds PI *)
Lemma c11_radius_clamp : forall c r, 0 <= c <= 2 -> (c11_arc c <= r <-> c11_arc c <= Rmin r PI).
Proof.
  intros c r H. destruct (c11_arc_angle c H) as [[_ Hle] _]. unfold Rmin.
  destruct (Rle_dec r PI); split; intros; lra.
Qed.
