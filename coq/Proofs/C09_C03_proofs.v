(* Node and edge selections through the whole pipeline: _slice_node_indices / _slice_edge_indices read the
   DERIVED node_face / edge_face tables (C03 models); composed with C09's selection model the selected faces are
   exactly the faces having a selected node as a corner / a selected edge on their boundary. *)
From Coq Require Import ZifyBool.
From Verif Require Import Base C02 C02_proofs C03 C03_proofs C03_C02_proofs C03_ff_pipeline_proofs C09 C09_proofs.
Local Open Scope Z_scope.

(* ---------------- node selections ---------------- *)
Theorem node_selection_pipeline t n idx f :
  Forall (fun v => 0 <= v < Z.of_nat n) idx ->
  (In f (c09_faces_touching (c03_node_faces t n) idx) <->
   exists v i r, In v idx /\ nth_error t i = Some r /\ f = Z.of_nat i /\ In v r).
Proof.
  intros Hidx. rewrite Forall_forall in Hidx. rewrite faces_touching_spec. split.
  - intros (Hne & v & Hv & Hin). pose proof (Hidx v Hv) as Hr.
    destruct (node_faces_spec t n (Z.to_nat v) ltac:(lia)) as (k & Hrow).
    assert (Hn : nth (Z.to_nat v) (c03_node_faces t n) [] = c03_faces_of_node t 0 (Z.of_nat (Z.to_nat v)) ++ repeat FILL k)
      by (apply nth_error_nth; exact Hrow).
    assert (Hin' : In f (c03_faces_of_node t 0 (Z.of_nat (Z.to_nat v)) ++ repeat FILL k)) by (rewrite <- Hn; exact Hin).
    clear Hin. rename Hin' into Hin. rewrite Z2Nat.id in Hin by lia.
    apply in_app_or in Hin. destruct Hin as [Hin|Hin]; [|apply repeat_spec in Hin; contradiction].
    apply node_faces_member in Hin. destruct Hin as (i & r & H1 & H2 & H3 & _).
    exists v, i, r. repeat split; assumption.
  - intros (v & i & r & Hv & H1 & -> & H3). pose proof (Hidx v Hv) as Hr. split; [unfold FILL; lia|].
    exists v. split; [exact Hv|].
    destruct (node_faces_spec t n (Z.to_nat v) ltac:(lia)) as (k & Hrow).
    assert (Hn : nth (Z.to_nat v) (c03_node_faces t n) [] = c03_faces_of_node t 0 (Z.of_nat (Z.to_nat v)) ++ repeat FILL k)
      by (apply nth_error_nth; exact Hrow).
    cut (In (Z.of_nat i) (c03_faces_of_node t 0 (Z.of_nat (Z.to_nat v)) ++ repeat FILL k)); [rewrite <- Hn; exact (fun H => H)|].
    rewrite Z2Nat.id by lia. apply in_or_app. left.
    apply node_faces_member. exists i, r. repeat split; try assumption. unfold FILL; lia.
Qed.

(* ---------------- edge selections ---------------- *)
(* edge_face_connectivity as the 2-column table the slice indexes *)
Definition ef_table (ef : list (Z * Z)) : table := map (fun r => [fst r; snd r]) ef.

Lemma row_of_members occ f : Forall (fun x => 0 <= x) occ -> (length occ <= 2)%nat ->
  (f <> FILL /\ (f = fst (c03_row_of occ) \/ f = snd (c03_row_of occ))) <-> In f occ.
Proof.
  intros Hnn Hlen. destruct occ as [|a [|b [|c occ]]]; simpl in Hlen; try lia; simpl.
  - split; [intros [H [->| ->]]; contradiction|intros []].
  - inversion Hnn; subst. split.
    + intros [H [->| ->]]; [left; reflexivity|contradiction].
    + intros [<-|[]]. split; [unfold FILL; lia|left; reflexivity].
  - inversion Hnn as [|? ? Ha Hnn']; subst. inversion Hnn' as [|? ? Hb _]; subst. split.
    + intros [_ [->| ->]]; [left|right; left]; reflexivity.
    + intros [<-|[<-|[]]]; (split; [unfold FILL; lia|]); [left|right]; reflexivity.
Qed.

Lemma nth_map_in {A B} (f : A -> B) (l : list A) : forall n d d', (n < length l)%nat -> nth n (map f l) d' = f (nth n l d).
Proof. induction l as [|a l IH]; intros [|n] d d' H; simpl in *; try lia; [reflexivity|apply IH; lia]. Qed.

Theorem edge_selection_pipeline m t idx f : std_table m t ->
  let FE := face_edges t m in let NPF := n_nodes_per_face t in let n := length (edges t) in
  (forall e, (e < n)%nat -> (length (c03_occ FE NPF e) <= 2)%nat) ->          (* manifold *)
  Forall (fun e => 0 <= e < Z.of_nat n) idx ->
  (In f (c09_faces_touching (ef_table (c03_edge_faces FE NPF n)) idx) <->
   exists e i r q, In e idx /\ nth_error t i = Some r /\ f = Z.of_nat i /\ In q (cyc_pairs (corners r)) /\
                   nth_error (edges t) (Z.to_nat e) = Some (norm_pair q)).
Proof.
  intros Hstd FE NPF n Hman Hidx. rewrite Forall_forall in Hidx. rewrite faces_touching_spec.
  assert (Hrow : forall e, In e idx ->
     nth (Z.to_nat e) (ef_table (c03_edge_faces FE NPF n)) [] =
     [fst (c03_row_of (c03_occ FE NPF (Z.to_nat e))); snd (c03_row_of (c03_occ FE NPF (Z.to_nat e)))]).
  { intros e He. pose proof (Hidx e He) as Hr. unfold ef_table.
    rewrite (nth_map_in _ _ _ (FILL, FILL)) by (rewrite edge_faces_length; lia). subst FE NPF n. rewrite (edge_face_of_table m t (Z.to_nat e) Hstd) by lia. reflexivity. }
  split.
  - intros (Hne & e & He & Hin). rewrite (Hrow e He) in Hin. pose proof (Hidx e He) as Hr.
    assert (Hocc : In f (c03_occ FE NPF (Z.to_nat e))).
    { apply row_of_members; [apply occ_nonneg|apply Hman; lia|].
      split; [exact Hne|]. destruct Hin as [<-|[<-|[]]]; [left|right]; reflexivity. }
    subst FE NPF n. apply (occ_geometric m t (Z.to_nat e) f Hstd ltac:(lia)) in Hocc.
    destruct Hocc as (i & r & q & H1 & H2 & H3 & H4). exists e, i, r, q. repeat split; assumption.
  - intros (e & i & r & q & He & H1 & -> & H3 & H4). pose proof (Hidx e He) as Hr.
    assert (Hocc : In (Z.of_nat i) (c03_occ FE NPF (Z.to_nat e))).
    { subst FE NPF n. apply (occ_geometric m t (Z.to_nat e) (Z.of_nat i) Hstd ltac:(lia)).
      exists i, r, q. repeat split; assumption. }
    apply row_of_members in Hocc; [|apply occ_nonneg|apply Hman; lia].
    destruct Hocc as [Hne Hor]. split; [exact Hne|]. exists e. split; [exact He|]. rewrite (Hrow e He).
    destruct Hor as [->| ->]; [left|right; left]; reflexivity.
Qed.

(* non-vacuity on a triangle-quad-triangle strip: node 1 touches all three faces, edge (1,2) the first two *)
Example selection_pipeline_ex :
  let t := [[0;1;2;FILL];[1;3;4;2];[5;1;0;FILL]] in
  let FE := face_edges t 4 in let NPF := n_nodes_per_face t in let n := length (edges t) in
  c09_faces_touching (c03_node_faces t 6) [1] = [0; 1; 2] /\
  c09_faces_touching (c03_node_faces t 6) [4; 3] = [1] /\
  nth 3 (edges t) (FILL, FILL) = (1, 2) /\
  c09_faces_touching (ef_table (c03_edge_faces FE NPF n)) [3] = [0; 1] /\
  forallb (fun e => Nat.leb (length (c03_occ FE NPF e)) 2) (seq 0 n) = true.
Proof. vm_compute. repeat split. Qed.
