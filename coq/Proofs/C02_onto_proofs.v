(* No orphan edges and a counting bound: every derived edge is used by some face at some corner position, and there are
   at most as many edges as corners. *)
From Coq Require Import ZifyBool.
From Verif Require Import Base C02 C02_proofs.
Local Open Scope Z_scope.

Lemma row_cyc_len' m t r : std_table m t -> In r t -> first_fill r = length (cyc_pairs (corners r)).
Proof.
  intros Hstd Hr. unfold std_table in Hstd. rewrite Forall_forall in Hstd. destruct (Hstd r Hr) as [_ Hsr].
  destruct (std_row_inv r Hsr) as (c & n & _ & _ & Hcor & Hff). rewrite Hcor, cyc_pairs_length. exact Hff.
Qed.

(* every edge of the table is the j-th edge of some face f *)
Theorem face_edge_onto m t e : std_table m t -> (e < length (edges t))%nat ->
  exists f r fe j, nth_error t f = Some r /\ nth_error (face_edges t m) f = Some fe /\ (j < first_fill r)%nat /\
                   nth_error fe j = Some (Z.of_nat e).
Proof.
  intros Hstd He.
  destruct (nth_error (edges t) e) as [q|] eqn:Hq; [|apply nth_error_None in Hq; lia].
  pose proof (nth_error_In _ _ Hq) as Hin. apply (edges_iff m t q Hstd) in Hin.
  unfold spec_pairs in Hin. apply in_map_iff in Hin. destruct Hin as (p & Hp & Hpin).
  apply in_flat_map in Hpin. destruct Hpin as (r & Hr & Hpr).
  destruct (In_nth_error _ _ Hr) as (f & Hf).
  destruct (In_nth _ _ (FILL, FILL) Hpr) as (j & Hj & Hjp).
  destruct (face_edge_spec m t f r Hstd Hf) as (fe & Hfe & _ & Hreal & _).
  rewrite <- (row_cyc_len' m t r Hstd Hr) in Hj.
  destruct (Hreal j Hj) as (e' & He' & Hq').
  assert (e' = e).
  { apply (proj1 (NoDup_nth_error (edges t)) (edges_NoDup t) e' e).
    - apply nth_error_Some. rewrite Hq'. discriminate.
    - rewrite Hq', Hq. unfold nthP. rewrite Hjp, Hp. reflexivity. }
  subst e'. exists f, r, fe, j. repeat split; assumption.
Qed.

(* at most as many edges as corners (each edge is used at least once) *)
Lemma NoDup_incl_length' {A} (l l' : list A) : NoDup l -> incl l l' -> (length l <= length l')%nat.
Proof. apply NoDup_incl_length. Qed.

Theorem n_edge_le_corners m t : std_table m t ->
  (length (edges t) <= length (flat_map (fun r => cyc_pairs (corners r)) t))%nat.
Proof.
  intros Hstd.
  rewrite <- (map_length norm_pair (flat_map (fun r => cyc_pairs (corners r)) t)).
  apply NoDup_incl_length'; [apply edges_NoDup|].
  intros q Hq. apply (edges_iff m t q Hstd) in Hq. exact Hq.
Qed.

Example onto_ex :
  let t := [[0;1;2;FILL];[1;3;4;2]] in
  length (edges t) = 6%nat /\ length (flat_map (fun r => cyc_pairs (corners r)) t) = 7%nat.
Proof. vm_compute. split; reflexivity. Qed.
