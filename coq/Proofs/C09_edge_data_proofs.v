(* Edge-centred data stay on their physical edges: the k-th edge of the subset (of the table the subset carries AND of
   the table it derives, which are the same), read back through the recorded node indices, is the source edge
   subgrid_edge_indices[k]; the data gathered with subgrid_edge_indices put the source value of that very edge at k. *)
From Coq Require Import Sorting.Sorted Sorting.Permutation ZifyBool.
From Verif Require Import Base C02 C02_proofs C09 C09_proofs C09_commute_proofs C09_edges C09_edge_table_proofs.
Local Open Scope Z_scope.

Section EdgeData.
Variables (m : nat) (T : table) (idx : list Z).
Hypothesis Hstd : std_table m T.
Hypothesis Hidx : Forall (fun i => 0 <= i < Z.of_nat (length T)) idx.

Local Notation E := (edges T).
Local Notation ei := (c09_edge_indices (face_edges T m) idx).
Local Notation ni := (c09_node_indices T idx).

(* both end nodes of a recorded edge are recorded nodes *)
Lemma recorded_edge_nodes e : In e ei -> In (fst (nthP E (Z.to_nat e))) ni /\ In (snd (nthP E (Z.to_nat e))) ni.
Proof.
  intros He. destruct (proj1 (ei_char m T idx Hstd Hidx e) He) as (i & r & j & e0 & Hi & Hr & Hj & -> & Hq).
  rewrite Nat2Z.id. unfold nthP. rewrite (nth_error_nth _ _ _ Hq). fold (nthP (cyc_pairs (corners r)) j).
  assert (Hrin : In r T) by (eapply nth_error_In; exact Hr).
  pose proof Hstd as Hs. unfold std_table in Hs. rewrite Forall_forall in Hs. destruct (Hs r Hrin) as [_ Hsr].
  destruct (std_row_inv r Hsr) as (c & n & Heq & Hc & Hcor & Hff).
  set (q := nthP (cyc_pairs (corners r)) j).
  assert (Hq_in : In q (cyc_pairs (corners r))).
  { subst q. unfold nthP. apply nth_In. rewrite Hcor, cyc_pairs_length. rewrite Hff in Hj. exact Hj. }
  (* both components of a consecutive corner pair are corners of r, hence real nodes of a selected face *)
  assert (Hcomp : In (fst q) c /\ In (snd q) c).
  { rewrite Hcor in Hq_in. unfold cyc_pairs in Hq_in. destruct c as [|x c']; [destruct Hq_in|].
    destruct q as [qa qb]. cbn [fst snd]. split.
    - exact (in_combine_l _ _ _ _ Hq_in).
    - pose proof (in_combine_r _ _ _ _ Hq_in) as H. apply in_app_or in H.
      destruct H as [H|[<-|[]]]; [right; exact H|left; reflexivity]. }
  assert (Hnode : forall x, In x c -> In x ni).
  { intros x Hx. unfold c09_node_indices. apply (proj2 (faces_touching_spec T idx x)). split.
    - rewrite Forall_forall in Hc. specialize (Hc x Hx). unfold FILL. lia.
    - exists i. split; [exact Hi|].
      assert (Hn : nth (Z.to_nat i) T [] = r) by (apply nth_error_nth; exact Hr).
      cut (In x r); [rewrite <- Hn; exact (fun H => H)|]. rewrite Heq. apply in_or_app. left. exact Hx. }
  destruct Hcomp as [H1 H2].
  unfold norm_pair. destruct (fst q <=? snd q); simpl; split; apply Hnode; assumption.
Qed.

(* the k-th edge carried by the subset, read back through the recorded node indices, is source edge ei[k] *)
Theorem carried_edge_back k e : nth_error ei k = Some e ->
  exists q, nth_error (fst (c09_slice_edge_table T m idx)) k = Some q /\
            pmap (c09_back ni) q = nthP E (Z.to_nat e).
Proof.
  intros Hk. unfold c09_slice_edge_table. cbn [fst]. unfold c09_pick_edges. rewrite map_map.
  eexists. split; [exact (map_nth_error _ k _ Hk)|].
  destruct (recorded_edge_nodes e (nth_error_In _ _ Hk)) as [H1 H2].
  unfold c09_pmap, pmap. cbn [fst snd].
  rewrite !back_renumber by (intros _; assumption).
  destruct (nthP E (Z.to_nat e)); reflexivity.
Qed.

(* ... and so is the k-th edge the subset derives itself *)
Corollary derived_edge_back k e : nth_error ei k = Some e ->
  exists q, nth_error (edges (fst (c09_slice_faces T idx))) k = Some q /\
            pmap (c09_back ni) q = nthP E (Z.to_nat e).
Proof.
  intros Hk. rewrite <- (slice_edge_table_eq m T idx Hstd Hidx). apply carried_edge_back. exact Hk.
Qed.

(* edge-centred data gathered with the recorded edge indices sit on that same edge *)
Theorem edge_data_aligned {A} (d : A) (data : list A) k e : nth_error ei k = Some e ->
  nth_error (c09_gather d data ei) k = Some (nth (Z.to_nat e) data d) /\
  exists q, nth_error (edges (fst (c09_slice_faces T idx))) k = Some q /\ pmap (c09_back ni) q = nthP E (Z.to_nat e).
Proof. intros Hk. split; [apply gather_spec; exact Hk|apply derived_edge_back; exact Hk]. Qed.

(* as many edges as recorded indices *)
Theorem derived_edge_count : length (edges (fst (c09_slice_faces T idx))) = length ei.
Proof.
  rewrite <- (slice_edge_table_eq m T idx Hstd Hidx). unfold c09_slice_edge_table, c09_pick_edges. cbn [fst].
  rewrite !map_length. reflexivity.
Qed.
End EdgeData.

Example edge_data_ex :
  let T := [[0;1;2;FILL];[1;3;4;2];[5;1;0;FILL]] in
  let ei := c09_edge_indices (face_edges T 4) [2;0] in
  ei = [0;1;2;3;5] /\ c09_gather 0 [10;11;12;13;14;15;16;17] ei = [10;11;12;13;15] /\
  map (pmap (c09_back (c09_node_indices T [2;0]))) (edges (fst (c09_slice_faces T [2;0]))) = map (fun e => nthP (edges T) (Z.to_nat e)) ei.
Proof. vm_compute. repeat split. Qed.
