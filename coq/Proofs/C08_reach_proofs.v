(* C08: a read derives only what it needs.  (1) repeating a read changes nothing (idempotence);  (2) the variables present
   after a read are the ones present before plus members of the dependency closure of the requested variable — so an
   export gains exactly "derived variables computed so far", never anything unrelated. *)
From Coq Require Import String ZifyBool.
From Verif Require Import Base C08 C08_proofs.

Lemma derive_present_id fuel s v : c08_present s v = true -> c08_derive fuel s v = s.
Proof. destruct fuel as [|f]; simpl; [reflexivity|]. intros ->. reflexivity. Qed.

Theorem step_idempotent s o : c08_step (c08_step s o) o = c08_step s o.
Proof.
  destruct o as [v| | |]; unfold c08_step; try reflexivity;
    apply derive_present_id; apply derive_present; unfold c08_fuel; lia.
Qed.

(* the dependency closure of a variable, to the depth the getter explores *)
Fixpoint c08_reach (fuel : nat) (v : c08_var) : list c08_var :=
  match fuel with
  | O => []
  | S f => v :: flat_map (c08_reach f) (c08_deps v)
  end.

Lemma present_cons_inv s v w x : c08_present ((w, x) :: s) v = true -> v = w \/ c08_present s v = true.
Proof.
  unfold c08_present. simpl. destruct (c08_var_eqb v w) eqn:E; [left; apply var_eqb_eq; exact E|right; assumption].
Qed.

Lemma derive_only_reach fuel : forall s w v,
  c08_present (c08_derive fuel s w) v = true -> c08_present s v = true \/ In v (c08_reach fuel w).
Proof.
  induction fuel as [|f IH]; intros s w v H; simpl in *; [left; exact H|].
  destruct (c08_present s w) eqn:E; [left; exact H|].
  apply present_cons_inv in H. destruct H as [->|H]; [right; left; reflexivity|].
  assert (forall l s0, c08_present (fold_left (c08_derive f) l s0) v = true ->
            c08_present s0 v = true \/ In v (flat_map (c08_reach f) l)) as Hfold.
  { induction l as [|d l IHl]; intros s0 H0; simpl in *; [left; exact H0|].
    destruct (IHl _ H0) as [H1|H1].
    - destruct (IH _ _ _ H1) as [H2|H2]; [left; exact H2|right; apply in_or_app; left; exact H2].
    - right. apply in_or_app. right. exact H1. }
  destruct (Hfold _ _ H) as [H1|H1]; [left; exact H1|right; right; exact H1].
Qed.

Definition c08_requested (o : c08_op) : list c08_var :=
  match o with OpGet v => c08_reach c08_fuel v | OpAreas => c08_reach c08_fuel V_NPF | _ => [] end.

Theorem step_only_requested s o v :
  c08_present (c08_step s o) v = true -> c08_present s v = true \/ In v (c08_requested o).
Proof.
  destruct o as [w| | |]; unfold c08_step, c08_requested; intros H; try (left; exact H); apply derive_only_reach; exact H.
Qed.

Theorem run_only_requested ops : forall s v,
  c08_present (c08_run s ops) v = true -> c08_present s v = true \/ In v (flat_map c08_requested ops).
Proof.
  induction ops as [|o ops IH]; intros s v H; simpl in *; [left; exact H|].
  destruct (IH _ _ H) as [H1|H1].
  - destruct (step_only_requested _ _ _ H1) as [H2|H2]; [left; exact H2|right; apply in_or_app; left; exact H2].
  - right. apply in_or_app. right. exact H1.
Qed.

(* the closure contains nothing of higher rank than the request: asking for a connectivity never derives, say, bounds *)
Lemma reach_rank fuel : forall w v, In v (c08_reach fuel w) -> (rank v <= rank w)%nat.
Proof.
  induction fuel as [|f IH]; intros w v H; simpl in H; [destruct H|].
  destruct H as [<-|H]; [lia|]. apply in_flat_map in H. destruct H as (d & Hd & Hv).
  pose proof (deps_rank _ _ Hd). pose proof (IH _ _ Hv). lia.
Qed.

(* exports and pure queries store nothing at all *)
Theorem pure_ops_store_nothing s o : o = OpEncodeUgrid \/ o = OpPure -> c08_step s o = s.
Proof. intros [->| ->]; reflexivity. Qed.

(* no variable is ever stored twice: the dataset keeps one entry per name *)
Lemma names_present s v : In v (c08_names s) <-> c08_present s v = true.
Proof.
  unfold c08_names, c08_present. induction s as [|[w x] s IH]; simpl; [split; [tauto|discriminate]|].
  destruct (c08_var_eqb v w) eqn:E.
  - split; [reflexivity|]. intros _. left. symmetry. apply var_eqb_eq. exact E.
  - rewrite <- IH. split; [intros [->|H]; [rewrite var_eqb_refl in E; discriminate|exact H]|tauto].
Qed.

Lemma derive_nodup fuel : forall s w, NoDup (c08_names s) -> NoDup (c08_names (c08_derive fuel s w)).
Proof.
  induction fuel as [|f IH]; intros s w H; simpl; [exact H|].
  destruct (c08_present s w) eqn:E; [exact H|].
  assert (forall l s0, NoDup (c08_names s0) -> c08_present s0 w = false ->
            (forall d, In d l -> (rank d < rank w)%nat) ->
            NoDup (c08_names (fold_left (c08_derive f) l s0)) /\ c08_present (fold_left (c08_derive f) l s0) w = false) as Hfold.
  { induction l as [|d l IHl]; intros s0 Hn Hp Hr; simpl; [split; assumption|].
    apply IHl; [apply IH; exact Hn| |intros d' Hd'; apply Hr; right; exact Hd'].
    destruct (c08_present (c08_derive f s0 d) w) eqn:E2; [|reflexivity].
    destruct (derive_only_reach _ _ _ _ E2) as [H1|H1]; [congruence|].
    pose proof (reach_rank _ _ _ H1). pose proof (Hr d (or_introl eq_refl)). lia. }
  destruct (Hfold (c08_deps w) s H E (deps_rank w)) as [Hn Hp].
  unfold c08_names. simpl. constructor; [|exact Hn].
  intros Hin. apply names_present in Hin. congruence.
Qed.

Theorem run_nodup ops : forall s, NoDup (c08_names s) -> NoDup (c08_names (c08_run s ops)).
Proof.
  induction ops as [|o ops IH]; intros s H; simpl; [exact H|]. apply IH.
  destruct o as [v| | |]; unfold c08_step; try exact H; apply derive_nodup; exact H.
Qed.

Example reach_example :
  c08_requested (OpGet V_FF) = [V_FF; V_EF; V_FE; V_EN; V_NPF; V_FE; V_EN] /\
  c08_names (c08_run [] [OpGet V_FF; OpAreas; OpGet V_FE]) = [V_FF; V_EF; V_NPF; V_FE; V_EN].
Proof. vm_compute. split; reflexivity. Qed.
