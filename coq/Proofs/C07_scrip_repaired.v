(* C07, SCRIP with the proposed repair (encoder repeats the last corner of shorter faces, reader
   turns repeated trailing corners back into padding): grids MIXING face sizes come back with the
   same faces, in the same order, with the same corner positions in the same cyclic order.
   Unbounded (induction over rows and tables). *)
From Coq Require Import ZifyBool Permutation.
From Verif Require Import Base C07 C07_proofs C07_exodus_repaired.
Local Open Scope Z_scope.

(* ---- the reader's trailing-repeat rule ---- *)

Lemma c07_rev_repeat {A} (x : A) n : rev (repeat x n) = repeat x n.
Proof.
  induction n as [|n IH]; [reflexivity|]. simpl. rewrite IH. symmetry. apply c07_repeat_snoc.
Qed.

Definition c07_head_differs (a : Z) (L : list Z) : Prop :=
  match L with [] => True | b :: _ => a <> b end.

Lemma c07_trail_go_stop a L : c07_head_differs a L -> c07_trail_go (a :: L) = a :: L.
Proof.
  destruct L as [|b L]; simpl; [reflexivity|]. intros H. destruct (a =? b) eqn:E; [lia|reflexivity].
Qed.

Lemma c07_trail_go_eq a l : c07_trail_go (a :: a :: l) = -1 :: c07_trail_go (a :: l).
Proof. simpl. rewrite Z.eqb_refl. reflexivity. Qed.

Lemma c07_trail_go_repeat a n L : c07_head_differs a L ->
  c07_trail_go (repeat a (S n) ++ L) = repeat (-1) n ++ a :: L.
Proof.
  intros H. induction n as [|n IH].
  - simpl repeat. simpl app. apply c07_trail_go_stop. exact H.
  - change (repeat a (S (S n)) ++ L) with (a :: a :: (repeat a n ++ L)).
    rewrite c07_trail_go_eq.
    change (a :: repeat a n ++ L) with (repeat a (S n) ++ L). rewrite IH. reflexivity.
Qed.

Lemma c07_trailing_pad_spec A a n : c07_head_differs a (rev A) ->
  c07_trailing_pad (A ++ a :: repeat a n) = A ++ a :: repeat (-1) n.
Proof.
  intros H. unfold c07_trailing_pad.
  rewrite rev_app_distr. change (a :: repeat a n) with (repeat a (S n)). rewrite c07_rev_repeat.
  rewrite c07_trail_go_repeat by exact H.
  rewrite rev_app_distr. simpl rev. rewrite rev_involutive, c07_rev_repeat. rewrite <- app_assoc. reflexivity.
Qed.

Lemma c07_map_repeat {A B} (f : A -> B) x n : map f (repeat x n) = repeat (f x) n.
Proof. induction n as [|n IH]; simpl; [reflexivity|]. rewrite IH. reflexivity. Qed.

(* ---- the encoder's fill rule on a standard-form row ---- *)

Lemma c07_filter_nonfill l n : Forall (fun x => 0 <= x) l ->
  filter (fun x => negb (is_fill x)) (l ++ repeat FILL n) = l.
Proof.
  induction 1 as [|x l Hx _ IH]; simpl.
  - induction n as [|n IHn]; simpl; [reflexivity|exact IHn].
  - unfold is_fill at 1, FILL at 1. destruct (x =? -9223372036854775808) eqn:E; [lia|]. simpl. f_equal. exact IH.
Qed.

Lemma c07_fill_row_std c z n : Forall (fun x => 0 <= x) (c ++ [z]) ->
  c07_scrip_fill_row ((c ++ [z]) ++ repeat FILL n) = (c ++ [z]) ++ repeat z n.
Proof.
  intros H. unfold c07_scrip_fill_row. rewrite c07_filter_nonfill by exact H.
  assert (Hn : nth (length (c ++ [z]) - 1) ((c ++ [z]) ++ repeat FILL n) FILL = z).
  { rewrite app_length. simpl length. replace (length c + 1 - 1)%nat with (length c) by lia.
    rewrite <- app_assoc. rewrite app_nth2 by lia. rewrite Nat.sub_diag. reflexivity. }
  rewrite Hn. clear Hn. rewrite map_app. f_equal.
  - rewrite <- (map_id (c ++ [z])) at 2. apply map_ext_in. intros x Hx. rewrite Forall_forall in H.
    specialize (H x Hx). unfold is_fill, FILL. destruct (x =? -9223372036854775808) eqn:E; [lia|reflexivity].
  - induction n as [|n IH]; simpl; [reflexivity|]. rewrite IH. reflexivity.
Qed.

(* ---- the decoder's shape on a rectangular corner table ---- *)

Definition c07_U (C : list (list (Z * Z))) : list (Z * Z) := c07_unique (concat C).
Definition c07_I (C : list (list (Z * Z))) (p : Z * Z) : Z := Z.of_nat (c07_index_of p (c07_U C)).
Definition c07_unfill (x : Z) : Z := if x =? -1 then FILL else x.

Lemma c07_read_scrip_shape pad m C : Forall (fun r => length r = m) C ->
  c07_read_scrip pad true C =
  Some {| dc_fnc := map (map c07_unfill)
                        (if pad then map c07_trailing_pad (map (map (c07_I C)) C) else map (map (c07_I C)) C);
          dc_lon := map fst (c07_U C); dc_lat := map snd (c07_U C) |}.
Proof.
  intros HC. unfold c07_read_scrip. fold (c07_U C).
  assert (Hrows : c07_chunk (match C with r :: _ => length r | [] => 0%nat end) (length C)
                    (map (fun p => Z.of_nat (c07_index_of p (c07_U C))) (concat C)) = map (map (c07_I C)) C).
  { destruct C as [|r0 C']; [reflexivity|].
    assert (Hm : length r0 = m) by (inversion HC; assumption). rewrite Hm.
    rewrite concat_map. rewrite <- flat_map_concat_map.
    apply (c07_chunk_flat_map (map (c07_I (r0 :: C'))) m (r0 :: C')).
    eapply Forall_impl; [|exact HC]. simpl. intros r Hr. rewrite map_length. exact Hr. }
  rewrite Hrows. reflexivity.
Qed.

(* ---- positions ---- *)

Definition c07_pos (lon lat : list Z) (i : Z) : Z * Z := (nth (Z.to_nat i) lon 0, nth (Z.to_nat i) lat 0).

Lemma c07_I_spec C p : In p (concat C) ->
  (nth (Z.to_nat (c07_I C p)) (map fst (c07_U C)) 0, nth (Z.to_nat (c07_I C p)) (map snd (c07_U C)) 0) = p.
Proof.
  intros H. unfold c07_I. rewrite Nat2Z.id. rewrite c07_nth_pair.
  apply c07_index_of_spec. unfold c07_U. apply c07_unique_In. exact H.
Qed.

Lemma c07_I_inj C p q : In p (concat C) -> In q (concat C) -> c07_I C p = c07_I C q -> p = q.
Proof.
  intros Hp Hq E. rewrite <- (c07_I_spec C p Hp), <- (c07_I_spec C q Hq), E. reflexivity.
Qed.

Lemma c07_NoDup_last_two {A} (l : list A) a b : NoDup (l ++ [a; b]) -> a <> b.
Proof.
  induction l as [|x l IH]; simpl; intros H.
  - inversion H as [|? ? Hni _]; subst. intros ->. apply Hni. left. reflexivity.
  - inversion H; subst. auto.
Qed.

Theorem c07_scrip_repaired_roundtrip m t lon lat :
  std_table m t ->
  Forall (fun r => corners r <> [] /\
                   Forall (fun i => 0 <= i < Z.of_nat (length lon)) (corners r) /\
                   NoDup (map (c07_pos lon lat) (corners r))) t ->
  exists c d, c07_encode_scrip true t lon lat = Some c /\ c07_read_scrip true true c = Some d /\
    c07_positions (dc_lon d) (dc_lat d) (dc_fnc d) = c07_positions lon lat t /\
    length (dc_fnc d) = length t.
Proof.
  intros Hstd Hrows. unfold std_table in Hstd. rewrite Forall_forall in Hstd, Hrows.
  (* every row: corners ++ [last] ++ padding *)
  assert (Hshape : forall r, In r t -> exists c0 z n,
             r = (c0 ++ [z]) ++ repeat FILL n /\ corners r = c0 ++ [z] /\ Forall (fun x => 0 <= x) (c0 ++ [z])
             /\ length ((c0 ++ [z]) ++ repeat z n) = m).
  { intros r Hr. destruct (Hstd r Hr) as [Hl (c & n & -> & Hc)]. destruct (Hrows _ Hr) as (Hne & _ & _).
    rewrite c07_corners_std in Hne by exact Hc.
    destruct (exists_last Hne) as (c0 & z & ->). exists c0, z, n.
    rewrite c07_corners_std by exact Hc. repeat split; auto.
    rewrite app_length, repeat_length in *. exact Hl. }
  set (t' := map c07_scrip_fill_row t).
  set (C := c07_scrip_corners lon lat t').
  (* the filled rows are in range and rectangular *)
  assert (Ht' : forall r', In r' t' -> length r' = m /\ Forall (fun i => 0 <= i < Z.of_nat (length lon)) r').
  { intros r' Hr'. unfold t' in Hr'. apply in_map_iff in Hr'. destruct Hr' as (r & <- & Hr).
    destruct (Hshape r Hr) as (c0 & z & n & -> & Hcor & Hnn & Hlen). rewrite c07_fill_row_std by exact Hnn.
    split; [exact Hlen|]. destruct (Hrows _ Hr) as (_ & Hin & _). rewrite Hcor in Hin.
    apply Forall_app. split; [exact Hin|]. apply Forall_forall. intros x Hx. apply repeat_spec in Hx. subst x.
    rewrite Forall_forall in Hin. apply Hin. apply in_or_app. right. left. reflexivity. }
  assert (Henc : c07_encode_scrip true t lon lat = Some C).
  { unfold c07_encode_scrip. fold t'. unfold C, c07_scrip_corners. apply c07_all_some_map. intros r Hr.
    apply c07_all_some_map. intros i Hi. destruct (Ht' r Hr) as [_ Hri].
    rewrite Forall_forall in Hri. specialize (Hri i Hi).
    unfold c07_take. replace ((0 <=? i) && (i <? Z.of_nat (length lon))) with true by lia. reflexivity. }
  assert (HC : Forall (fun r => length r = m) C).
  { apply Forall_forall. intros r Hr. unfold C, c07_scrip_corners in Hr. apply in_map_iff in Hr.
    destruct Hr as (r' & <- & Hr'). rewrite map_length. apply (Ht' r' Hr'). }
  exists C. eexists. split; [exact Henc|]. split; [apply (c07_read_scrip_shape true m C HC)|].
  cbn [dc_fnc dc_lon dc_lat].
  split; [|rewrite !map_length; unfold C, c07_scrip_corners, t'; rewrite !map_length; reflexivity].
  (* row by row *)
  unfold c07_positions. unfold C at 4, c07_scrip_corners, t'. rewrite !map_map.
  apply map_ext_in. intros r Hr.
  destruct (Hshape r Hr) as (c0 & z & n & Er & Hcor & Hnn & Hlen). destruct (Hrows _ Hr) as (_ & Hin & Hnd).
  rewrite Hcor in *. rewrite Er at 1. rewrite c07_fill_row_std by exact Hnn.
  (* membership of this row's positions in the flattened corner table *)
  assert (Hmem : forall i, In i (c0 ++ [z]) -> In (c07_pos lon lat i) (concat C)).
  { intros i Hi. apply in_concat. exists (map (c07_pos lon lat) (c07_scrip_fill_row r)). split.
    - unfold C, c07_scrip_corners, t'. rewrite map_map. apply (in_map (fun x => map (c07_pos lon lat) (c07_scrip_fill_row x)) t r Hr).
    - apply in_map. rewrite Er. rewrite c07_fill_row_std by exact Hnn. apply in_or_app. left. exact Hi. }
  change (fun i => (nth (Z.to_nat i) lon 0, nth (Z.to_nat i) lat 0)) with (c07_pos lon lat).
  rewrite !map_app. rewrite !c07_map_repeat. simpl map at 2 4.
  set (I' := fun i => c07_I C (c07_pos lon lat i)).
  replace (map (c07_I C) (map (c07_pos lon lat) c0)) with (map I' c0) by (rewrite map_map; reflexivity).
  change (c07_I C (c07_pos lon lat z)) with (I' z).
  rewrite <- app_assoc. cbn [app].
  rewrite c07_trailing_pad_spec.
  - (* unfill, corners, positions *)
    rewrite map_app. cbn [map]. rewrite c07_map_repeat.
    replace (c07_unfill (-1)) with FILL by reflexivity.
    assert (Hun : forall i, c07_unfill (I' i) = I' i).
    { intros i. unfold c07_unfill, I', c07_I. destruct (Z.of_nat _ =? -1) eqn:E; [lia|reflexivity]. }
    rewrite Hun. rewrite (map_ext_in _ (fun x => x)) by (intros a Ha; apply in_map_iff in Ha;
                                                           destruct Ha as (i & <- & _); apply Hun).
    rewrite map_id.
    change (map I' c0 ++ I' z :: repeat FILL n) with (map I' c0 ++ [I' z] ++ repeat FILL n).
    rewrite app_assoc. change [I' z] with (map I' [z]). rewrite <- (map_app I' c0 [z]).
    change [c07_pos lon lat z] with (map (c07_pos lon lat) [z]). rewrite <- (map_app (c07_pos lon lat) c0 [z]).
    rewrite c07_corners_std by (apply Forall_forall; intros x Hx; apply in_map_iff in Hx;
                                destruct Hx as (i & <- & _); unfold I', c07_I; lia).
    rewrite map_map. apply map_ext_in. intros i Hi. unfold I'. apply c07_I_spec. apply Hmem. exact Hi.
  - (* the corner before the last has another position *)
    unfold c07_head_differs. rewrite <- map_rev. destruct (rev c0) as [|y rc0] eqn:Erev; [exact I|].
    cbn [map]. intros E.
    assert (Ec0 : c0 = rev rc0 ++ [y]).
    { rewrite <- (rev_involutive c0), Erev. reflexivity. }
    assert (Hy : In y (c0 ++ [z])) by (rewrite Ec0; apply in_or_app; left; apply in_or_app; right; left; reflexivity).
    assert (Hz : In z (c0 ++ [z])) by (apply in_or_app; right; left; reflexivity).
    apply (c07_I_inj C _ _ (Hmem z Hz) (Hmem y Hy)) in E.
    rewrite Ec0 in Hnd. rewrite <- app_assoc in Hnd. rewrite map_app in Hnd. cbn [app map] in Hnd.
    apply c07_NoDup_last_two in Hnd. congruence.
Qed.

Example c07_scrip_repaired_nonvacuous :
  exists c d, c07_encode_scrip true [[0; 1; 2; 3]; [2; 3; 4; FILL]] [10; 30; 20; 40; 50] [7; 5; 6; 5; 9] = Some c
    /\ c07_read_scrip true true c = Some d
    /\ c07_positions (dc_lon d) (dc_lat d) (dc_fnc d)
       = [[(10, 7); (30, 5); (20, 6); (40, 5)]; [(20, 6); (40, 5); (50, 9)]].
Proof. do 2 eexists. repeat split; vm_compute; reflexivity. Qed.

(* instantiated at the code as it is *)
Corollary c07_scrip_roundtrip_faithful m t lon lat :
  std_table m t ->
  Forall (fun r => corners r <> [] /\
                   Forall (fun i => 0 <= i < Z.of_nat (length lon)) (corners r) /\
                   NoDup (map (c07_pos lon lat) (corners r))) t ->
  exists c d, c07_encode_scrip (vr_scrip_pad c07_faithful) t lon lat = Some c /\
    c07_read_scrip (vr_scrip_pad c07_faithful) true c = Some d /\
    c07_positions (dc_lon d) (dc_lat d) (dc_fnc d) = c07_positions lon lat t /\
    length (dc_fnc d) = length t.
Proof. exact (c07_scrip_repaired_roundtrip m t lon lat). Qed.

(* before /repo 5e414c62 a padded row made the encoder index with the fill value *)
Lemma c07_scrip_mixed_before_fix_refuted :
  exists t lon lat, std_tableb 4 t = true /\
    c07_encode_scrip (vr_scrip_pad c07_before_fixes) t lon lat = None.
Proof.
  exists [[0; 1; 2; 3]; [2; 3; 4; FILL]], [0; 1; 2; 3; 4], [5; 6; 7; 8; 9]. split; vm_compute; reflexivity.
Qed.

(* the hypothesis "corner positions pairwise distinct" is needed for the LAST two corners: a face
   whose last two real corners coincide in position comes back with the repeated corner dropped
   (the reader cannot tell it from padding by repetition).  Outside the property (degenerate face);
   stated so that the boundary of C07_scrip_roundtrip is explicit. *)
Lemma c07_scrip_coinciding_last_corners :
  exists t lon lat c d,
    std_tableb 4 t = true /\
    c07_encode_scrip true t lon lat = Some c /\ c07_read_scrip true true c = Some d /\
    c07_positions lon lat t = [[(10, 7); (30, 5); (20, 6); (20, 6)]] /\
    c07_positions (dc_lon d) (dc_lat d) (dc_fnc d) = [[(10, 7); (30, 5); (20, 6)]].
Proof.
  exists [[0; 1; 2; 3]], [10; 30; 20; 20], [7; 5; 6; 6]. do 2 eexists.
  repeat split; vm_compute; reflexivity.
Qed.
