(* Proofs about Model/C06.v: integration is the area-weighted sum per leading index, linear,
   removes exactly the last (face) dimension, keeps name and grid, gives the total area on the
   constant 1, and (for the repaired dispatch) rejects node/edge data.  Unbounded: any rank, any
   sizes, any integers. *)
From Coq Require Import ZifyBool.
From Verif Require Import Base C06.

Local Open Scope Z_scope.

(* ------------------------------------------------------------------------- *)
(* lists                                                                       *)

Lemma c06_nth_skipn {A} (l : list A) n i d : nth i (skipn n l) d = nth (n + i) l d.
Proof.
  revert l. induction n as [|n IH]; intros l; [reflexivity|].
  destruct l as [|x l]; cbn [skipn Nat.add nth]; [destruct i; reflexivity|apply IH].
Qed.

Lemma c06_nth_firstn {A} (l : list A) n i d : (i < n)%nat -> nth i (firstn n l) d = nth i l d.
Proof.
  revert l i. induction n as [|n IH]; intros l i H; [lia|].
  destruct l as [|x l]; [destruct i; reflexivity|].
  destruct i; cbn [firstn nth]; [reflexivity|apply IH; lia].
Qed.

Lemma c06_rev_cons {A} (l : list A) x t d :
  rev l = x :: t -> last l d = x /\ removelast l = rev t /\ l = rev t ++ [x].
Proof.
  intros H. assert (E : l = rev t ++ [x]).
  { rewrite <- (rev_involutive l), H. reflexivity. }
  subst l. rewrite last_last, removelast_last. auto.
Qed.

Lemma c06_skipn_skipn {A} (l : list A) a b : skipn a (skipn b l) = skipn (b + a) l.
Proof.
  revert l. induction b as [|b IH]; intros l; [reflexivity|].
  destruct l as [|x l]; cbn [skipn Nat.add]; [destruct a; reflexivity|apply IH].
Qed.

Lemma c06_rows_length m k l : length (c06_rows m k l) = k.
Proof. revert l; induction k as [|k IH]; intros l; cbn; auto. Qed.

Lemma c06_rows_nth m k l i :
  (i < k)%nat -> nth i (c06_rows m k l) [] = firstn m (skipn (i * m) l).
Proof.
  revert l i. induction k as [|k IH]; intros l i H; [lia|].
  destruct i as [|i]; cbn [c06_rows nth]; [reflexivity|].
  rewrite IH by lia. rewrite c06_skipn_skipn. reflexivity.
Qed.

(* ------------------------------------------------------------------------- *)
(* sums                                                                        *)

Lemma c06_sum_ext h h' n : (forall f, (f < n)%nat -> h f = h' f) -> c06_sum h n = c06_sum h' n.
Proof.
  induction n as [|n IH]; intros H; cbn [c06_sum]; [reflexivity|].
  rewrite IH by (intros; apply H; lia). rewrite H by lia. reflexivity.
Qed.

Lemma c06_sum_shift h n : c06_sum h (S n) = h 0%nat + c06_sum (fun f => h (S f)) n.
Proof.
  induction n as [|n IH]; [cbn; lia|].
  change (c06_sum h (S (S n))) with (c06_sum h (S n) + h (S n)).
  rewrite IH. cbn [c06_sum]. lia.
Qed.

Lemma c06_sum_zero n : c06_sum (fun _ => 0) n = 0.
Proof. induction n as [|n IH]; cbn [c06_sum]; lia. Qed.

(* the dot product is the sum over the positions of the first list *)
Lemma c06_dot_sum areas row :
  c06_dot areas row = c06_sum (fun f => nth f areas 0 * nth f row 0) (length areas).
Proof.
  revert row. induction areas as [|a areas IH]; intros row; [reflexivity|].
  cbn [length]. rewrite c06_sum_shift. destruct row as [|x row]; cbn [c06_dot nth].
  - rewrite (c06_sum_ext _ (fun _ => 0)), c06_sum_zero; [lia|]. intros f _. destruct f; lia.
  - rewrite IH. reflexivity.
Qed.

(* ------------------------------------------------------------------------- *)
(* value                                                                       *)

Lemma c06_integrate_ok_inv bn g areas a r :
  c06_integrate bn g areas a = C06_ok r ->
  last (c06_shape a) 0 = c06_nface g /\ c06_shape a <> [] /\
  r = {| c06_shape := removelast (c06_shape a); c06_dims := removelast (c06_dims a);
         c06_name := c06_name a; c06_grid := c06_grid a;
         c06_data := c06_einsum areas (c06_shape a) (c06_data a) |}.
Proof.
  unfold c06_integrate. destruct (rev (c06_shape a)) as [|x t] eqn:E; [discriminate|].
  pose proof (c06_rev_cons _ _ _ 0 E) as (Hl & _ & Hs).
  destruct (bn && (last (c06_dims a) 3 =? 1)); [discriminate|].
  destruct (bn && (last (c06_dims a) 3 =? 2)); [discriminate|].
  destruct (Z.eqb_spec x (c06_nface g)) as [->|].
  - intros [= <-]. repeat split; [exact Hl|]. rewrite Hs. destruct (rev t); discriminate.
  - destruct (x =? c06_nnode g); [discriminate|]. destruct (x =? c06_nedge g); discriminate.
Qed.

Lemma c06_einsum_length areas shape data :
  length (c06_einsum areas shape data) = Z.to_nat (c06_prod (removelast shape)).
Proof. unfold c06_einsum. rewrite map_length, c06_rows_length. reflexivity. Qed.

Lemma c06_einsum_nth areas shape data i :
  (i < Z.to_nat (c06_prod (removelast shape)))%nat ->
  length areas = Z.to_nat (last shape 0) ->
  nth i (c06_einsum areas shape data) 0 =
  c06_sum (fun f => nth f areas 0 * nth (i * Z.to_nat (last shape 0) + f) data 0) (Z.to_nat (last shape 0)).
Proof.
  intros Hi Hl. unfold c06_einsum.
  rewrite (nth_indep _ 0 (c06_dot areas [])) by (rewrite map_length, c06_rows_length; exact Hi).
  rewrite map_nth. rewrite c06_rows_nth by exact Hi. rewrite c06_dot_sum, Hl.
  apply c06_sum_ext. intros f Hf. rewrite c06_nth_firstn by exact Hf. rewrite c06_nth_skipn. reflexivity.
Qed.

(* per index of the leading dimensions, the result is sum_f area[f] * value[..., f] *)
Lemma c06_value bn g areas a r :
  c06_integrate bn g areas a = C06_ok r ->
  length areas = Z.to_nat (c06_nface g) ->
  length (c06_data r) = Z.to_nat (c06_prod (removelast (c06_shape a))) /\
  forall i, (i < Z.to_nat (c06_prod (removelast (c06_shape a))))%nat ->
    nth i (c06_data r) 0 =
    c06_sum (fun f => nth f areas 0 * nth (i * Z.to_nat (c06_nface g) + f) (c06_data a) 0)
            (Z.to_nat (c06_nface g)).
Proof.
  intros H Hl. apply c06_integrate_ok_inv in H. destruct H as (Hlast & _ & ->). cbn [c06_data].
  split; [apply c06_einsum_length|]. intros i Hi. rewrite <- Hlast in *. apply c06_einsum_nth; assumption.
Qed.

(* ------------------------------------------------------------------------- *)
(* dims, name, grid                                                            *)

Lemma c06_removelast_length {A} (l : list A) : l <> [] -> S (length (removelast l)) = length l.
Proof.
  intros H. destruct (exists_last H) as (l' & x & ->). rewrite removelast_last, app_length. cbn. lia.
Qed.

Lemma c06_dims_spec bn g areas a r :
  c06_wf a -> c06_integrate bn g areas a = C06_ok r ->
  c06_shape r = removelast (c06_shape a) /\ c06_dims r = removelast (c06_dims a) /\
  S (length (c06_shape r)) = length (c06_shape a) /\
  last (c06_shape a) 0 = c06_nface g /\
  c06_name r = c06_name a /\ c06_grid r = c06_grid a /\ c06_wf r.
Proof.
  intros (Hnn & Hd & Hlen) H. apply c06_integrate_ok_inv in H. destruct H as (Hlast & Hne & ->).
  cbn [c06_shape c06_dims c06_name c06_grid c06_data]. repeat split; auto.
  - apply c06_removelast_length. exact Hne.
  - destruct (exists_last Hne) as (l' & x & E). rewrite E in Hnn |- *. rewrite removelast_last.
    apply Forall_app in Hnn. tauto.
  - assert (Hd' : c06_dims a <> []) by (intros E; rewrite E in Hd; destruct (c06_shape a); [congruence|discriminate]).
    pose proof (c06_removelast_length _ Hd'). pose proof (c06_removelast_length _ Hne).
    cbn [c06_shape c06_dims]. lia.
  - cbn [c06_shape c06_data]. rewrite c06_einsum_length.
    assert (0 <= c06_prod (removelast (c06_shape a))).
    { destruct (exists_last Hne) as (l' & x & E). rewrite E in Hnn |- *. rewrite removelast_last.
      apply Forall_app in Hnn. destruct Hnn as [Hnn _]. clear -Hnn.
      induction Hnn; cbn [c06_prod fold_right]; [lia|]. fold (c06_prod l). nia. }
    lia.
Qed.

(* ------------------------------------------------------------------------- *)
(* linearity                                                                   *)

Lemma c06_lincomb_firstn al be x y m :
  firstn m (c06_lincomb al be x y) = c06_lincomb al be (firstn m x) (firstn m y).
Proof.
  revert x y. induction m as [|m IH]; intros x y; [reflexivity|].
  destruct x as [|u x], y as [|v y]; cbn [c06_lincomb firstn]; try reflexivity.
  f_equal. apply IH.
Qed.

Lemma c06_lincomb_skipn al be x y m :
  skipn m (c06_lincomb al be x y) = c06_lincomb al be (skipn m x) (skipn m y).
Proof.
  revert x y. induction m as [|m IH]; intros x y; [reflexivity|].
  destruct x as [|u x], y as [|v y]; cbn [c06_lincomb skipn]; try reflexivity.
  - destruct (skipn m x) as [|? ?]; reflexivity.
  - apply IH.
Qed.

Lemma c06_dot_lincomb areas al be u v :
  length u = length v ->
  c06_dot areas (c06_lincomb al be u v) = al * c06_dot areas u + be * c06_dot areas v.
Proof.
  revert u v. induction areas as [|a areas IH]; intros u v H; [cbn; lia|].
  destruct u as [|p u], v as [|q v]; cbn [c06_lincomb c06_dot]; try discriminate; [lia|].
  rewrite IH by (cbn in H; lia). lia.
Qed.

Lemma c06_rows_lincomb areas al be m k x y :
  length x = length y ->
  map (c06_dot areas) (c06_rows m k (c06_lincomb al be x y)) =
  c06_lincomb al be (map (c06_dot areas) (c06_rows m k x)) (map (c06_dot areas) (c06_rows m k y)).
Proof.
  revert x y. induction k as [|k IH]; intros x y H; [reflexivity|].
  cbn [c06_rows map c06_lincomb]. f_equal.
  - rewrite c06_lincomb_firstn. apply c06_dot_lincomb. rewrite !firstn_length. lia.
  - rewrite c06_lincomb_skipn. apply IH. rewrite !skipn_length. lia.
Qed.

(* integrate (alpha a + beta b) = alpha integrate a + beta integrate b, entry by entry *)
Lemma c06_linear bn g areas a al be x y rx ry :
  length x = length y ->
  c06_integrate bn g areas (c06_with_data a x) = C06_ok rx ->
  c06_integrate bn g areas (c06_with_data a y) = C06_ok ry ->
  c06_integrate bn g areas (c06_with_data a (c06_lincomb al be x y)) =
  C06_ok (c06_with_data rx (c06_lincomb al be (c06_data rx) (c06_data ry))).
Proof.
  intros Hl Hx Hy.
  pose proof (c06_integrate_ok_inv _ _ _ _ _ Hx) as (_ & _ & Ex).
  pose proof (c06_integrate_ok_inv _ _ _ _ _ Hy) as (_ & _ & Ey).
  revert Hx. unfold c06_integrate. cbn [c06_with_data c06_shape c06_dims c06_name c06_grid c06_data].
  destruct (rev (c06_shape a)) as [|s t]; [discriminate|].
  destruct (bn && (last (c06_dims a) 3 =? 1)); [discriminate|].
  destruct (bn && (last (c06_dims a) 3 =? 2)); [discriminate|].
  destruct (s =? c06_nface g).
  - intros _. f_equal. subst rx ry. unfold c06_with_data.
    cbn [c06_with_data c06_shape c06_dims c06_name c06_grid c06_data]. f_equal.
    unfold c06_einsum. apply c06_rows_lincomb. exact Hl.
  - destruct (s =? c06_nnode g); [discriminate|]. destruct (s =? c06_nedge g); discriminate.
Qed.

(* ------------------------------------------------------------------------- *)
(* the constant 1                                                              *)

Lemma c06_dot_ones areas n : length areas = n -> c06_dot areas (repeat 1 n) = fold_right Z.add 0 areas.
Proof.
  revert n. induction areas as [|a areas IH]; intros n H; [reflexivity|].
  destruct n as [|n]; [discriminate|]. cbn [repeat c06_dot fold_right]. rewrite IH by (cbn in H; lia). lia.
Qed.

(* integrating the constant 1 over the faces gives the sum of the areas (the grid's total area) *)
Lemma c06_one bn g areas nm tg :
  0 <= c06_nface g -> length areas = Z.to_nat (c06_nface g) ->
  c06_integrate bn g areas {| c06_shape := [c06_nface g]; c06_dims := [0]; c06_name := nm; c06_grid := tg;
                              c06_data := repeat 1 (Z.to_nat (c06_nface g)) |} =
  C06_ok {| c06_shape := []; c06_dims := []; c06_name := nm; c06_grid := tg;
            c06_data := [fold_right Z.add 0 areas] |}.
Proof.
  intros H0 Hl. unfold c06_integrate. cbn [c06_shape c06_dims c06_name c06_grid c06_data rev app last].
  rewrite !andb_false_r. cbn [andb]. rewrite Z.eqb_refl. f_equal. f_equal.
  unfold c06_einsum. cbn [last removelast c06_prod fold_right]. change (Z.to_nat 1) with 1%nat.
  cbn [c06_rows map]. f_equal. rewrite firstn_all2 by (rewrite repeat_length; lia).
  apply c06_dot_ones. exact Hl.
Qed.

(* ------------------------------------------------------------------------- *)
(* rejection of non-face data                                                  *)

(* the code as it is: data whose last size differs from n_face is never integrated ... *)
Lemma c06_reject_by_size g areas a :
  last (c06_shape a) 0 <> c06_nface g -> forall r, c06_integrate false g areas a <> C06_ok r.
Proof.
  intros H r E. apply c06_integrate_ok_inv in E. tauto.
Qed.

(* ... but node data on a grid with n_node = n_face (tetrahedron) IS integrated: refuted *)
Lemma c06_reject_refuted :
  exists g areas a r, last (c06_dims a) 3 = 1 /\ c06_wf a /\
                      c06_nnode g = c06_nface g /\ c06_integrate false g areas a = C06_ok r.
Proof.
  exists {| c06_nface := 4; c06_nnode := 4; c06_nedge := 6 |}, [3; 3; 3; 3],
         {| c06_shape := [4]; c06_dims := [1]; c06_name := 7; c06_grid := 9; c06_data := [1; 2; 3; 4] |}.
  eexists. split; [reflexivity|]. split; [|split; [reflexivity|vm_compute; reflexivity]].
  unfold c06_wf; cbn. repeat split; try reflexivity. repeat constructor; lia.
Qed.

(* the same for edge data on a grid with n_edge = n_face *)
Lemma c06_reject_edge_refuted :
  exists g areas a r, last (c06_dims a) 3 = 2 /\ c06_wf a /\
                      c06_nedge g = c06_nface g /\ c06_integrate false g areas a = C06_ok r.
Proof.
  exists {| c06_nface := 3; c06_nnode := 3; c06_nedge := 3 |}, [5; 5; 5],
         {| c06_shape := [2; 3]; c06_dims := [3; 2]; c06_name := 7; c06_grid := 9; c06_data := [1; 2; 3; 4; 5; 6] |}.
  eexists. split; [reflexivity|]. split; [|split; [reflexivity|vm_compute; reflexivity]].
  unfold c06_wf; cbn. repeat split; try reflexivity. repeat constructor; lia.
Qed.

(* dispatch on the dimension NAME (the repair): node- and edge-dimensioned data are always rejected,
   whatever the element counts *)
Lemma c06_reject_repaired g areas a :
  c06_shape a <> [] -> (last (c06_dims a) 3 = 1 \/ last (c06_dims a) 3 = 2) ->
  c06_integrate true g areas a = C06_node_error \/ c06_integrate true g areas a = C06_edge_error.
Proof.
  intros Hne H. unfold c06_integrate. destruct (rev (c06_shape a)) as [|s t] eqn:E.
  - exfalso. apply Hne. rewrite <- (rev_involutive (c06_shape a)), E. reflexivity.
  - destruct H as [-> | ->]; cbn; auto.
Qed.

(* and the repair changes nothing for face-dimensioned (or otherwise named) data *)
Lemma c06_repair_conservative g areas a :
  last (c06_dims a) 3 <> 1 -> last (c06_dims a) 3 <> 2 ->
  c06_integrate true g areas a = c06_integrate false g areas a.
Proof.
  intros H1 H2. unfold c06_integrate. destruct (rev (c06_shape a)); [reflexivity|].
  destruct (Z.eqb_spec (last (c06_dims a) 3) 1); [contradiction|].
  destruct (Z.eqb_spec (last (c06_dims a) 3) 2); [contradiction|]. reflexivity.
Qed.

(* ------------------------------------------------------------------------- *)
(* non-vacuity                                                                 *)

Example c06_value_nonvacuous :
  exists r, c06_integrate false {| c06_nface := 3; c06_nnode := 5; c06_nedge := 7 |} [2; 3; 5]
              {| c06_shape := [2; 1; 3]; c06_dims := [3; 4; 0]; c06_name := 1; c06_grid := 2;
                 c06_data := [1; 10; 100; -1; 0; 7] |} = C06_ok r
            /\ c06_data r = [532; 33] /\ c06_shape r = [2; 1] /\ c06_dims r = [3; 4].
Proof. eexists. split; [vm_compute; reflexivity|]. repeat split. Qed.

Example c06_linear_nonvacuous :
  let g := {| c06_nface := 2; c06_nnode := 4; c06_nedge := 5 |} in
  let a := {| c06_shape := [2; 2]; c06_dims := [3; 0]; c06_name := 1; c06_grid := 2; c06_data := [] |} in
  exists rx ry, c06_integrate false g [3; 4] (c06_with_data a [1; 2; 3; 4]) = C06_ok rx /\
                c06_integrate false g [3; 4] (c06_with_data a [5; 6; 7; 8]) = C06_ok ry /\
                c06_data rx = [11; 25] /\ c06_data ry = [39; 53].
Proof. eexists. eexists. split; [vm_compute; reflexivity|]. split; [vm_compute; reflexivity|]. split; reflexivity. Qed.

(* ------------------------------------------------------------------------- *)
(* the current tree (c06_integrate_cur = name check first)                      *)

(* node- and edge-dimensioned data are rejected, whatever the element counts and leading dims *)
Lemma c06_reject_cur g areas a :
  c06_shape a <> [] -> (last (c06_dims a) 3 = 1 \/ last (c06_dims a) 3 = 2) ->
  forall r, c06_integrate_cur g areas a <> C06_ok r.
Proof.
  intros Hne H r E. destruct (c06_reject_repaired g areas a Hne H) as [H1|H1];
    unfold c06_integrate_cur in E; rewrite H1 in E; discriminate.
Qed.

(* whatever is integrated has a last dimension that is not named n_node / n_edge and has n_face entries *)
Lemma c06_accept_cur g areas a r :
  c06_integrate_cur g areas a = C06_ok r ->
  last (c06_dims a) 3 <> 1 /\ last (c06_dims a) 3 <> 2 /\ last (c06_shape a) 0 = c06_nface g.
Proof.
  intros E. pose proof (c06_integrate_ok_inv _ _ _ _ _ E) as (Hl & Hne & _).
  split; [|split; [|exact Hl]]; intros H;
    [destruct (c06_reject_repaired g areas a Hne (or_introl H)) as [H1|H1]
    |destruct (c06_reject_repaired g areas a Hne (or_intror H)) as [H1|H1]];
    unfold c06_integrate_cur in E; rewrite H1 in E; discriminate.
Qed.

Example c06_reject_cur_nonvacuous :
  c06_integrate_cur {| c06_nface := 4; c06_nnode := 4; c06_nedge := 6 |} [3; 3; 3; 3]
     {| c06_shape := [4]; c06_dims := [1]; c06_name := 7; c06_grid := 9; c06_data := [1; 2; 3; 4] |} = C06_node_error
  /\ exists r, c06_integrate_cur {| c06_nface := 4; c06_nnode := 4; c06_nedge := 6 |} [3; 3; 3; 3]
     {| c06_shape := [4]; c06_dims := [0]; c06_name := 7; c06_grid := 9; c06_data := [1; 2; 3; 4] |} = C06_ok r
     /\ c06_data r = [30].
Proof. split; [reflexivity|]. eexists. split; [vm_compute; reflexivity|reflexivity]. Qed.

(* ========================================================================= *)
(* round 4: additivity over face sets, renumbering, leading-dimension order,   *)
(* boolean data, independence from the grid's stored areas and history         *)
From Coq Require Import Permutation.

(* the dot product as a sum over (area, value) pairs *)
Lemma c06_dot_combine areas row :
  c06_dot areas row = fold_right Z.add 0 (map (fun p => fst p * snd p) (combine areas row)).
Proof.
  revert row. induction areas as [|a areas IH]; intros [|x row]; cbn [c06_dot combine map fold_right]; try reflexivity.
  rewrite IH. reflexivity.
Qed.

(* additivity over disjoint face sets (sub-grids): faces 0..n1-1 and the rest *)
Lemma c06_dot_app a1 a2 r1 r2 :
  length a1 = length r1 -> c06_dot (a1 ++ a2) (r1 ++ r2) = c06_dot a1 r1 + c06_dot a2 r2.
Proof.
  revert r1. induction a1 as [|a a1 IH]; intros [|x r1] H; cbn in H; try discriminate; [reflexivity|].
  cbn [app c06_dot]. rewrite IH by lia. lia.
Qed.

Lemma c06_sum_pairs_perm (l l' : list (Z * Z)) :
  Permutation l l' ->
  fold_right Z.add 0 (map (fun p => fst p * snd p) l) = fold_right Z.add 0 (map (fun p => fst p * snd p) l').
Proof. intros H. induction H; cbn [map fold_right]; lia. Qed.

(* renumbering the faces (the same permutation applied to the areas and to the values) changes nothing *)
Lemma c06_dot_renumber areas row areas' row' :
  Permutation (combine areas row) (combine areas' row') -> c06_dot areas row = c06_dot areas' row'.
Proof. intros H. rewrite !c06_dot_combine. apply c06_sum_pairs_perm. exact H. Qed.

(* order of the leading dimensions: an array with leading shape (k1, k2) and its transpose (k2, k1)
   integrate to transposed results *)
Lemma c06_leading_transpose areas k1 k2 m data data' :
  length areas = m ->
  (forall i j f, (i < k1)%nat -> (j < k2)%nat -> (f < m)%nat ->
      nth ((j * k1 + i) * m + f) data' 0 = nth ((i * k2 + j) * m + f) data 0) ->
  forall i j, (i < k1)%nat -> (j < k2)%nat ->
    nth (j * k1 + i) (c06_einsum areas [Z.of_nat k2; Z.of_nat k1; Z.of_nat m] data') 0 =
    nth (i * k2 + j) (c06_einsum areas [Z.of_nat k1; Z.of_nat k2; Z.of_nat m] data) 0.
Proof.
  intros Hl H i j Hi Hj.
  assert (P1 : Z.to_nat (c06_prod (removelast [Z.of_nat k2; Z.of_nat k1; Z.of_nat m])) = (k2 * k1)%nat).
  { cbn [removelast c06_prod fold_right]. lia. }
  assert (P2 : Z.to_nat (c06_prod (removelast [Z.of_nat k1; Z.of_nat k2; Z.of_nat m])) = (k1 * k2)%nat).
  { cbn [removelast c06_prod fold_right]. lia. }
  rewrite !c06_einsum_nth; cbn [last]; rewrite ?Nat2Z.id; try assumption; try nia.
  apply c06_sum_ext. intros f Hf. rewrite H by assumption. reflexivity.
Qed.

(* boolean (0/1) data: the integral is the area of the selected faces -- exact, nothing truncated *)
Lemma c06_dot_mask areas mask :
  Forall (fun m => m = 0 \/ m = 1) mask -> c06_dot areas mask = c06_mask_sum areas mask.
Proof.
  revert mask. induction areas as [|a areas IH]; intros [|m mask] H; cbn [c06_dot c06_mask_sum]; try reflexivity.
  inversion H as [|? ? Hm Hr]; subst. rewrite IH by exact Hr. destruct Hm as [-> | ->]; cbn; lia.
Qed.

(* integer data: the integral is the exact integer combination of the (scaled) areas; scaling the data
   by an integer scales the integral by the same integer (no truncation anywhere) *)
Lemma c06_dot_scale areas row c : c06_dot areas (map (Z.mul c) row) = c * c06_dot areas row.
Proof.
  revert row. induction areas as [|a areas IH]; intros [|x row]; cbn [map c06_dot]; try lia. rewrite IH. lia.
Qed.

(* ---- the grid's stored areas and history ---- *)
Lemma c06_integrate_grid_state_free areas_of g s s' rule order a :
  c06_integrate_grid areas_of g s rule order a = c06_integrate_grid areas_of g s' rule order a.
Proof. reflexivity. Qed.

(* after ANY history (earlier integrates, compute_face_areas calls, face_areas reads, assignments of
   face_areas) integrate(rule, order) is the area-weighted sum with the freshly computed areas *)
Lemma c06_history_independent areas_of g dr dor ops s rule order a :
  c06_integrate_grid areas_of g (c06_grun areas_of dr dor s ops) rule order a =
  c06_integrate_cur g (areas_of rule order) a.
Proof. reflexivity. Qed.

(* integrate never changes what the grid stores *)
Lemma c06_integrate_keeps_state areas_of dr dor s rule order a :
  c06_gstep areas_of dr dor s (C06_op_integrate rule order a) = s.
Proof. reflexivity. Qed.

(* ---- which dimension is integrated ---- *)
(* a last dimension NAMED n_face of n_face entries is always integrated ... *)
Lemma c06_face_dim_integrated g areas a :
  c06_shape a <> [] -> last (c06_dims a) 3 = 0 -> last (c06_shape a) 0 = c06_nface g ->
  exists r, c06_integrate_cur g areas a = C06_ok r.
Proof.
  intros Hne Hd Hs. unfold c06_integrate_cur, c06_integrate.
  destruct (rev (c06_shape a)) as [|x t] eqn:E.
  - exfalso. apply Hne. rewrite <- (rev_involutive (c06_shape a)), E. reflexivity.
  - pose proof (c06_rev_cons _ _ _ 0 E) as (Hl & _). rewrite Hd. cbn [andb Z.eqb].
    rewrite <- Hl, Hs, Z.eqb_refl. eexists. reflexivity.
Qed.

(* ... but the code still decides by SIZE for every other name: a last dimension named "time" that
   happens to have n_face entries is integrated as if it were the face dimension (PARTIAL: the property
   quantifies over arrays whose face dimension is last, where this cannot be observed) *)
Lemma c06_only_face_named_dims_refuted :
  exists g areas a r, last (c06_dims a) 3 = 3 /\ c06_wf a /\ c06_integrate_cur g areas a = C06_ok r.
Proof.
  exists {| c06_nface := 2; c06_nnode := 4; c06_nedge := 5 |}, [3; 4],
         {| c06_shape := [2; 2]; c06_dims := [0; 3]; c06_name := 7; c06_grid := 9; c06_data := [1; 2; 3; 4] |}.
  eexists. split; [reflexivity|]. split; [|vm_compute; reflexivity].
  unfold c06_wf; cbn. repeat split; try reflexivity. repeat constructor; lia.
Qed.

(* ---- non-vacuity ---- *)
Example c06_additive_nonvacuous :
  c06_dot ([2; 3] ++ [5]) ([10; 100] ++ [7]) = c06_dot [2; 3] [10; 100] + c06_dot [5] [7] /\ c06_dot [2; 3] [10; 100] = 320.
Proof. split; reflexivity. Qed.

Example c06_renumber_nonvacuous :
  Permutation (combine [2; 3; 5] [10; 100; 7]) (combine [5; 2; 3] [7; 10; 100]) /\
  c06_dot [2; 3; 5] [10; 100; 7] = 355 /\ c06_dot [5; 2; 3] [7; 10; 100] = 355.
Proof.
  split; [|split; reflexivity]. cbn [combine].
  apply Permutation_sym. apply (Permutation_cons_app [(2, 10); (3, 100)] [] (5, 7)). rewrite app_nil_r. apply Permutation_refl.
Qed.

Example c06_transpose_nonvacuous :
  c06_einsum [2; 3] [2; 3; 2] [1; 2; 3; 4; 5; 6; 7; 8; 9; 10; 11; 12] = [8; 18; 28; 38; 48; 58] /\
  c06_einsum [2; 3] [3; 2; 2] [1; 2; 7; 8; 3; 4; 9; 10; 5; 6; 11; 12] = [8; 38; 18; 48; 28; 58].
Proof. split; reflexivity. Qed.

Example c06_mask_nonvacuous : c06_dot [2; 3; 5; 7] [1; 0; 1; 1] = 14 /\ c06_mask_sum [2; 3; 5; 7] [1; 0; 1; 1] = 14.
Proof. split; reflexivity. Qed.

Example c06_history_nonvacuous :
  let areas_of := fun rule order => if rule =? 1 then [2; 3; 5] else [20; 30; 50] in
  let g := {| c06_nface := 3; c06_nnode := 5; c06_nedge := 7 |} in
  let a := {| c06_shape := [3]; c06_dims := [0]; c06_name := 1; c06_grid := 2; c06_data := [1; 1; 1] |} in
  let s := c06_grun areas_of 1 4 {| c06_stored_areas := None; c06_stored_jac := None |}
                    [C06_op_assign_face_areas [1000; 1000; 1000]; C06_op_read_face_areas; C06_op_integrate 0 3 a] in
  c06_stored_areas s = Some [1000; 1000; 1000] /\
  exists r, c06_integrate_grid areas_of g s 1 4 a = C06_ok r /\ c06_data r = [10].
Proof. cbv zeta. split; [reflexivity|]. eexists. split; [vm_compute; reflexivity|reflexivity]. Qed.

Example c06_face_dim_nonvacuous :
  exists r, c06_integrate_cur {| c06_nface := 2; c06_nnode := 2; c06_nedge := 2 |} [3; 4]
              {| c06_shape := [2]; c06_dims := [0]; c06_name := 1; c06_grid := 2; c06_data := [1; 1] |} = C06_ok r
            /\ c06_data r = [7].
Proof. eexists. split; [vm_compute; reflexivity|reflexivity]. Qed.
