(* C07, the part that needs real trigonometry: what the Exodus encoder writes into "coord".
   The executable model keeps the conversion symbolic (C07_CoordFromLonLat deg2rad lon lat);
   here its two readings are given their meaning over R. *)
From Coq Require Import Reals Lra.
Local Open Scope R_scope.

(* uxarray.grid.coordinates._lonlat_rad_to_xyz *)
Definition c07_xyz_of_rad (lon lat : R) : R * R * R := (cos lon * cos lat, sin lon * cos lat, sin lat).
Definition c07_deg2rad (a : R) : R := a * PI / 180.

(* the point of the unit sphere a node with node_lon = lon, node_lat = lat (degrees) denotes *)
Definition c07_true_point (lon lat : R) : R * R * R := c07_xyz_of_rad (c07_deg2rad lon) (c07_deg2rad lat).

(* what _encode_exodus stores when node_x is absent: with / without the degree -> radian step *)
Definition c07_exo_point (deg2rad : bool) (lon lat : R) : R * R * R :=
  if deg2rad then c07_xyz_of_rad (c07_deg2rad lon) (c07_deg2rad lat) else c07_xyz_of_rad lon lat.

Lemma c07_exo_point_repaired lon lat : c07_exo_point true lon lat = c07_true_point lon lat.
Proof. reflexivity. Qed.

(* the code as it is: a node at (lon 0, lat 1 degree) is stored 47 degrees further north *)
Lemma c07_exo_point_refuted :
  exists lon lat, -180 <= lon <= 180 /\ -90 <= lat <= 90 /\
                  c07_exo_point false lon lat <> c07_true_point lon lat.
Proof.
  exists 0, 1. split; [lra|]. split; [lra|].
  unfold c07_exo_point, c07_true_point, c07_xyz_of_rad, c07_deg2rad. intros H.
  assert (Hz : sin 1 = sin (1 * PI / 180)) by (injection H; intros; assumption).
  (* sin 1 >= 1 - 1/6 (Taylor lower bound), sin (PI/180) < PI/180 <= 4/180 *)
  assert (Hlow : 5 / 6 <= sin 1).
  { destruct (pre_sin_bound 1 0) as [Hl _]; [lra|lra|].
    unfold sin_approx, sin_term in Hl. simpl in Hl. lra. }
  assert (Hup : sin (1 * PI / 180) < 1 * PI / 180).
  { apply sin_lt_x. pose proof PI_RGT_0. lra. }
  pose proof PI_4. lra.
Qed.

(* the stored point is a unit vector in both readings (so the reader's normalisation is the identity) *)
Lemma c07_xyz_unit lon lat :
  let '(x, y, z) := c07_xyz_of_rad lon lat in x * x + y * y + z * z = 1.
Proof.
  unfold c07_xyz_of_rad.
  pose proof (sin2_cos2 lon) as H1. pose proof (sin2_cos2 lat) as H2. unfold Rsqr in *. nra.
Qed.
