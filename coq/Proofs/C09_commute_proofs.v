(* Derived edge tables commute with face slicing: the edge table built on a subset equals the
   renumbered edge table built on the selected source rows (same set, same order), because the
   renumbering through the sorted-unique node list is strictly monotone and keeps the fill value. *)
From Coq Require Import Sorting.Mergesort Sorting.Sorted Permutation RelationClasses ZifyBool.
From Verif Require Import Base C02 C02_proofs C09 C09_proofs.
Local Open Scope Z_scope.

Definition pmap (f : Z -> Z) (q : Z * Z) : Z * Z := (f (fst q), f (snd q)).

(* a renumbering that is good on a set D of values: keeps FILL, sends real values to real values,
   strictly monotone *)
Record good_ren (f : Z -> Z) (D : Z -> Prop) : Prop := {
  gr_fill : f FILL = FILL;
  gr_real : forall x, D x -> x <> FILL -> 0 <= f x;
  gr_mono : forall x y, D x -> D y -> x <> FILL -> y <> FILL -> x < y -> f x < f y
}.

Definition dom_ok (D : Z -> Prop) (x : Z) : Prop := x = FILL \/ (D x /\ 0 <= x).

Section Commute.
Variable f : Z -> Z.
Variable D : Z -> Prop.
Hypothesis Hf : good_ren f D.

Lemma f_fill_iff x : dom_ok D x -> (is_fill (f x) = is_fill x).
Proof.
  intros [->|[Hd Hx]].
  - rewrite (gr_fill f D Hf). reflexivity.
  - assert (x <> FILL) by (unfold FILL; lia).
    pose proof (gr_real f D Hf x Hd H). unfold is_fill, FILL in *. lia.
Qed.

Lemma f_le x y : dom_ok D x -> dom_ok D y -> (x <= y <-> f x <= f y).
Proof.
  intros Hx Hy.
  assert (Hlt : forall a b, dom_ok D a -> dom_ok D b -> a < b -> f a < f b).
  { intros a b [->|[Da Ha]] [->|[Db Hb]] Hab.
    - lia.
    - rewrite (gr_fill f D Hf). assert (b <> FILL) by (unfold FILL; lia).
      pose proof (gr_real f D Hf b Db H). unfold FILL. lia.
    - unfold FILL in Hab. lia.
    - apply (gr_mono f D Hf); auto; unfold FILL; lia. }
  split; intro H.
  - destruct (Z.eq_dec x y) as [->|Hne]; [lia|]. assert (x < y) by lia. specialize (Hlt x y Hx Hy H0). lia.
  - destruct (Z_lt_le_dec y x) as [Hyx|]; [|assumption]. specialize (Hlt y x Hy Hx Hyx). lia.
Qed.

Lemma f_eq x y : dom_ok D x -> dom_ok D y -> (f x = f y <-> x = y).
Proof.
  intros Hx Hy. split; [|intros ->; reflexivity]. intro H.
  pose proof (proj2 (f_le x y Hx Hy)). pose proof (proj2 (f_le y x Hy Hx)). lia.
Qed.

Definition pdom (q : Z * Z) : Prop := dom_ok D (fst q) /\ dom_ok D (snd q).

Lemma norm_pmap q : pdom q -> norm_pair (pmap f q) = pmap f (norm_pair q).
Proof.
  intros [H1 H2]. destruct q as [a b]. unfold norm_pair, pmap. simpl in *.
  pose proof (f_le a b H1 H2) as Hab.
  destruct (a <=? b) eqn:E1, (f a <=? f b) eqn:E2; simpl; try reflexivity; lia.
Qed.

Lemma norm_pdom q : pdom q -> pdom (norm_pair q).
Proof. intros [H1 H2]. destruct q as [a b]. unfold norm_pair. simpl in *. destruct (a <=? b); split; assumption. Qed.

Lemma has_fill_pmap q : pdom q -> has_fill (pmap f q) = has_fill q.
Proof. intros [H1 H2]. unfold has_fill, pmap. simpl. rewrite !f_fill_iff by assumption. reflexivity. Qed.

Lemma leb_pmap p q : pdom p -> pdom q -> PairOrder.leb (pmap f p) (pmap f q) = PairOrder.leb p q.
Proof.
  intros [Hp1 Hp2] [Hq1 Hq2]. destruct p as [a b], q as [c d]. unfold PairOrder.leb, pmap. simpl in *.
  pose proof (f_le a c Hp1 Hq1). pose proof (f_le c a Hq1 Hp1). pose proof (f_le b d Hp2 Hq2).
  pose proof (f_eq a c Hp1 Hq1).
  destruct (a <? c) eqn:E1, (f a <? f c) eqn:E2, (a =? c) eqn:E3, (f a =? f c) eqn:E4,
           (b <=? d) eqn:E5, (f b <=? f d) eqn:E6; simpl; try reflexivity; lia.
Qed.

Lemma eqb_pmap p q : pdom p -> pdom q -> pair_eqb (pmap f p) (pmap f q) = pair_eqb p q.
Proof.
  intros [Hp1 Hp2] [Hq1 Hq2]. destruct p as [a b], q as [c d]. unfold pair_eqb, pmap. simpl in *.
  pose proof (f_eq a c Hp1 Hq1). pose proof (f_eq b d Hp2 Hq2).
  destruct (a =? c) eqn:E1, (f a =? f c) eqn:E2, (b =? d) eqn:E3, (f b =? f d) eqn:E4; simpl; try reflexivity; lia.
Qed.

(* ---- sorting commutes with a monotone map ---- *)
Lemma sorted_perm_unique (l1 : list (Z * Z)) : forall l2,
  StronglySorted lebP l1 -> StronglySorted lebP l2 -> Permutation l1 l2 -> l1 = l2.
Proof.
  induction l1 as [|a l1 IH]; intros l2 H1 H2 Hp.
  - apply Permutation_nil in Hp. subst. reflexivity.
  - destruct l2 as [|b l2]; [apply Permutation_sym, Permutation_nil in Hp; discriminate|].
    inversion H1 as [|? ? H1' Ha]; subst. inversion H2 as [|? ? H2' Hb]; subst.
    assert (Hab : a = b).
    { assert (Hin1 : In a (b :: l2)) by (eapply Permutation_in; [exact Hp|left; reflexivity]).
      assert (Hin2 : In b (a :: l1)) by (eapply Permutation_in; [apply Permutation_sym; exact Hp|left; reflexivity]).
      destruct Hin1 as [->|Hin1]; [reflexivity|]. destruct Hin2 as [->|Hin2]; [reflexivity|].
      rewrite Forall_forall in Ha, Hb. apply leb_antisym; [apply Ha; exact Hin2|apply Hb; exact Hin1]. }
    subst b. f_equal. apply IH; try assumption. eapply Permutation_cons_inv. exact Hp.
Qed.

Lemma sorted_map l : Forall pdom l -> StronglySorted lebP l -> StronglySorted lebP (map (pmap f) l).
Proof.
  intros Hd Hs. induction Hs as [|a l Hs IH Ha]; simpl; [constructor|].
  inversion Hd as [|? ? Hda Hdl]; subst. constructor; [apply IH; exact Hdl|].
  apply Forall_forall. intros y Hy. apply in_map_iff in Hy. destruct Hy as (x & <- & Hx).
  rewrite Forall_forall in Ha, Hdl. unfold lebP, is_true. rewrite leb_pmap by (auto). apply Ha. exact Hx.
Qed.

Lemma sort_map l : Forall pdom l -> PairSort.sort (map (pmap f) l) = map (pmap f) (PairSort.sort l).
Proof.
  intros Hd. apply sorted_perm_unique.
  - apply PairSort.StronglySorted_sort. exact leb_trans.
  - apply sorted_map.
    + apply Forall_forall. intros x Hx. rewrite Forall_forall in Hd. apply Hd.
      eapply Permutation_in; [apply Permutation_sym, PairSort.Permuted_sort|exact Hx].
    + apply PairSort.StronglySorted_sort. exact leb_trans.
  - eapply Permutation_trans; [apply Permutation_sym, PairSort.Permuted_sort|].
    apply Permutation_map. apply PairSort.Permuted_sort.
Qed.

Lemma dedup_map l : Forall pdom l -> dedup (map (pmap f) l) = map (pmap f) (dedup l).
Proof.
  induction l as [|a l IH]; intros Hd; [reflexivity|].
  inversion Hd as [|? ? Hda Hdl]; subst.
  destruct l as [|b l]; [reflexivity|].
  inversion Hdl as [|? ? Hdb _]; subst.
  change (map (pmap f) (a :: b :: l)) with (pmap f a :: pmap f b :: map (pmap f) l).
  change (dedup (pmap f a :: pmap f b :: map (pmap f) l))
    with (if pair_eqb (pmap f a) (pmap f b) then dedup (map (pmap f) (b :: l)) else pmap f a :: dedup (map (pmap f) (b :: l))).
  change (dedup (a :: b :: l)) with (if pair_eqb a b then dedup (b :: l) else a :: dedup (b :: l)).
  rewrite eqb_pmap by assumption. rewrite (IH Hdl). destruct (pair_eqb a b); reflexivity.
Qed.

Lemma filter_map l : Forall pdom l ->
  filter (fun q => negb (has_fill q)) (map (pmap f) l) = map (pmap f) (filter (fun q => negb (has_fill q)) l).
Proof.
  induction l as [|a l IH]; intros Hd; [reflexivity|]. inversion Hd; subst. simpl.
  rewrite has_fill_pmap by assumption. destruct (has_fill a); simpl; rewrite IH by assumption; reflexivity.
Qed.

(* ---- the candidate pairs of a renumbered row ---- *)
Lemma first_fill_map r : Forall (dom_ok D) r -> first_fill (map f r) = first_fill r.
Proof.
  induction r as [|x r IH]; intros H; [reflexivity|]. inversion H; subst. simpl.
  rewrite f_fill_iff by assumption. destruct (is_fill x); [reflexivity|]. f_equal. apply IH. assumption.
Qed.

Lemma combine_map (a b : list Z) : combine (map f a) (map f b) = map (pmap f) (combine a b).
Proof. revert b; induction a as [|x a IH]; intros [|y b]; simpl; try reflexivity. f_equal. apply IH. Qed.

Lemma removelast_map (l : list Z) : removelast (map f l) = map f (removelast l).
Proof. induction l as [|x l IH]; [reflexivity|]. destruct l as [|y l]; [reflexivity|]. simpl in *. f_equal. exact IH. Qed.

Lemma tl_map (l : list Z) : tl (map f l) = map f (tl l).
Proof. destruct l; reflexivity. Qed.

Lemma row_pairs_map r : Forall (dom_ok D) r -> row_pairs (map f r) = map (pmap f) (row_pairs r).
Proof.
  intros H. unfold row_pairs, close_row. rewrite first_fill_map by assumption.
  assert (Hhd : hd FILL (map f r) = f (hd FILL r)).
  { destruct r; simpl; [symmetry; apply (gr_fill f D Hf)|reflexivity]. }
  rewrite Hhd.
  assert (Hext : map f r ++ [FILL] = map f (r ++ [FILL])).
  { rewrite map_app. simpl. rewrite (gr_fill f D Hf). reflexivity. }
  rewrite Hext. rewrite !firstn_map, !skipn_map.
  change [f (hd FILL r)] with (map f [hd FILL r]). rewrite <- !map_app.
  rewrite removelast_map, tl_map. apply combine_map.
Qed.

Lemma firstn_In' {A} (l : list A) : forall n x, In x (firstn n l) -> In x l.
Proof. induction l as [|y l IH]; intros [|n] x H; simpl in *; try contradiction. destruct H as [->|H]; [left; reflexivity|right; eapply IH; exact H]. Qed.
Lemma skipn_In' {A} (l : list A) : forall n x, In x (skipn n l) -> In x l.
Proof. induction l as [|y l IH]; intros [|n] x H; simpl in *; try contradiction; try exact H. right. eapply IH. exact H. Qed.

Lemma Forall_firstn' {A} (P : A -> Prop) n (l : list A) : Forall P l -> Forall P (firstn n l).
Proof. intros H. apply Forall_forall. intros x Hx. rewrite Forall_forall in H. apply H. eapply firstn_In'. exact Hx. Qed.
Lemma Forall_skipn' {A} (P : A -> Prop) n (l : list A) : Forall P l -> Forall P (skipn n l).
Proof. intros H. apply Forall_forall. intros x Hx. rewrite Forall_forall in H. apply H. eapply skipn_In'. exact Hx. Qed.

Lemma row_pairs_pdom r : Forall (dom_ok D) r -> Forall pdom (row_pairs r).
Proof.
  intros H. unfold row_pairs, close_row.
  set (c := firstn (first_fill r) (r ++ [FILL]) ++ [hd FILL r] ++ skipn (S (first_fill r)) (r ++ [FILL])).
  assert (Hc : Forall (dom_ok D) c).
  { assert (He : Forall (dom_ok D) (r ++ [FILL])) by (apply Forall_app; split; [exact H|constructor; [left; reflexivity|constructor]]).
    subst c. apply Forall_app. split; [apply Forall_firstn'; exact He|]. apply Forall_app. split.
    - constructor; [|constructor]. destruct r; simpl; [left; reflexivity|inversion H; assumption].
    - apply Forall_skipn'. exact He. }
  apply Forall_forall. intros [a b] Hin.
  pose proof (in_combine_l _ _ _ _ Hin) as Ha. pose proof (in_combine_r _ _ _ _ Hin) as Hb.
  rewrite Forall_forall in Hc. split; simpl; apply Hc.
  - clear -Ha. induction c as [|x c IH]; [destruct Ha|]. destruct c as [|y c]; [destruct Ha|].
    simpl in Ha. destruct Ha as [->|Ha]; [left; reflexivity|right; apply IH; exact Ha].
  - destruct c; [destruct Hb|right; exact Hb].
Qed.

Lemma all_pairs_map t : Forall (Forall (dom_ok D)) t ->
  all_pairs (map (map f) t) = map (pmap f) (all_pairs t) /\ Forall pdom (all_pairs t).
Proof.
  intros H. unfold all_pairs. induction H as [|r t Hr Ht [IH1 IH2]]; simpl; [split; [reflexivity|constructor]|].
  rewrite !map_app. split.
  - rewrite IH1. f_equal. rewrite row_pairs_map by assumption. rewrite !map_map.
    apply map_ext_in. intros q Hq. apply norm_pmap.
    pose proof (row_pairs_pdom r Hr) as Hp. rewrite Forall_forall in Hp. apply Hp. exact Hq.
  - apply Forall_app. split; [|exact IH2].
    apply Forall_forall. intros q Hq. apply in_map_iff in Hq. destruct Hq as (x & <- & Hx).
    apply norm_pdom. pose proof (row_pairs_pdom r Hr) as Hp. rewrite Forall_forall in Hp. apply Hp. exact Hx.
Qed.

(* the edge table of a renumbered table is the renumbered edge table, entry by entry *)
Theorem edges_map t : Forall (Forall (dom_ok D)) t -> edges (map (map f) t) = map (pmap f) (edges t).
Proof.
  intros H. destruct (all_pairs_map t H) as [E Hd].
  unfold edges, build_edges; simpl. rewrite E. unfold unique_pairs.
  rewrite sort_map by exact Hd.
  assert (Hs : Forall pdom (PairSort.sort (all_pairs t))).
  { apply Forall_forall. intros x Hx. rewrite Forall_forall in Hd. apply Hd.
    eapply Permutation_in; [apply Permutation_sym, PairSort.Permuted_sort|exact Hx]. }
  rewrite dedup_map by exact Hs.
  apply filter_map. apply Forall_forall. intros x Hx. rewrite C02_proofs.dedup_In in Hx.
  rewrite Forall_forall in Hs. apply Hs. exact Hx.
Qed.
End Commute.

(* ---- instance: the renumbering of _slice_face_indices ---- *)
Lemma index_of_mono ni : StronglySorted Z.lt ni -> forall x y, In x ni -> In y ni -> x < y ->
  (c09_index_of x ni < c09_index_of y ni)%nat.
Proof.
  induction 1 as [|a l Hs IH Ha]; intros x y Hx Hy Hxy; [destruct Hx|].
  simpl. rewrite Forall_forall in Ha.
  destruct (x =? a) eqn:Ex, (y =? a) eqn:Ey; try lia.
  - (* y = a, x <> a: x in l so a < x, contradiction with x < y = a *)
    destruct Hx as [->|Hx]; [lia|]. specialize (Ha x Hx). lia.
  - destruct Hx as [->|Hx]; [lia|]. destruct Hy as [->|Hy]; [lia|].
    specialize (IH x y Hx Hy Hxy). lia.
Qed.

Lemma renumber_good t idx :
  good_ren (c09_renumber (c09_node_indices t idx)) (fun x => In x (c09_node_indices t idx)).
Proof.
  constructor.
  - unfold c09_renumber. rewrite (proj2 (c09_is_fill_iff FILL) eq_refl). reflexivity.
  - intros x Hx Hne. unfold c09_renumber. destruct (is_fill x) eqn:E; [apply c09_is_fill_iff in E; contradiction|lia].
  - intros x y Hx Hy Hnx Hny Hxy. unfold c09_renumber.
    assert (is_fill x = false) as -> by (apply not_true_is_false; intro H; apply c09_is_fill_iff in H; contradiction).
    assert (is_fill y = false) as -> by (apply not_true_is_false; intro H; apply c09_is_fill_iff in H; contradiction).
    pose proof (index_of_mono (c09_node_indices t idx) (faces_touching_sorted t idx) x y Hx Hy Hxy). lia.
Qed.

(* edge table of the subset = renumbered edge table of the selected source rows: same segments, same
   order — derived edges commute with slicing *)
Theorem slice_edges_commute t idx :
  Forall (Forall (fun x => x = FILL \/ 0 <= x)) (c09_rows t idx) ->
  edges (fst (c09_slice_faces t idx))
  = map (pmap (c09_renumber (snd (c09_slice_faces t idx)))) (edges (c09_rows t idx)).
Proof.
  intros Hrows. unfold c09_slice_faces. simpl.
  apply (edges_map _ _ (renumber_good t idx)).
  apply Forall_forall. intros r Hr. apply Forall_forall. intros x Hx.
  rewrite Forall_forall in Hrows. specialize (Hrows r Hr). rewrite Forall_forall in Hrows.
  destruct (Hrows x Hx) as [->|Hpos]; [left; reflexivity|]. right. split; [|exact Hpos].
  apply (proj2 (faces_touching_spec t idx x)). split; [unfold FILL; lia|].
  unfold c09_rows in Hr. apply in_map_iff in Hr. destruct Hr as (i & <- & Hi). exists i. split; assumption.
Qed.

Example commute_ex :
  let t := [[0;1;2;FILL];[1;3;4;2];[5;1;0;FILL]] in
  edges (fst (c09_slice_faces t [2;0])) = [(0,1);(0,2);(0,3);(1,2);(1,3)]
  /\ edges (c09_rows t [2;0]) = [(0,1);(0,2);(0,5);(1,2);(1,5)].
Proof. vm_compute. split; reflexivity. Qed.
