(* C03: face_face_connectivity is symmetric — g is listed in row f exactly as often as f is listed in row g (once per
   interior edge the two faces share): the table is its own transpose. *)
From Coq Require Import ZifyBool Permutation.
From Verif Require Import Base C03 C03_proofs.
Local Open Scope Z_scope.

Lemma joins_sym f g r : joins f g r = joins g f r.
Proof. unfold joins. f_equal. apply orb_comm. Qed.

Theorem face_face_symmetric ef f g : f <> g ->
  count_occ Z.eq_dec (c03_neighbours ef f) g = count_occ Z.eq_dec (c03_neighbours ef g) f.
Proof.
  intros H. rewrite (neighbours_count ef f g H), (neighbours_count ef g f (not_eq_sym H)).
  f_equal. apply filter_ext. intros r. apply joins_sym.
Qed.

Corollary face_face_symmetric_in ef f g : f <> g ->
  (In g (c03_neighbours ef f) <-> In f (c03_neighbours ef g)).
Proof.
  intros H. rewrite (count_occ_In Z.eq_dec), (count_occ_In Z.eq_dec (c03_neighbours ef g) f).
  rewrite (face_face_symmetric ef f g H). reflexivity.
Qed.

(* a face is listed as its own neighbour only through a degenerate edge row (f, f) *)
Theorem face_face_self ef f : In f (c03_neighbours ef f) -> In (f, f) ef.
Proof.
  unfold c03_neighbours. intros H. apply in_flat_map in H. destruct H as ([a b] & Hin & Ho).
  unfold c03_other in Ho. simpl in Ho. destruct (is_fill a || is_fill b); [destruct Ho|].
  apply in_app_or in Ho. destruct Ho as [Ho|Ho].
  - destruct (a =? f) eqn:E; simpl in Ho; [|contradiction]. destruct Ho as [<-|[]].
    assert (a = b) by lia. subst. exact Hin.
  - destruct (b =? f) eqn:E; simpl in Ho; [|contradiction]. destruct Ho as [<-|[]].
    assert (b = a) by lia. subst. exact Hin.
Qed.
