(* Proofs about Model/C04.v.
   Section A: the symbolic provenance dataflow — the repaired getters keep every coordinate group
              well-united for every source and every history (induction over the history); the
              code as it is does not (witnesses).
   Section B: the meaning of the operators over R (unit length, round trips, wrap, normalise,
              centroid / arc midpoint, pole snap).
   Section C: soundness of the unit checker w.r.t. the meaning over R, and the history theorem in
              semantic form. *)
From Coq Require Import Reals Lra Lia ZArith List Bool.
From Verif Require Import Base C04.
Import ListNotations.

(* ========================================================================================== *)
(* Section A                                                                                     *)

Lemma c04_kind_eqb_eq a b : c04_kind_eqb a b = true <-> a = b.
Proof. destruct a, b; simpl; split; intros H; try reflexivity; try discriminate. Qed.

Lemma c04_kind_eqb_refl a : c04_kind_eqb a a = true.
Proof. destruct a; reflexivity. Qed.

Lemma c04_ll_ok_iff c k e : c04_ll_ok c k e = true <-> c04_ty_ll c e = Some (TDegStd k).
Proof.
  unfold c04_ll_ok. destruct (c04_ty_ll c e) as [[k'|k'|k'|k']|]; split; intros H; try discriminate.
  - apply c04_kind_eqb_eq in H. subst; reflexivity.
  - inversion H; apply c04_kind_eqb_refl.
Qed.

Lemma c04_xyz_unit_ok_iff c k e : c04_xyz_unit_ok c k e = true <-> c04_ty_xyz c e = Some (TUnit k).
Proof.
  unfold c04_xyz_unit_ok. destruct (c04_ty_xyz c e) as [[k'|k'|k']|]; split; intros H; try discriminate.
  - apply c04_kind_eqb_eq in H. subst; reflexivity.
  - inversion H; apply c04_kind_eqb_refl.
Qed.

Lemma c04_xyz_ok_iff c k e :
  c04_xyz_ok c k e = true <-> c04_ty_xyz c e = Some (TUnit k) \/ c04_ty_xyz c e = Some (TScaled k).
Proof.
  unfold c04_xyz_ok. destruct (c04_ty_xyz c e) as [[k'|k'|k']|]; split; intros H;
    try discriminate; try (destruct H; discriminate).
  - apply c04_kind_eqb_eq in H. subst; auto.
  - destruct H as [H|H]; inversion H; apply c04_kind_eqb_refl.
  - apply c04_kind_eqb_eq in H. subst; auto.
  - destruct H as [H|H]; inversion H; apply c04_kind_eqb_refl.
Qed.

(* the invariant of the (repaired) state machine *)
Definition c04_present {A} (o : option A) : bool := match o with Some _ => true | None => false end.

Definition c04_inv (c : c04_case) (s : c04_state) : Prop :=
  (c04_opt (c04_ll_ok c KNode) (st_nll s) && c04_opt (c04_xyz_ok c KNode) (st_nxyz s) &&
   c04_opt (c04_ll_ok c KEdge) (st_ell s) && c04_opt (c04_xyz_ok c KEdge) (st_exyz s) = true)
  /\ (exists F, c04_face_ok c (st_fll s) (st_fxyz s) F = true)
  /\ (c04_present (st_nll s) || c04_present (st_nxyz s) = true)
  /\ (c04_supplied c KEdge = true -> c04_present (st_ell s) || c04_present (st_exyz s) = true)
  /\ (c04_supplied c KFace = true -> c04_present (st_fll s) || c04_present (st_fxyz s) = true)
  /\ (st_norm s = true ->
        (c04_opt (c04_xyz_unit_ok c KNode) (st_nxyz s) && c04_opt (c04_xyz_unit_ok c KEdge) (st_exyz s) = true)
        /\ exists F, c04_is_face_fam F = true /\ c04_opt (c04_xyz_unit_ok c F) (st_fxyz s) = true).

Lemma c04_base_face F : c04_is_face_fam F = true -> c04_base F = KFace.
Proof. destruct F; simpl; intros H; try discriminate; reflexivity. Qed.

Lemma c04_face_ok_state c ol ox F :
  c04_face_ok c ol ox F = true ->
  c04_face_ok c ol ox KFace || c04_face_ok c ol ox KFaceMean || c04_face_ok c ol ox KFaceWelzl = true.
Proof.
  intros H. assert (I : c04_is_face_fam F = true) by (unfold c04_face_ok in H; destruct (c04_is_face_fam F); [reflexivity|discriminate H]).
  destruct F; try discriminate I; rewrite H; repeat rewrite orb_true_r; reflexivity.
Qed.

Lemma c04_face_unit_state c ox F :
  c04_is_face_fam F = true -> c04_opt (c04_xyz_unit_ok c F) ox = true -> c04_face_unit_ok c ox = true.
Proof.
  intros I H. unfold c04_face_unit_ok. destruct F; try discriminate I; rewrite H; repeat rewrite orb_true_r; reflexivity.
Qed.

Lemma c04_inv_state_ok c s : c04_inv c s -> c04_state_ok c s = true.
Proof.
  intros (H1 & (F & H2) & _). unfold c04_state_ok. rewrite H1. apply (c04_face_ok_state _ _ _ _ H2).
Qed.

(* typing facts used by the step lemma *)
Lemma c04_is_unit_ty c k x :
  c04_ty_xyz c x = Some (TUnit k) \/ c04_ty_xyz c x = Some (TScaled k) ->
  c04_is_unit c x = true -> c04_ty_xyz c x = Some (TUnit k).
Proof.
  intros H U. destruct x as [k0|l|x|k0 x]; simpl in *.
  - destruct (c04_has_xyz (c04_prov_of c k0)); [|destruct H; discriminate].
    destruct (c04_scaled c k0); simpl in U; [discriminate|]. destruct H as [H|H]; [exact H|discriminate].
  - destruct H as [H|H]; [exact H|].
    destruct (c04_ty_ll c l) as [[?|?|?|?]|]; discriminate.
  - destruct H as [H|H]; [exact H|].
    destruct (c04_ty_xyz c x) as [[?|?|?]|]; try discriminate.
    destruct (c04_supplied c k0); discriminate.
  - discriminate.
Qed.

Ltac c04_hyps :=
  repeat match goal with
  | H : _ /\ _ |- _ => destruct H
  | H : exists _, _ |- _ => let F := fresh "F" in destruct H as [F H]
  | H : c04_face_ok _ _ _ _ = true |- _ => unfold c04_face_ok in H
  | H : andb _ _ = true |- _ => apply andb_prop in H
  | H : c04_opt _ (Some _) = true |- _ => cbn [c04_opt] in H
  | H : c04_opt _ None = true |- _ => clear H
  | H : c04_ll_ok _ _ _ = true |- _ => apply c04_ll_ok_iff in H
  | H : c04_xyz_unit_ok _ _ _ = true |- _ => apply c04_xyz_unit_ok_iff in H
  | H : c04_xyz_ok _ _ _ = true |- _ => apply c04_xyz_ok_iff in H
  | H : c04_is_face_fam ?F = true |- _ =>
      lazymatch goal with
      | _ : c04_base F = KFace |- _ => fail
      | _ => pose proof (c04_base_face F H)
      end
  end.

Ltac c04_rew :=
  repeat match goal with
  | H : c04_ty_ll ?c ?l = _ |- context [c04_ty_ll ?c ?l] => rewrite H
  | H : c04_ty_xyz ?c ?x = _ |- context [c04_ty_xyz ?c ?x] => rewrite H
  | H : c04_supplied ?c ?k = _ |- context [c04_supplied ?c ?k] => rewrite H
  | H : c04_base ?F = _ |- context [c04_base ?F] => rewrite H
  | H : c04_is_face_fam ?F = _ |- context [c04_is_face_fam ?F] => rewrite H
  | |- context [c04_kind_eqb ?F ?F] => rewrite (c04_kind_eqb_refl F)
  end.

(* two typing facts about one expression: identify the families *)
Ltac c04_dedup :=
  repeat match goal with
  | H1 : c04_ty_xyz ?c ?x = Some ?A, H2 : c04_ty_xyz ?c ?x = Some ?B |- _ =>
      first [ constr_eq A B; clear H2
            | rewrite H1 in H2; first [ discriminate H2 | injection H2; intros; subst; clear H2 ] ]
  | H1 : c04_ty_ll ?c ?x = Some ?A, H2 : c04_ty_ll ?c ?x = Some ?B |- _ =>
      first [ constr_eq A B; clear H2
            | rewrite H1 in H2; first [ discriminate H2 | injection H2; intros; subst; clear H2 ] ]
  end.

Lemma c04_not_supplied c k a b :
  (c04_supplied c k = true -> a || b = true) -> a = false -> b = false -> c04_supplied c k = false.
Proof. intros H -> ->. destruct (c04_supplied c k); auto. discriminate (H eq_refl). Qed.

(* a fully repaired variant: the other sites are `true`, the node site is repaired one way or the
   other (or both) *)
Local Ltac c04_fx_others fx A :=
  destruct fx as [w a f2 f3 f4 f5 f6 f7 f8]; unfold c04_all_fixed in A;
  cbn [fx_node_wrap fx_node_after fx_face_deg fx_edge_deg fx_face_norm fx_edge_norm fx_edge_check fx_face_check
       fx_welzl_deg] in A;
  repeat (apply andb_prop in A; let B := fresh "B" in destruct A as [A B]); subst.

Local Ltac c04_unf :=
  cbv beta iota zeta delta [c04_inv c04_step c04_get_node_ll c04_ensure_node_xyz
    c04_populate_centroids c04_set_range c04_set_ll c04_set_xyz c04_get_ll c04_get_xyz
    c04_the_ll c04_the_xyz c04_present st_nll st_nxyz st_ell st_exyz st_fll st_fxyz st_norm option_map
    c04_fx_deg c04_fx_norm c04_fx_check fx_node_wrap fx_node_after fx_face_deg fx_edge_deg fx_face_norm
    fx_edge_norm fx_edge_check fx_face_check fx_welzl_deg c04_welzl c04_cart_avg
    c04_normalize c04_check_normalization c04_set_norm negb] in *.

(* boolean typing goals *)
Local Ltac c04_bool :=
  unfold c04_face_ok, c04_opt, c04_ll_ok, c04_xyz_ok, c04_xyz_unit_ok in *;
  cbn [c04_ty_ll c04_ty_xyz andb orb c04_base c04_kind_eqb c04_is_face_fam] in *;
  c04_rew;
  cbn [c04_kind_eqb andb orb c04_base c04_is_face_fam] in *;
  c04_rew;
  cbn [c04_kind_eqb andb orb] in *;
  try reflexivity; try discriminate; try assumption.

(* a family for the face centres: the one they already have, or a fresh one *)
Local Ltac c04_fam :=
  lazymatch goal with
  | |- exists _, _ =>
      first
        [ match goal with
          | HF : c04_is_face_fam ?F = true |- _ => exists F; solve [repeat split; c04_bool]
          end
        | exists KFace; solve [repeat split; c04_bool]
        | exists KFaceMean; solve [repeat split; c04_bool]
        | exists KFaceWelzl; solve [repeat split; c04_bool] ]
  | |- _ => idtac
  end.

Local Ltac c04_solve :=
  c04_hyps;
  repeat match goal with
  | H : c04_ty_xyz _ _ = Some _ \/ c04_ty_xyz _ _ = Some _ |- _ => destruct H
  end;
  repeat split; intros;
  try match goal with
      | Iu : ?n = true -> _, Hn : ?n = true |- _ => specialize (Iu Hn); c04_hyps
      end;
  repeat match goal with
  | H : c04_ty_xyz _ _ = Some _ \/ c04_ty_xyz _ _ = Some _ |- _ => destruct H
  end;
  try (c04_dedup; fail);
  c04_dedup;
  c04_fam; c04_bool; auto.

Definition c04_is_access (o : c04_op) : bool :=
  match o with OGetLL _ | OGetXYZ _ | OWelzl | OCartAvg | ONop => true | ONormalize => false end.

Local Ltac c04_states s :=
  destruct s as [nll nxyz ell exyz fll fxyz nrm];
  destruct nll as [nll|], nxyz as [nxyz|], ell as [ell|], exyz as [exyz|], fll as [fll|], fxyz as [fxyz|].

Lemma c04_getter_inv fx c s o :
  c04_all_fixed fx = true ->
  c04_is_access o = true -> c04_inv c s -> c04_inv c (c04_step fx c s o).
Proof.
  intros A Ho I. c04_fx_others fx A.
  destruct o as [k|k| | | |]; try discriminate Ho; [destruct k|destruct k| | |]; try exact I.
  (* node lon/lat and Welzl go through the node getter: the two repairs of that site *)
  1, 7: destruct w, a; try discriminate A.
  all: clear A; c04_states s; c04_unf;
    try (destruct I as (_ & _ & I & _); discriminate I);
    destruct I as (Iok & Iface & Inode & Ie & If & Iu);
    try (assert (Se : c04_supplied c KEdge = false) by (apply (c04_not_supplied _ _ _ _ Ie); reflexivity));
    try (assert (Sf : c04_supplied c KFace = false) by (apply (c04_not_supplied _ _ _ _ If); reflexivity));
    c04_solve.
Qed.

Lemma c04_normalize_inv fx c s :
  c04_all_fixed fx = true ->
  c04_inv c s ->
  c04_inv c (c04_step fx c s ONormalize) /\ c04_state_unit c (c04_step fx c s ONormalize) = true.
Proof.
  intros A I. c04_fx_others fx A. clear A.
  c04_states s; destruct nrm;
    c04_unf;
    destruct I as (Iok & Iface & Inode & Ie & If & Iu);
    try specialize (Iu eq_refl);
    repeat match goal with
    | |- context [c04_is_unit ?c ?x] => destruct (c04_is_unit c x) eqn:?; cbv beta iota zeta
    end;
    c04_hyps;
    repeat match goal with
    | H : c04_ty_xyz _ _ = Some _ \/ c04_ty_xyz _ _ = Some _ |- _ => destruct H
    end;
    repeat match goal with
    | U : c04_is_unit ?c ?x = true, H : c04_ty_xyz ?c ?x = Some (TScaled ?k) |- _ =>
        let T := fresh "T" in
        assert (T : c04_ty_xyz c x = Some (TUnit k)) by (apply c04_is_unit_ty; auto);
        rewrite H in T; discriminate T
    end;
    try (c04_dedup; fail); c04_dedup;
    (split; [repeat split; intros; c04_fam; c04_bool; auto|]);
    unfold c04_state_unit; cbn [st_nxyz st_exyz st_fxyz];
    match goal with
    | HF : c04_is_face_fam ?F = true |- _ =>
        rewrite (c04_face_unit_state c _ F HF) by c04_bool; c04_bool
    | |- _ => unfold c04_face_unit_ok; c04_bool
    end.
Qed.

Lemma c04_step_inv fx c s o : c04_all_fixed fx = true -> c04_inv c s -> c04_inv c (c04_step fx c s o).
Proof.
  intros A I. destruct (c04_is_access o) eqn:E.
  - apply c04_getter_inv; assumption.
  - destruct o; try discriminate E. apply c04_normalize_inv; [exact A|exact I].
Qed.

Lemma c04_init_inv c : c04_wf_case c = true -> c04_inv c (c04_init c).
Proof.
  destruct c as [pn pe pf sn se sf]. unfold c04_wf_case, c04_supplied, c04_prov_of; simpl.
  destruct pn, pe, pf, sn, se, sf; simpl; intros W; try discriminate W;
    unfold c04_inv, c04_init; simpl; repeat split; intros; try reflexivity; try discriminate;
    exists KFace; reflexivity.
Qed.

Lemma c04_run_inv_from fx c ops : c04_all_fixed fx = true ->
  forall s, c04_inv c s -> c04_inv c (fold_left (c04_step fx c) ops s).
Proof.
  intros A. induction ops as [|o ops IH]; intros s I; simpl; [exact I|].
  apply IH. apply c04_step_inv; [exact A|exact I].
Qed.

(* history theorem, symbolic form: whatever the source supplies and whatever is accessed, derived
   again through construct_face_centers, re-assigned or normalised in whatever order, every
   coordinate group the repaired Grid holds is well-united, and the lon/lat and Cartesian face
   centres belong to the same family *)
Lemma c04_provenance_sym fx c ops :
  c04_all_fixed fx = true -> c04_wf_case c = true -> c04_state_ok c (c04_run fx c ops) = true.
Proof.
  intros A W. unfold c04_run. apply c04_inv_state_ok.
  apply (c04_run_inv_from fx c ops A (c04_init c) (c04_init_inv c W)).
Qed.

(* ... and right after normalize_cartesian_coordinates all Cartesian groups are unit *)
Lemma c04_normalize_unit_sym fx c ops :
  c04_all_fixed fx = true -> c04_wf_case c = true ->
  c04_state_unit c (c04_run fx c (ops ++ [ONormalize])) = true.
Proof.
  intros A W. unfold c04_run. rewrite fold_left_app. simpl.
  apply c04_normalize_inv; [exact A|]. apply c04_run_inv_from; [exact A|]. apply c04_init_inv; exact W.
Qed.

(* every intermediate state of the trace (what each access reported) is well-united as well *)
Lemma c04_trace_ok fx c ops : c04_all_fixed fx = true -> forall s, c04_inv c s ->
  Forall (fun s' => c04_state_ok c s' = true) (c04_trace fx c s ops).
Proof.
  intros A. induction ops as [|o ops IH]; intros s I; simpl; constructor.
  - apply c04_inv_state_ok. apply (c04_step_inv fx c s o A I).
  - apply IH. apply c04_step_inv; [exact A|exact I].
Qed.

Lemma c04_every_report_sym fx c ops :
  c04_all_fixed fx = true -> c04_wf_case c = true ->
  Forall (fun s => c04_state_ok c s = true) (c04_trace fx c (c04_init c) ops).
Proof. intros A W. apply c04_trace_ok; [exact A|]. apply c04_init_inv. exact W. Qed.

(* the code as found: witnesses.  Each of the eight sites alone breaks the property, whatever the
   state of the others *)
Definition c04_mk_case (pn pe pf : c04_prov) (se sf : bool) : c04_case :=
  {| cs_node := pn; cs_edge := pe; cs_face := pf; cs_sc_node := false; cs_sc_edge := se; cs_sc_face := sf |}.
Definition c04_case_xyz_nodes : c04_case := c04_mk_case PXYZ PNone PNone false false.
Definition c04_case_ll_faces : c04_case := c04_mk_case PLL PNone PLL false false.
Definition c04_case_ll_edges : c04_case := c04_mk_case PLL PLL PNone false false.
Definition c04_case_scaled_faces : c04_case := c04_mk_case PLL PNone PXYZ false true.
Definition c04_case_scaled_edges : c04_case := c04_mk_case PLL PXYZ PNone true false.

Definition c04_bad (fx : c04_fixes) (c : c04_case) (ops : list c04_op) : Prop :=
  c04_wf_case c = true /\
  (c04_state_ok c (c04_run fx c ops) = false \/
   c04_state_unit c (c04_run fx c (ops ++ [ONormalize])) = false).

Local Ltac c04_witness :=
  intros fx; destruct fx as [w a f2 f3 f4 f5 f6 f7 f8];
  cbn [fx_node_wrap fx_node_after fx_face_deg fx_edge_deg fx_face_norm fx_edge_norm fx_edge_check fx_face_check
       fx_welzl_deg];
  intros; subst;
  repeat match goal with x : bool |- _ => destruct x end;
  (split; [reflexivity|]; first [left; vm_compute; reflexivity | right; vm_compute; reflexivity]).

(* node_lon of a Cartesian-only grid: degrees in [0,360) (neither repair of the node site present) *)
Lemma c04_node_lon_refuted : forall fx, fx_node_wrap fx = false -> fx_node_after fx = false ->
  c04_bad fx c04_case_xyz_nodes [OGetLL KNode].
Proof. c04_witness. Qed.

(* face_x / edge_x of a grid whose source supplies the centres as lon/lat: degrees read as radians *)
Lemma c04_face_deg_refuted : forall fx, fx_face_deg fx = false -> c04_bad fx c04_case_ll_faces [OGetXYZ KFace].
Proof. c04_witness. Qed.
Lemma c04_edge_deg_refuted : forall fx, fx_edge_deg fx = false -> c04_bad fx c04_case_ll_edges [OGetXYZ KEdge].
Proof. c04_witness. Qed.

(* face_lat / edge_lat from scaled Cartesian centres: arcsin of an un-normalised z *)
Lemma c04_face_norm_refuted : forall fx, fx_face_norm fx = false -> c04_bad fx c04_case_scaled_faces [OGetLL KFace].
Proof. c04_witness. Qed.
Lemma c04_edge_norm_refuted : forall fx, fx_edge_norm fx = false -> c04_bad fx c04_case_scaled_edges [OGetLL KEdge].
Proof. c04_witness. Qed.

(* normalize_cartesian_coordinates leaves scaled centres as they are when the nodes are unit *)
Lemma c04_face_check_refuted : forall fx, fx_face_check fx = false -> c04_bad fx c04_case_scaled_faces [].
Proof. c04_witness. Qed.
Lemma c04_edge_check_refuted : forall fx, fx_edge_check fx = false -> c04_bad fx c04_case_scaled_edges [].
Proof. c04_witness. Qed.

(* construct_face_centers("welzl"): the routine's degrees read as radians *)
Lemma c04_welzl_refuted : forall fx, fx_welzl_deg fx = false -> c04_bad fx c04_case_xyz_nodes [OWelzl].
Proof. c04_witness. Qed.

(* the verdict for any variant of the source: with all eight sites repaired the property holds for
   every source and history; with any site as found it fails on a concrete source and history *)
Definition c04_verdict (fx : c04_fixes) : Prop :=
  if c04_all_fixed fx
  then forall c ops, c04_wf_case c = true ->
         c04_state_ok c (c04_run fx c ops) = true /\
         c04_state_unit c (c04_run fx c (ops ++ [ONormalize])) = true
  else exists c ops, c04_bad fx c ops.

Lemma c04_verdict_all fx : c04_verdict fx.
Proof.
  unfold c04_verdict. destruct (c04_all_fixed fx) eqn:A.
  - intros c ops W.
    split; [apply c04_provenance_sym; assumption|apply c04_normalize_unit_sym; assumption].
  - unfold c04_all_fixed in A.
    destruct (fx_node_wrap fx) eqn:F1; destruct (fx_node_after fx) eqn:F1';
      try (eexists; eexists; apply (c04_node_lon_refuted fx F1 F1')).
    all: destruct (fx_face_deg fx) eqn:F2; [|eexists; eexists; apply (c04_face_deg_refuted fx F2)].
    all: destruct (fx_edge_deg fx) eqn:F3; [|eexists; eexists; apply (c04_edge_deg_refuted fx F3)].
    all: destruct (fx_face_norm fx) eqn:F4; [|eexists; eexists; apply (c04_face_norm_refuted fx F4)].
    all: destruct (fx_edge_norm fx) eqn:F5; [|eexists; eexists; apply (c04_edge_norm_refuted fx F5)].
    all: destruct (fx_edge_check fx) eqn:F6; [|eexists; eexists; apply (c04_edge_check_refuted fx F6)].
    all: destruct (fx_face_check fx) eqn:F7; [|eexists; eexists; apply (c04_face_check_refuted fx F7)].
    all: destruct (fx_welzl_deg fx) eqn:F8; [|eexists; eexists; apply (c04_welzl_refuted fx F8)].
    all: discriminate A.
Qed.

(* the source as found (all eight sites): the property fails *)
Lemma c04_as_found_refuted : exists c ops, c04_bad c04_as_found c ops.
Proof. exact (c04_verdict_all c04_as_found). Qed.

(* non-vacuity: a well-formed source and a history that derives every group *)
Example c04_provenance_nonvacuous :
  c04_wf_case c04_case_ll_faces = true /\
  c04_enc_state c04_case_ll_faces (c04_run c04_fixed_all c04_case_ll_faces [OGetXYZ KFace; OWelzl; OGetLL KEdge; OCartAvg; ONormalize]) <> [].
Proof. split; [reflexivity|discriminate]. Qed.

(* ========================================================================================== *)
(* Section B: the operators over R                                                               *)
Local Open Scope R_scope.

Ltac c04_v3 := unfold c04_dot, c04_scale, c04_add, c04_cross, c04_px, c04_py, c04_pz in *; simpl in *.

Lemma c04_v3_eq (a b c a' b' c' : R) : a = a' -> b = b' -> c = c' -> (a, b, c) = (a', b', c').
Proof. intros -> -> ->; reflexivity. Qed.

(* |ll2xyz| = 1 *)
Lemma c04_unit ll : c04_dot (c04_ll2xyz ll) (c04_ll2xyz ll) = 1.
Proof.
  destruct ll as [lon lat]. unfold c04_ll2xyz. c04_v3.
  pose proof (sin2_cos2 lon) as A. pose proof (sin2_cos2 lat) as B. unfold Rsqr in *.
  replace (cos lon * cos lat * (cos lon * cos lat) + sin lon * cos lat * (sin lon * cos lat) + sin lat * sin lat)
    with ((sin lon * sin lon + cos lon * cos lon) * (cos lat * cos lat) + sin lat * sin lat) by ring.
  rewrite A. lra.
Qed.

(* np.mod *)
Lemma c04_rmod_range x m : 0 < m -> 0 <= c04_rmod x m < m.
Proof.
  intros Hm. unfold c04_rmod. destruct (base_Int_part (x / m)) as [H1 H2].
  set (k := IZR (Int_part (x / m))) in *.
  assert (E1 : x / m * m = x) by (field; lra).
  assert (E2 : (x / m - 1) * m = x - m) by (field; lra).
  split.
  - assert (k * m <= x / m * m) by (apply Rmult_le_compat_r; lra). lra.
  - assert ((x / m - 1) * m < k * m) by (apply Rmult_lt_compat_r; lra). lra.
Qed.

Lemma c04_rmod_shift x m : exists k : Z, c04_rmod x m = x - IZR k * m.
Proof. exists (Int_part (x / m)). reflexivity. Qed.

(* longitudes are wrapped into [-180, 180) by a multiple of 360 *)
Lemma c04_wrap_range d : -180 <= c04_wrap180 d < 180.
Proof. unfold c04_wrap180. pose proof (c04_rmod_range (d + 180) 360 ltac:(lra)). lra. Qed.

Lemma c04_wrap_shift d : exists k : Z, c04_wrap180 d = d - 360 * IZR k.
Proof. unfold c04_wrap180, c04_rmod. exists (Int_part ((d + 180) / 360)). ring. Qed.

Lemma c04_cos_Zperiod x (k : Z) : cos (x + 2 * IZR k * PI) = cos x.
Proof.
  destruct k as [|p|p].
  - replace (x + 2 * IZR 0 * PI) with x by (simpl; ring). reflexivity.
  - rewrite <- (positive_nat_Z p), <- INR_IZR_INZ. apply cos_period.
  - rewrite <- (cos_period (x + 2 * IZR (Z.neg p) * PI) (Pos.to_nat p)).
    f_equal. rewrite INR_IZR_INZ, (positive_nat_Z p), IZR_NEG. ring.
Qed.

Lemma c04_sin_Zperiod x (k : Z) : sin (x + 2 * IZR k * PI) = sin x.
Proof.
  destruct k as [|p|p].
  - replace (x + 2 * IZR 0 * PI) with x by (simpl; ring). reflexivity.
  - rewrite <- (positive_nat_Z p), <- INR_IZR_INZ. apply sin_period.
  - rewrite <- (sin_period (x + 2 * IZR (Z.neg p) * PI) (Pos.to_nat p)).
    f_equal. rewrite INR_IZR_INZ, (positive_nat_Z p), IZR_NEG. ring.
Qed.

(* wrapping a longitude (degrees) does not move the point *)
Lemma c04_wrap_same_point lon lat :
  c04_ll2xyz (c04_deg2rad (c04_wrap180 lon), lat) = c04_ll2xyz (c04_deg2rad lon, lat).
Proof.
  destruct (c04_wrap_shift lon) as [k E]. rewrite E. unfold c04_ll2xyz, c04_deg2rad; simpl.
  replace ((lon - 360 * IZR k) * PI / 180) with (lon * PI / 180 + 2 * IZR (- k) * PI)
    by (rewrite opp_IZR; field).
  rewrite c04_cos_Zperiod, c04_sin_Zperiod. reflexivity.
Qed.

Lemma c04_rmod_same_point lon lat :
  c04_ll2xyz (c04_rmod lon (2 * PI), lat) = c04_ll2xyz (lon, lat).
Proof.
  destruct (c04_rmod_shift lon (2 * PI)) as [k E]. rewrite E. unfold c04_ll2xyz; simpl.
  replace (lon - IZR k * (2 * PI)) with (lon + 2 * IZR (- k) * PI) by (rewrite opp_IZR; ring).
  rewrite c04_cos_Zperiod, c04_sin_Zperiod. reflexivity.
Qed.

Lemma c04_deg_rad_inv r : c04_deg2rad (c04_rad2deg r) = r.
Proof. unfold c04_deg2rad, c04_rad2deg. field. apply PI_neq0. Qed.

(* normalisation *)
Lemma c04_dot_scale k p q : c04_dot (c04_scale k p) q = k * c04_dot p q.
Proof. c04_v3. ring. Qed.
Lemma c04_dot_scale_r k p q : c04_dot p (c04_scale k q) = k * c04_dot p q.
Proof. c04_v3. ring. Qed.
Lemma c04_scale_scale a b p : c04_scale a (c04_scale b p) = c04_scale (a * b) p.
Proof. destruct p as [[x y] z]. c04_v3. apply c04_v3_eq; ring. Qed.
Lemma c04_scale_1 p : c04_scale 1 p = p.
Proof. destruct p as [[x y] z]. c04_v3. apply c04_v3_eq; ring. Qed.

Lemma c04_len_sqr p : 0 <= c04_dot p p.
Proof. c04_v3. nra. Qed.

(* normalising changes the length only: positive multiple, result of unit length *)
Lemma c04_normalize_dir p : 0 < c04_dot p p ->
  exists k, 0 < k /\ c04_normalize3 p = c04_scale k p /\
            c04_dot (c04_normalize3 p) (c04_normalize3 p) = 1.
Proof.
  intros H. unfold c04_normalize3, c04_len.
  assert (L : 0 < sqrt (c04_dot p p)) by (apply sqrt_lt_R0; exact H).
  exists (/ sqrt (c04_dot p p)). split; [apply Rinv_0_lt_compat; exact L|]. split; [reflexivity|].
  rewrite c04_dot_scale, c04_dot_scale_r.
  rewrite <- (sqrt_sqrt (c04_dot p p)) at 3 by lra. field. lra.
Qed.

Lemma c04_normalize_scaled s p : 0 < s -> c04_dot p p = 1 -> c04_normalize3 (c04_scale s p) = p.
Proof.
  intros Hs U. unfold c04_normalize3, c04_len.
  rewrite c04_dot_scale, c04_dot_scale_r, U.
  replace (s * (s * 1)) with (s * s) by ring. rewrite sqrt_square by lra.
  rewrite c04_scale_scale. replace (/ s * s) with 1 by (field; lra). apply c04_scale_1.
Qed.

Lemma c04_normalize_unit p : c04_dot p p = 1 -> c04_normalize3 p = p.
Proof. intros U. rewrite <- (c04_scale_1 p) at 1. apply c04_normalize_scaled; [lra|exact U]. Qed.

Lemma c04_normalize_scale_inv s p : 0 < s -> 0 < c04_dot p p ->
  c04_normalize3 (c04_scale s p) = c04_normalize3 p.
Proof.
  intros Hs H. unfold c04_normalize3, c04_len.
  rewrite c04_dot_scale, c04_dot_scale_r.
  replace (s * (s * c04_dot p p)) with ((s * s) * c04_dot p p) by ring.
  rewrite sqrt_mult by nra. rewrite sqrt_square by lra.
  rewrite c04_scale_scale. f_equal.
  assert (0 < sqrt (c04_dot p p)) by (apply sqrt_lt_R0; exact H). field. lra.
Qed.

Lemma c04_normalize_twice_eq p : 0 < c04_dot p p -> c04_normalize_twice p = c04_normalize3 p.
Proof.
  intros H. unfold c04_normalize_twice.
  destruct (c04_normalize_dir p H) as (k & _ & _ & U). rewrite U.
  rewrite Rabs_R1. replace (/ 1) with 1 by field. apply c04_scale_1.
Qed.

(* np.arctan2: cosine and sine of the angle of a non-zero plane vector *)
Lemma c04_hyp_pos x y : 0 < x * x + y * y -> 0 < sqrt (x * x + y * y).
Proof. intros; apply sqrt_lt_R0; assumption. Qed.

Lemma c04_sqrt_1_t2 x y : x <> 0 ->
  sqrt (1 + (y / x)²) = sqrt (x * x + y * y) / Rabs x.
Proof.
  intros Hx. assert (0 < Rabs x) by (apply Rabs_pos_lt; exact Hx).
  assert (0 <= x * x + y * y) by nra.
  apply sqrt_lem_1.
  - unfold Rsqr. assert (0 <= (y / x) * (y / x)) by nra. lra.
  - apply Rmult_le_pos; [apply sqrt_pos|]. left; apply Rinv_0_lt_compat; assumption.
  - unfold Rdiv. replace (sqrt (x * x + y * y) * / Rabs x * (sqrt (x * x + y * y) * / Rabs x))
      with ((sqrt (x * x + y * y) * sqrt (x * x + y * y)) * (/ Rabs x * / Rabs x)) by ring.
    rewrite sqrt_sqrt by assumption.
    replace (/ Rabs x * / Rabs x) with (/ (x * x)).
    + unfold Rsqr. field. exact Hx.
    + rewrite <- Rinv_mult. f_equal. unfold Rabs. destruct (Rcase_abs x); ring.
Qed.

Lemma c04_atan2_cos_sin y x : 0 < x * x + y * y ->
  cos (c04_atan2 y x) = x / sqrt (x * x + y * y) /\ sin (c04_atan2 y x) = y / sqrt (x * x + y * y).
Proof.
  intros H. pose proof (c04_hyp_pos x y H) as Hr. set (r := sqrt (x * x + y * y)) in *.
  unfold c04_atan2.
  destruct (Rlt_dec 0 x) as [Hx|Hx].
  - rewrite cos_atan, sin_atan, c04_sqrt_1_t2 by lra. fold r.
    rewrite Rabs_pos_eq by lra. split; field; lra.
  - destruct (Rlt_dec x 0) as [Hx'|Hx'].
    + assert (E : sqrt (1 + (y / x)²) = r / - x).
      { rewrite c04_sqrt_1_t2 by lra. fold r. rewrite Rabs_left by lra. reflexivity. }
      destruct (Rle_dec 0 y).
      * rewrite neg_cos, neg_sin, cos_atan, sin_atan, E. split; field; lra.
      * assert (C : forall a, cos (a - PI) = - cos a)
          by (intros; rewrite cos_minus, cos_PI, sin_PI; ring).
        assert (S : forall a, sin (a - PI) = - sin a)
          by (intros; rewrite sin_minus, cos_PI, sin_PI; ring).
        rewrite C, S, cos_atan, sin_atan, E. split; field; lra.
    + assert (x = 0) by lra. subst x.
      assert (Ey : r * r = y * y).
      { unfold r. rewrite sqrt_sqrt by lra. ring. }
      clearbody r.
      destruct (Rlt_dec 0 y).
      * assert (Hry : r = y) by nra. rewrite cos_PI2, sin_PI2, Hry. split; field; lra.
      * destruct (Rlt_dec y 0).
        -- assert (Hry : r = - y) by nra.
           rewrite cos_neg, sin_neg, cos_PI2, sin_PI2, Hry. split; field; lra.
        -- exfalso. assert (y = 0) by lra. subst y. lra.
Qed.

(* a direction is safe for _xyz_to_lonlat_rad when it is outside the snap zone or exactly a pole *)
Definition c04_safe (p : c04_v3) : Prop :=
  Rabs (c04_pz p) <= 1 - c04_tol \/ (c04_px p = 0 /\ c04_py p = 0).

Lemma c04_tol_pos : 0 < c04_tol < 1.
Proof. unfold c04_tol. lra. Qed.

(* round trip Cartesian -> lon/lat (radians) -> Cartesian, with the ranges of the result *)
Lemma c04_xyz2ll_spec p : c04_dot p p = 1 -> c04_safe p ->
  0 <= fst (c04_xyz2ll p) < 2 * PI /\ - (PI / 2) <= snd (c04_xyz2ll p) <= PI / 2 /\
  c04_ll2xyz (c04_xyz2ll p) = p.
Proof.
  destruct p as [[x y] z]. intros U S. unfold c04_safe in S. c04_v3.
  pose proof c04_tol_pos as T. pose proof PI_RGT_0 as Ppos.
  unfold c04_xyz2ll; simpl c04_pz; simpl c04_px; simpl c04_py. c04_v3.
  destruct (Rlt_dec (1 - c04_tol) (Rabs z)) as [Hs|Hs].
  - (* snap: only the exact poles are safe here *)
    destruct S as [S|[-> ->]]; [lra|].
    assert (Z : z * z = 1) by lra.
    unfold c04_sign. simpl fst; simpl snd.
    destruct (Rlt_dec 0 z) as [Hz|Hz].
    + assert (z = 1) by nra. subst z.
      replace (1 * PI / 2) with (PI / 2) by field.
      split; [lra|]. split; [lra|]. unfold c04_ll2xyz; simpl.
      rewrite cos_0, sin_0, cos_PI2, sin_PI2. apply c04_v3_eq; ring.
    + destruct (Rlt_dec z 0) as [Hz'|Hz'].
      * assert (z = -1) by nra. subst z.
        replace (-1 * PI / 2) with (- (PI / 2)) by field.
        split; [lra|]. split; [lra|]. unfold c04_ll2xyz; simpl.
        rewrite cos_0, sin_0, cos_neg, sin_neg, cos_PI2, sin_PI2. apply c04_v3_eq; ring.
      * exfalso. assert (z = 0) by lra. subst z. lra.
  - (* regular branch *)
    assert (Hz : Rabs z <= 1 - c04_tol) by lra.
    assert (Hz1 : -1 < z < 1).
    { split; [|apply Rle_lt_trans with (Rabs z); [apply Rle_abs|lra]].
      assert (- z <= Rabs z) by (rewrite <- Rabs_Ropp; apply Rle_abs). lra. }
    assert (Hxy : 0 < x * x + y * y) by nra.
    pose proof (c04_hyp_pos x y Hxy) as Hr.
    destruct (c04_atan2_cos_sin y x Hxy) as [Ec Es].
    simpl fst; simpl snd.
    split; [apply c04_rmod_range; lra|]. split; [apply asin_bound|].
    rewrite c04_rmod_same_point. unfold c04_ll2xyz; simpl.
    rewrite Ec, Es, sin_asin, cos_asin by lra.
    replace (1 - z²) with (x * x + y * y) by (unfold Rsqr; lra).
    apply c04_v3_eq; field; lra.
Qed.

(* inside the snap zone the reported point is the pole, less than 1.5e-4 rad away *)
Lemma c04_fact_INR n z : Z.of_nat (fact n) = z -> INR (fact n) = IZR z.
Proof. intros <-. apply INR_IZR_INZ. Qed.

Lemma c04_cos_ub_expand a :
  cos_ub a = 1 - a ^ 2 / 2 + a ^ 4 / 24 - a ^ 6 / 720 + a ^ 8 / 40320.
Proof.
  unfold cos_ub, cos_approx. cbn [sum_f_R0]. unfold cos_term.
  change (2 * 0)%nat with 0%nat. change (2 * 1)%nat with 2%nat. change (2 * 2)%nat with 4%nat.
  change (2 * 3)%nat with 6%nat. change (2 * 4)%nat with 8%nat.
  rewrite (c04_fact_INR 0 1), (c04_fact_INR 2 2), (c04_fact_INR 4 24), (c04_fact_INR 6 720),
    (c04_fact_INR 8 40320) by (vm_compute; reflexivity).
  field.
Qed.

Lemma c04_cos_snap : cos (15 / 100000) < 1 - c04_tol.
Proof.
  assert (B : - PI / 2 <= 15 / 100000 <= PI / 2).
  { pose proof PI2_3_2. lra. }
  destruct (COS (15 / 100000) (proj1 B) (proj2 B)) as [_ Hub].
  eapply Rle_lt_trans; [exact Hub|].
  rewrite c04_cos_ub_expand. unfold c04_tol. lra.
Qed.

Lemma c04_snap p : c04_dot p p = 1 -> 1 - c04_tol < Rabs (c04_pz p) ->
  c04_ll2xyz (c04_xyz2ll p) = (0, 0, c04_sign (c04_pz p)) /\
  cos (15 / 100000) < c04_dot p (c04_ll2xyz (c04_xyz2ll p)).
Proof.
  destruct p as [[x y] z]. intros U H. pose proof c04_tol_pos as T.
  unfold c04_xyz2ll. change (c04_pz (x, y, z)) with z in *.
  destruct (Rlt_dec (1 - c04_tol) (Rabs z)) as [_|N]; [|lra].
  assert (E : c04_ll2xyz (0, c04_sign z * PI / 2) = (0, 0, c04_sign z)).
  { unfold c04_ll2xyz, c04_sign; simpl.
    destruct (Rlt_dec 0 z); [|destruct (Rlt_dec z 0)].
    - replace (1 * PI / 2) with (PI / 2) by field.
      rewrite cos_0, sin_0, cos_PI2, sin_PI2. apply c04_v3_eq; ring.
    - replace (-1 * PI / 2) with (- (PI / 2)) by field.
      rewrite cos_0, sin_0, cos_neg, sin_neg, cos_PI2, sin_PI2. apply c04_v3_eq; ring.
    - exfalso. assert (z = 0) by lra. subst z. rewrite Rabs_R0 in H. lra. }
  rewrite E. split; [reflexivity|].
  eapply Rlt_trans; [apply c04_cos_snap|]. c04_v3.
  unfold c04_sign. destruct (Rlt_dec 0 z); [|destruct (Rlt_dec z 0)].
  - rewrite Rabs_pos_eq in H by lra. lra.
  - rewrite Rabs_left in H by lra. lra.
  - assert (z = 0) by lra. subst z. rewrite Rabs_R0 in H. lra.
Qed.

(* centres: normalised mean of the corner vectors; the mean may be replaced by the sum and the
   corner vectors by any common positive multiple *)
Lemma c04_sum3_scale s l : c04_sum3 (map (c04_scale s) l) = c04_scale s (c04_sum3 l).
Proof.
  induction l as [|p l IH]; simpl.
  - unfold c04_zero3. c04_v3. apply c04_v3_eq; ring.
  - rewrite IH. destruct p as [[a b] c0], (c04_sum3 l) as [[d e] f]. c04_v3. apply c04_v3_eq; ring.
Qed.

Lemma c04_centroid l : l <> [] -> 0 < c04_dot (c04_sum3 l) (c04_sum3 l) ->
  c04_normalize3 (c04_mean3 l) = c04_normalize3 (c04_sum3 l) /\
  c04_dot (c04_normalize3 (c04_mean3 l)) (c04_normalize3 (c04_mean3 l)) = 1 /\
  exists k, 0 < k /\ c04_normalize3 (c04_mean3 l) = c04_scale k (c04_sum3 l).
Proof.
  intros Hl H.
  assert (N : 0 < / INR (length l)).
  { apply Rinv_0_lt_compat. apply lt_0_INR. destruct l; [congruence|simpl; lia]. }
  assert (E : c04_normalize3 (c04_mean3 l) = c04_normalize3 (c04_sum3 l))
    by (apply c04_normalize_scale_inv; assumption).
  destruct (c04_normalize_dir _ H) as (k & Hk & Ek & Uk).
  rewrite E. split; [reflexivity|]. split; [exact Uk|]. exists k; auto.
Qed.

(* an edge centre is the midpoint of the arc: on the great circle through the two nodes,
   equidistant from both, at half the angle (dot = sqrt((1 + a.b)/2) = cos(theta/2)) *)
Lemma c04_edge_mid a b : c04_dot a a = 1 -> c04_dot b b = 1 -> -1 < c04_dot a b ->
  let m := c04_normalize3 (c04_mean3 [a; b]) in
  c04_dot m m = 1 /\ c04_dot m a = c04_dot m b /\ c04_dot m (c04_cross a b) = 0 /\
  c04_dot m a = sqrt ((1 + c04_dot a b) / 2).
Proof.
  intros Ua Ub Hab m.
  set (h := (1 + c04_dot a b) / 2).
  assert (Hh : 0 < h) by (unfold h; lra).
  assert (D : c04_dot (c04_mean3 [a; b]) (c04_mean3 [a; b]) = h).
  { unfold h, c04_mean3, c04_sum3, c04_zero3; simpl length; simpl fold_right.
    destruct a as [[a1 a2] a3], b as [[b1 b2] b3]. c04_v3. field_simplify. nra. }
  assert (S : 0 < sqrt h) by (apply sqrt_lt_R0; exact Hh).
  assert (M : m = c04_scale (/ sqrt h) (c04_mean3 [a; b])).
  { unfold m, c04_normalize3, c04_len. rewrite D. reflexivity. }
  assert (Da : c04_dot (c04_mean3 [a; b]) a = h).
  { unfold h, c04_mean3, c04_sum3, c04_zero3; simpl length; simpl fold_right.
    destruct a as [[a1 a2] a3], b as [[b1 b2] b3]. c04_v3. field_simplify. nra. }
  assert (Db : c04_dot (c04_mean3 [a; b]) b = h).
  { unfold h, c04_mean3, c04_sum3, c04_zero3; simpl length; simpl fold_right.
    destruct a as [[a1 a2] a3], b as [[b1 b2] b3]. c04_v3. field_simplify. nra. }
  assert (Q : h / sqrt h = sqrt h).
  { rewrite <- (sqrt_sqrt h) at 1 by lra. field. lra. }
  repeat split.
  - destruct (c04_normalize_dir (c04_mean3 [a; b])) as (k & _ & _ & U); [rewrite D; exact Hh|]. exact U.
  - rewrite M, !c04_dot_scale, Da, Db. reflexivity.
  - rewrite M, c04_dot_scale.
    replace (c04_dot (c04_mean3 [a; b]) (c04_cross a b)) with 0; [ring|].
    unfold c04_mean3, c04_sum3, c04_zero3; simpl length; simpl fold_right.
    destruct a as [[a1 a2] a3], b as [[b1 b2] b3]. c04_v3. field.
  - rewrite M, c04_dot_scale, Da. fold h. rewrite <- Q at 2. field. lra.
Qed.

(* ========================================================================================== *)
(* Section C: soundness of the unit checker w.r.t. the meaning over R                           *)

Scheme c04_ll_mut := Induction for c04_ll Sort Prop
  with c04_xyz_mut := Induction for c04_xyz Sort Prop.
Combined Scheme c04_expr_mutind from c04_ll_mut, c04_xyz_mut.

(* what is assumed of the concrete source: supplied arrays describe the directions en_dir; the
   directions are unit vectors outside the snap zone (or exact poles); centres that are not
   supplied are the normalised mean of the corner nodes *)
Record c04_env_ok (c : c04_case) (en : c04_env) : Prop := {
  ok_unit : forall k i, c04_dot (en_dir en k i) (en_dir en k i) = 1;
  ok_safe : forall k i, c04_safe (en_dir en k i);
  ok_ll : forall k i, c04_has_ll (c04_prov_of c k) = true -> (i < en_count en k)%nat ->
      -180 <= fst (en_ll en k i) <= 360 /\ -90 <= snd (en_ll en k i) <= 90 /\
      c04_ll2xyz (c04_map_ll c04_deg2rad (en_ll en k i)) = en_dir en k i;
  ok_xyz : forall k i, c04_has_xyz (c04_prov_of c k) = true -> (i < en_count en k)%nat ->
      en_xyz en k i = c04_scale (en_scale en k) (en_dir en k i);
  ok_scale_pos : forall k, 0 < en_scale en k;
  ok_scale_1 : forall k, c04_scaled c k = false -> en_scale en k = 1;
  ok_corners : forall k i j, (i < en_count en k)%nat -> In j (en_corners en k i) ->
      (j < en_count en KNode)%nat;
  ok_count : forall k, en_count en k = en_count en (c04_base k);
  ok_welzl : forall i, (i < en_count en KFaceWelzl)%nat -> fst (en_ll en KFaceWelzl i) <= 180;
  ok_mean : forall k i, c04_supplied c k = false -> (i < en_count en k)%nat ->
      let m := c04_sum3 (map (en_dir en KNode) (en_corners en k i)) in
      en_corners en k i <> [] /\ 0 < c04_dot m m /\ en_dir en k i = c04_normalize3 m }.

Definition c04_ll_sem (en : c04_env) (t : c04_lltag) (v : nat -> R * R) : Prop :=
  match t with
  | TDegStd k => forall i, (i < en_count en k)%nat ->
      -180 <= fst (v i) <= 180 /\ -90 <= snd (v i) <= 90 /\
      c04_ll2xyz (c04_map_ll c04_deg2rad (v i)) = en_dir en k i
  | TDegWide k => forall i, (i < en_count en k)%nat ->
      -180 <= fst (v i) <= 360 /\ -90 <= snd (v i) <= 90 /\
      c04_ll2xyz (c04_map_ll c04_deg2rad (v i)) = en_dir en k i
  | TRad2pi k => forall i, (i < en_count en k)%nat ->
      0 <= fst (v i) < 2 * PI /\ - (PI / 2) <= snd (v i) <= PI / 2 /\ c04_ll2xyz (v i) = en_dir en k i
  | TRadAny k => forall i, (i < en_count en k)%nat ->
      - (PI / 2) <= snd (v i) <= PI / 2 /\ c04_ll2xyz (v i) = en_dir en k i
  end.

Definition c04_xyz_sem (en : c04_env) (t : c04_xyztag) (v : nat -> c04_v3) : Prop :=
  match t with
  | TUnit k => forall i, (i < en_count en k)%nat -> v i = en_dir en k i
  | TScaled k => forall i, (i < en_count en k)%nat -> v i = c04_scale (en_scale en k) (en_dir en k i)
  | TMean k => forall i, (i < en_count en k)%nat ->
      exists s, (en_corners en k i <> [] -> 0 < s) /\
        v i = c04_scale s (c04_sum3 (map (en_dir en KNode) (en_corners en k i)))
  end.

Lemma c04_any_gt180_false f n : c04_any_gt180 f n = false -> forall j, (j < n)%nat -> f j <= 180.
Proof.
  induction n as [|n IH]; simpl; intros H j Hj; [lia|].
  destruct (Rlt_dec 180 (f n)) as [G|G]; [discriminate|].
  destruct (Nat.eq_dec j n) as [->|Hne]; [lra|]. apply IH; [exact H|lia].
Qed.

Lemma c04_wrap_ll_sem (p : c04_v3) ll :
  -90 <= snd ll <= 90 -> c04_ll2xyz (c04_map_ll c04_deg2rad ll) = p ->
  -180 <= fst (c04_wrap_ll ll) <= 180 /\ -90 <= snd (c04_wrap_ll ll) <= 90 /\
  c04_ll2xyz (c04_map_ll c04_deg2rad (c04_wrap_ll ll)) = p.
Proof.
  destruct ll as [lon lat]; unfold c04_wrap_ll, c04_map_ll; simpl. intros Hl E.
  pose proof (c04_wrap_range lon). split; [lra|]. split; [exact Hl|].
  rewrite c04_wrap_same_point. exact E.
Qed.

Lemma c04_sum3_map_ext (f g : nat -> c04_v3) l :
  (forall j, In j l -> f j = g j) -> c04_sum3 (map f l) = c04_sum3 (map g l).
Proof.
  induction l as [|a l IH]; simpl; intros H; [reflexivity|].
  rewrite (H a) by auto. rewrite IH; [reflexivity|]. intros; apply H; auto.
Qed.

Lemma c04_ty_sound c en : c04_env_ok c en ->
  (forall e t, c04_ty_ll c e = Some t -> c04_ll_sem en t (c04_sem_ll en e)) /\
  (forall e t, c04_ty_xyz c e = Some t -> c04_xyz_sem en t (c04_sem_xyz en e)).
Proof.
  intros OK. pose proof PI_RGT_0 as Ppos.
  apply c04_expr_mutind.
  - (* LSrc *)
    intros k t H.
    assert (G : c04_has_ll (c04_prov_of c k) = true -> c04_ll_sem en (TDegWide k) (c04_sem_ll en (LSrc k)))
      by (intros P i Hi; apply (ok_ll c en OK k i P Hi)).
    assert (G' : forall t0, (if c04_has_ll (c04_prov_of c k) then Some (TDegWide k) else None) = Some t0 ->
                 c04_ll_sem en t0 (c04_sem_ll en (LSrc k))).
    { intros t0 H0. destruct (c04_has_ll (c04_prov_of c k)) eqn:P; [|discriminate].
      inversion H0; subst. apply G; reflexivity. }
    destruct k; simpl in H; try (apply G'; exact H).
    inversion H; subst t. simpl. intros i Hi.
    destruct (ok_ll c en OK KFaceWelzl i eq_refl Hi) as (B0 & B & C).
    pose proof (ok_welzl c en OK i Hi). simpl in *. repeat split; try lra; assumption.
  - (* LCondWrap *)
    intros k l IH t H. simpl in H.
    destruct (c04_ty_ll c l) as [[k'|k'|k'|k']|] eqn:T; try discriminate;
      destruct (c04_kind_eqb (c04_base k) (c04_base k')) eqn:K; try discriminate; apply c04_kind_eqb_eq in K;
      assert (CK : en_count en k = en_count en k')
        by (rewrite (ok_count c en OK k), (ok_count c en OK k'), K; reflexivity);
      inversion H; subst t; specialize (IH _ eq_refl); simpl in IH |- *; intros i Hi;
      rewrite CK;
      destruct (c04_any_gt180 (fun j => fst (c04_sem_ll en l j)) (en_count en k')) eqn:A.
    + destruct (IH i Hi) as (_ & B & C). apply c04_wrap_ll_sem; assumption.
    + apply IH; exact Hi.
    + destruct (IH i Hi) as (_ & B & C). apply c04_wrap_ll_sem; assumption.
    + destruct (IH i Hi) as (B0 & B & C). split; [|split; assumption].
      split; [lra|]. apply (c04_any_gt180_false _ _ A i Hi).
  - (* LWrap *)
    intros l IH t H. simpl in H.
    destruct (c04_ty_ll c l) as [[k'|k'|k'|k']|] eqn:T; try discriminate;
      inversion H; subst t; specialize (IH _ eq_refl); simpl in IH |- *; intros i Hi;
      destruct (IH i Hi) as (_ & B & C); apply c04_wrap_ll_sem; assumption.
  - (* LRad2Deg *)
    intros l IH t H. simpl in H.
    destruct (c04_ty_ll c l) as [[k'|k'|k'|k']|] eqn:T; try discriminate.
    inversion H; subst t; specialize (IH _ eq_refl); simpl in IH |- *; intros i Hi.
    destruct (IH i Hi) as (B0 & B & C). destruct (c04_sem_ll en l i) as [lon lat]; simpl in *.
    assert (Q : forall r, c04_rad2deg r = r * (180 / PI)) by (intros; unfold c04_rad2deg; field; lra).
    assert (Kp : 0 < 180 / PI) by (apply Rdiv_lt_0_compat; lra).
    assert (E2 : 2 * PI * (180 / PI) = 360) by (field; lra).
    assert (E1 : PI / 2 * (180 / PI) = 90) by (field; lra).
    rewrite !Q. repeat split; try nra.
    unfold c04_map_ll; simpl. rewrite !c04_deg_rad_inv. exact C.
  - (* LDeg2Rad *)
    intros l IH t H. simpl in H.
    assert (G : forall k, (forall i, (i < en_count en k)%nat ->
               -90 <= snd (c04_sem_ll en l i) <= 90 /\
               c04_ll2xyz (c04_map_ll c04_deg2rad (c04_sem_ll en l i)) = en_dir en k i) ->
             c04_ll_sem en (TRadAny k) (c04_sem_ll en (LDeg2Rad l))).
    { intros k Hk i Hi. destruct (Hk i Hi) as (B & C). simpl.
      destruct (c04_sem_ll en l i) as [lon lat]; simpl in *. split; [|exact C].
      unfold c04_deg2rad. split; nra. }
    destruct (c04_ty_ll c l) as [[k'|k'|k'|k']|] eqn:T; try discriminate;
      inversion H; subst t; specialize (IH _ eq_refl); simpl in IH; apply G; intros i Hi;
      destruct (IH i Hi) as (_ & B & C); split; assumption.
  - (* LOfXyz *)
    intros n x IH t H. simpl in H.
    destruct (c04_ty_xyz c x) as [[k'|k'|k']|] eqn:T; try discriminate.
    + inversion H; subst t; specialize (IH _ eq_refl); simpl in IH |- *; intros i Hi.
      rewrite (IH i Hi).
      assert (U := ok_unit c en OK k' i).
      assert (E : (if n then c04_normalize_twice (en_dir en k' i) else en_dir en k' i) = en_dir en k' i).
      { destruct n; [|reflexivity]. rewrite c04_normalize_twice_eq by lra. apply c04_normalize_unit; exact U. }
      rewrite E. apply c04_xyz2ll_spec; [exact U|apply (ok_safe c en OK)].
    + destruct n; [|discriminate].
      inversion H; subst t; specialize (IH _ eq_refl); simpl in IH |- *; intros i Hi.
      rewrite (IH i Hi).
      assert (U := ok_unit c en OK k' i). assert (S := ok_scale_pos c en OK k').
      assert (D : 0 < c04_dot (c04_scale (en_scale en k') (en_dir en k' i)) (c04_scale (en_scale en k') (en_dir en k' i))).
      { rewrite c04_dot_scale, c04_dot_scale_r, U. nra. }
      rewrite c04_normalize_twice_eq by exact D. rewrite c04_normalize_scaled by assumption.
      apply c04_xyz2ll_spec; [exact U|apply (ok_safe c en OK)].
  - (* XSrc *)
    intros k t H. simpl in H. destruct (c04_has_xyz (c04_prov_of c k)) eqn:P; [|discriminate].
    destruct (c04_scaled c k) eqn:S; inversion H; subst t; simpl; intros i Hi.
    + apply (ok_xyz c en OK k i P Hi).
    + rewrite (ok_xyz c en OK k i P Hi), (ok_scale_1 c en OK k S). apply c04_scale_1.
  - (* XOfLL *)
    intros l IH t H. simpl in H.
    destruct (c04_ty_ll c l) as [[k'|k'|k'|k']|] eqn:T; try discriminate;
      inversion H; subst t; specialize (IH _ eq_refl); simpl in IH |- *; intros i Hi;
      apply (IH i Hi).
  - (* XNorm *)
    intros x IH t H. simpl in H.
    destruct (c04_ty_xyz c x) as [[k'|k'|k']|] eqn:T; try discriminate.
    + inversion H; subst t; specialize (IH _ eq_refl); simpl in IH |- *; intros i Hi.
      rewrite (IH i Hi). apply c04_normalize_unit. apply (ok_unit c en OK).
    + inversion H; subst t; specialize (IH _ eq_refl); simpl in IH |- *; intros i Hi.
      rewrite (IH i Hi). apply c04_normalize_scaled; [apply (ok_scale_pos c en OK)|apply (ok_unit c en OK)].
    + destruct (c04_supplied c k') eqn:S; [discriminate|].
      inversion H; subst t; specialize (IH _ eq_refl); simpl in IH |- *; intros i Hi.
      destruct (IH i Hi) as (s & Hs & E). destruct (ok_mean c en OK k' i S Hi) as (Ne & Dm & Ed).
      rewrite E, Ed. apply c04_normalize_scale_inv; [apply Hs; exact Ne|exact Dm].
  - (* XMean *)
    intros k x IH t H. simpl in H.
    assert (G : forall s, 0 < s ->
              (forall j, (j < en_count en KNode)%nat -> c04_sem_xyz en x j = c04_scale s (en_dir en KNode j)) ->
              c04_xyz_sem en (TMean k) (c04_sem_xyz en (XMean k x))).
    { intros s Hs Hx i Hi. simpl. unfold c04_mean3.
      exists (/ INR (length (map (c04_sem_xyz en x) (en_corners en k i))) * s). split.
      - intros Ne. apply Rmult_lt_0_compat; [|exact Hs]. apply Rinv_0_lt_compat, lt_0_INR.
        rewrite map_length. destruct (en_corners en k i); [congruence|simpl; lia].
      - rewrite <- c04_scale_scale. f_equal.
        rewrite (c04_sum3_map_ext (c04_sem_xyz en x) (fun j => c04_scale s (en_dir en KNode j))).
        + rewrite <- (map_map (en_dir en KNode) (c04_scale s)). apply c04_sum3_scale.
        + intros j Hj. apply Hx. apply (ok_corners c en OK k i j Hi Hj). }
    destruct k; try discriminate;
      destruct (c04_ty_xyz c x) as [[[]|[]|[]]|] eqn:T; try discriminate;
      inversion H; subst t; specialize (IH _ eq_refl); simpl in IH;
      first [ apply (G 1); [lra|]; intros j Hj; rewrite c04_scale_1; apply IH; exact Hj
            | apply (G (en_scale en KNode)); [apply (ok_scale_pos c en OK)|]; exact IH ].
Qed.

(* History theorem, semantic form: for every source and history (accesses, construct_face_centers,
   re-assignments, normalisation) the repaired Grid reports, for every element, lon/lat in the
   standard ranges that denote exactly the direction of its family, and Cartesian coordinates that
   are a positive multiple of the SAME direction — of unit length whenever the source did not supply
   them.  For faces the family is the source's / derived centres or the one installed by
   construct_face_centers; lon/lat and Cartesian always belong to the same one. *)
Definition c04_ll_denotes (en : c04_env) (F : c04_kind) (l : c04_ll) : Prop :=
  forall i, (i < en_count en F)%nat ->
    -180 <= fst (c04_sem_ll en l i) <= 180 /\ -90 <= snd (c04_sem_ll en l i) <= 90 /\
    c04_ll2xyz (c04_map_ll c04_deg2rad (c04_sem_ll en l i)) = en_dir en F i.
Definition c04_xyz_denotes (c : c04_case) (en : c04_env) (F : c04_kind) (x : c04_xyz) : Prop :=
  forall i, (i < en_count en F)%nat ->
    exists r, 0 < r /\ c04_sem_xyz en x i = c04_scale r (en_dir en F i) /\
              (c04_has_xyz (c04_prov_of c F) = false -> r = 1).

Lemma c04_wf_not_scaled c F :
  c04_wf_case c = true -> c04_has_xyz (c04_prov_of c F) = false -> c04_scaled c F = false.
Proof.
  intros W NX. unfold c04_wf_case in W. repeat (apply andb_prop in W; destruct W as [W ?]).
  destruct F; simpl in NX |- *; try reflexivity; rewrite NX in *; simpl in *;
    match goal with H : negb ?b = true |- ?b = false => destruct b; [discriminate|reflexivity] end.
Qed.

Lemma c04_ll_ok_denotes c en F l :
  c04_env_ok c en -> c04_ll_ok c F l = true -> c04_ll_denotes en F l.
Proof.
  intros OK H. apply c04_ll_ok_iff in H. destruct (c04_ty_sound c en OK) as [SL _].
  intros i Hi. apply (SL l _ H i Hi).
Qed.

Lemma c04_xyz_ok_denotes c en F x :
  c04_wf_case c = true -> c04_env_ok c en -> c04_xyz_ok c F x = true -> c04_xyz_denotes c en F x.
Proof.
  intros W OK H. apply c04_xyz_ok_iff in H. destruct (c04_ty_sound c en OK) as [_ SX].
  intros i Hi. destruct H as [T|T].
  - exists 1. split; [lra|]. split; [|reflexivity]. rewrite c04_scale_1. apply (SX x _ T i Hi).
  - exists (en_scale en F). split; [apply (ok_scale_pos c en OK)|]. split; [apply (SX x _ T i Hi)|].
    intros NX. apply (ok_scale_1 c en OK). apply c04_wf_not_scaled; assumption.
Qed.

Lemma c04_provenance_sem fx c en ops :
  c04_all_fixed fx = true -> c04_wf_case c = true -> c04_env_ok c en ->
  let s := c04_run fx c ops in
  (forall l, st_nll s = Some l -> c04_ll_denotes en KNode l) /\
  (forall x, st_nxyz s = Some x -> c04_xyz_denotes c en KNode x) /\
  (forall l, st_ell s = Some l -> c04_ll_denotes en KEdge l) /\
  (forall x, st_exyz s = Some x -> c04_xyz_denotes c en KEdge x) /\
  exists F, c04_is_face_fam F = true /\
    (forall l, st_fll s = Some l -> c04_ll_denotes en F l) /\
    (forall x, st_fxyz s = Some x -> c04_xyz_denotes c en F x).
Proof.
  intros A W OK s.
  assert (I : c04_inv c s) by (apply c04_run_inv_from; [exact A|apply c04_init_inv; exact W]).
  destruct I as (Iok & (F & IF) & _).
  repeat (apply andb_prop in Iok; destruct Iok as [Iok ?]).
  unfold c04_face_ok in IF. repeat (apply andb_prop in IF; destruct IF as [IF ?]).
  split; [|split; [|split; [|split]]].
  - intros l0 E0. rewrite E0 in *. eapply c04_ll_ok_denotes; eassumption.
  - intros x0 E0. rewrite E0 in *. eapply c04_xyz_ok_denotes; eassumption.
  - intros l0 E0. rewrite E0 in *. eapply c04_ll_ok_denotes; eassumption.
  - intros x0 E0. rewrite E0 in *. eapply c04_xyz_ok_denotes; eassumption.
  - exists F. split; [exact IF|]. split.
    + intros l0 E0. rewrite E0 in *. eapply c04_ll_ok_denotes; eassumption.
    + intros x0 E0. rewrite E0 in *. eapply c04_xyz_ok_denotes; eassumption.
Qed.

(* ... while the code as it is reports a node longitude of 270 degrees for the point (0,-1,0) of a
   Cartesian-only grid *)
Definition c04_env_one_node : c04_env :=
  {| en_count := fun k => match k with KNode => 1%nat | _ => 0%nat end;
     en_corners := fun _ _ => [];
     en_ll := fun _ _ => (0, 0);
     en_xyz := fun _ _ => (0, -1, 0);
     en_dir := fun _ _ => (0, -1, 0);
     en_scale := fun _ => 1 |}.

Lemma c04_Int_part_quarter : Int_part (- (1 / 4)) = (-1)%Z.
Proof.
  unfold Int_part. rewrite <- (tech_up (- (1 / 4)) 0); [reflexivity| |]; simpl; lra.
Qed.

Lemma c04_node_lon_sem_refuted :
  exists c en ops l i, c04_wf_case c = true /\ c04_env_ok c en /\
    c04_get_ll (c04_run c04_as_found c ops) KNode = Some l /\ (i < en_count en KNode)%nat /\
    fst (c04_sem_ll en l i) = 270.
Proof.
  exists c04_case_xyz_nodes, c04_env_one_node, [OGetLL KNode],
    (LRad2Deg (LOfXyz true (XSrc KNode))), 0%nat.
  pose proof PI_RGT_0 as Ppos. pose proof c04_tol_pos as T.
  split; [reflexivity|]. split; [|split; [reflexivity|split; [simpl; lia|]]].
  - constructor; simpl; intros.
    + c04_v3. ring.
    + left. simpl. rewrite Rabs_R0. lra.
    + destruct k; try discriminate; simpl in *; lia.
    + rewrite c04_scale_1. reflexivity.
    + lra.
    + reflexivity.
    + contradiction.
    + destruct k; reflexivity.
    + lia.
    + destruct k; simpl in *; try discriminate; lia.
  - simpl c04_sem_ll. simpl c04_sem_xyz. unfold c04_env_one_node; simpl en_xyz.
    assert (U : c04_dot (0, -1, 0) (0, -1, 0) = 1) by (c04_v3; ring).
    rewrite c04_normalize_twice_eq by lra. rewrite c04_normalize_unit by exact U.
    unfold c04_xyz2ll. cbn [c04_px c04_py c04_pz fst snd]. rewrite Rabs_R0.
    destruct (Rlt_dec (1 - c04_tol) 0) as [B|_]; [lra|].
    unfold c04_atan2.
    destruct (Rlt_dec 0 0) as [B|_]; [lra|].
    destruct (Rlt_dec 0 (-1)) as [B|_]; [lra|].
    destruct (Rlt_dec (-1) 0) as [_|B]; [|lra].
    unfold c04_map_ll, c04_rmod; simpl fst.
    replace (- (PI / 2) / (2 * PI)) with (- (1 / 4)) by (field; lra).
    rewrite c04_Int_part_quarter. unfold c04_rad2deg. field. lra.
Qed.

(* round trip lon/lat -> Cartesian -> lon/lat outside the snap zone *)
Lemma c04_angle_inj a b : cos a = cos b -> sin a = sin b ->
  0 <= a < 2 * PI -> 0 <= b < 2 * PI -> a = b.
Proof.
  intros Hc Hs Ha Hb. pose proof PI_RGT_0 as Ppos.
  assert (S : sin (a - b) = 0) by (rewrite sin_minus, Hc, Hs; ring).
  assert (C : cos (a - b) = 1).
  { rewrite cos_minus, Hc, Hs. pose proof (sin2_cos2 b) as Q. unfold Rsqr in Q. lra. }
  destruct (sin_eq_0_0 _ S) as [k Hk].
  assert (K : (-2 < k < 2)%Z).
  { split; apply lt_IZR.
    - apply Rmult_lt_reg_r with PI; [lra|]. rewrite <- Hk. lra.
    - apply Rmult_lt_reg_r with PI; [lra|]. rewrite <- Hk. lra. }
  assert (k = (-1)%Z \/ k = 0%Z \/ k = 1%Z) as [ -> | [ -> | -> ] ] by lia.
  - exfalso. replace (a - b) with (- PI) in C by lra. rewrite cos_neg, cos_PI in C. lra.
  - lra.
  - exfalso. replace (a - b) with PI in C by lra. rewrite cos_PI in C. lra.
Qed.

Lemma c04_roundtrip_ll lon lat :
  0 <= lon < 2 * PI -> - (PI / 2) <= lat <= PI / 2 -> Rabs (sin lat) <= 1 - c04_tol ->
  c04_xyz2ll (c04_ll2xyz (lon, lat)) = (lon, lat).
Proof.
  intros Hlon Hlat Hz. pose proof c04_tol_pos as T.
  set (p := c04_ll2xyz (lon, lat)).
  assert (U : c04_dot p p = 1) by apply c04_unit.
  assert (Sf : c04_safe p) by (left; exact Hz).
  destruct (c04_xyz2ll_spec p U Sf) as (R1 & R2 & E).
  assert (L : snd (c04_xyz2ll p) = lat).
  { unfold c04_xyz2ll. change (c04_pz p) with (sin lat).
    destruct (Rlt_dec (1 - c04_tol) (Rabs (sin lat))); [lra|]. simpl. apply asin_sin; exact Hlat. }
  assert (Cl : 0 < cos lat).
  { assert (0 <= cos lat) by (apply cos_ge_0; lra).
    assert (cos lat <> 0).
    { intros Z. pose proof (sin2_cos2 lat) as Q. unfold Rsqr in Q. rewrite Z in Q.
      assert (Rabs (sin lat) = 1).
      { assert (sin lat = 1 \/ sin lat = -1) as [ -> | -> ] by nra;
          unfold Rabs; destruct (Rcase_abs _); lra. }
      lra. }
    lra. }
  destruct (c04_xyz2ll p) as [lon' lat'] eqn:Q. simpl in *. subst lat'.
  unfold p, c04_ll2xyz in E; simpl in E. inversion E as [[Ex Ey]].
  f_equal. apply c04_angle_inj; try assumption.
  - apply Rmult_eq_reg_r with (cos lat); [exact Ex|lra].
  - apply Rmult_eq_reg_r with (cos lat); [exact Ey|lra].
Qed.

(* non-vacuity of the hypotheses: a source with two nodes and one derived edge centre *)
Definition c04_env_two_nodes : c04_env :=
  let n (i : nat) : c04_v3 := match i with O => (1, 0, 0) | _ => (0, 1, 0) end in
  {| en_count := fun k => match k with KNode => 2%nat | KEdge => 1%nat | _ => 0%nat end;
     en_corners := fun k _ => match k with KEdge => [0%nat; 1%nat] | _ => [] end;
     en_ll := fun _ _ => (0, 0);
     en_xyz := fun k i => n i;
     en_dir := fun k i => match k with
                          | KNode => n i
                          | _ => c04_normalize3 (c04_sum3 (map n [0%nat; 1%nat]))
                          end;
     en_scale := fun _ => 1 |}.

Example c04_env_ok_nonvacuous : c04_env_ok c04_case_xyz_nodes c04_env_two_nodes.
Proof.
  pose proof c04_tol_pos as T.
  assert (D : 0 < c04_dot (c04_sum3 (map (fun i : nat => match i with O => (1, 0, 0) | _ => (0, 1, 0) end) [0%nat; 1%nat]))
                          (c04_sum3 (map (fun i : nat => match i with O => (1, 0, 0) | _ => (0, 1, 0) end) [0%nat; 1%nat]))).
  { unfold c04_sum3, c04_zero3; simpl. c04_v3. lra. }
  constructor; unfold c04_env_two_nodes; cbn [en_count en_corners en_ll en_xyz en_dir en_scale].
  - intros k i. destruct k;
      try (destruct (c04_normalize_dir _ D) as (? & _ & _ & U); exact U).
    destruct i; c04_v3; ring.
  - intros k i. left. destruct k;
      try (unfold c04_normalize3, c04_sum3, c04_zero3; simpl; unfold c04_scale, c04_pz; simpl;
           replace (0 + (0 + 0)) with 0 by ring; rewrite Rmult_0_r, Rabs_R0; lra).
    destruct i; simpl; rewrite Rabs_R0; lra.
  - intros k i H Hi. destruct k; try discriminate; simpl in Hi; lia.
  - intros k i H Hi. destruct k; try discriminate. rewrite c04_scale_1. reflexivity.
  - intros; lra.
  - reflexivity.
  - intros k i j Hi Hj. destruct k; simpl in Hj; try contradiction.
    destruct Hj as [<-|[<-|[]]]; lia.
  - intros k. destruct k; reflexivity.
  - intros i Hi. lia.
  - intros k i S Hi. destruct k; simpl in *; try discriminate; try lia.
    split; [discriminate|]. split; [exact D|reflexivity].
Qed.

Example c04_xyz2ll_spec_nonvacuous : c04_dot (1, 0, 0) (1, 0, 0) = 1 /\ c04_safe (1, 0, 0).
Proof.
  pose proof c04_tol_pos. split; [c04_v3; ring|]. left. simpl. rewrite Rabs_R0. lra.
Qed.

Example c04_snap_nonvacuous : c04_dot (0, 0, 1) (0, 0, 1) = 1 /\ 1 - c04_tol < Rabs (c04_pz (0, 0, 1)).
Proof. pose proof c04_tol_pos. split; [c04_v3; ring|]. simpl. rewrite Rabs_R1. lra. Qed.

Example c04_edge_mid_nonvacuous :
  c04_dot (1, 0, 0) (1, 0, 0) = 1 /\ c04_dot (0, 1, 0) (0, 1, 0) = 1 /\ -1 < c04_dot (1, 0, 0) (0, 1, 0).
Proof. repeat split; c04_v3; lra. Qed.

Example c04_roundtrip_ll_nonvacuous :
  0 <= 1 < 2 * PI /\ - (PI / 2) <= 0 <= PI / 2 /\ Rabs (sin 0) <= 1 - c04_tol.
Proof.
  pose proof c04_tol_pos. pose proof PI2_3_2. rewrite sin_0, Rabs_R0. repeat split; lra.
Qed.
