(* A subset is a grid in standard form again, so everything C02 (and C03) prove about derived tables holds ON the subset:
   the "fully functional Grid" half of C09, for the connectivity that is derived from the face table. *)
From Coq Require Import Sorting.Sorted ZifyBool.
From Verif Require Import Base C02 C02_proofs C02_check C02_check_proofs C09 C09_proofs C09_commute_proofs.
Local Open Scope Z_scope.

Lemma map_repeat {A B} (f : A -> B) x n : map f (repeat x n) = repeat (f x) n.
Proof. induction n as [|n IH]; simpl; [reflexivity|rewrite IH; reflexivity]. Qed.

Section SubsetStd.
Variables (m : nat) (T : table) (idx : list Z).
Hypothesis Hstd : std_table m T.
Hypothesis Hidx : Forall (fun i => 0 <= i < Z.of_nat (length T)) idx.

Local Notation ni := (c09_node_indices T idx).
Local Notation ren := (c09_renumber ni).

Theorem subset_std : std_table m (fst (c09_slice_faces T idx)).
Proof.
  unfold c09_slice_faces. cbn [fst]. unfold std_table, c09_rows. rewrite map_map. apply Forall_forall.
  intros r' Hr'. apply in_map_iff in Hr'. destruct Hr' as (i & <- & Hi).
  rewrite Forall_forall in Hidx. pose proof (Hidx i Hi) as Hrange.
  set (r := nth (Z.to_nat i) T []).
  assert (Hr : In r T) by (subst r; apply nth_In; lia).
  pose proof Hstd as Hs. unfold std_table in Hs. rewrite Forall_forall in Hs. destruct (Hs r Hr) as [Hlen Hsr].
  split; [rewrite map_length; exact Hlen|].
  destruct Hsr as (c & n & Heq & Hc). exists (map ren c), n. split.
  - rewrite Heq, map_app, map_repeat.
    replace (ren FILL) with FILL; [reflexivity|].
    unfold c09_renumber. rewrite (proj2 (c09_is_fill_iff FILL) eq_refl). reflexivity.
  - apply Forall_forall. intros y Hy. apply in_map_iff in Hy. destruct Hy as (x & <- & Hx).
    rewrite Forall_forall in Hc. specialize (Hc x Hx).
    pose proof (renumber_good T idx) as Hg.
    apply (gr_real _ _ Hg x).
    + apply (proj2 (faces_touching_spec T idx x)). split; [unfold FILL; lia|].
      exists i. split; [exact Hi|]. fold r. rewrite Heq. apply in_or_app. left. exact Hx.
    + unfold FILL. lia.
Qed.

(* hence the tables derived ON the subset meet every clause of C02 with respect to the subset's own faces *)
Corollary subset_meets_C02 :
  let S := fst (c09_slice_faces T idx) in
  C02_spec S (edges S) (face_edges S m) (n_nodes_per_face S).
Proof. intros S. apply model_meets_spec. exact subset_std. Qed.

End SubsetStd.

Example subset_std_ex :
  let T := [[0;1;2;FILL];[1;3;4;2];[5;1;0;FILL]] in
  std_tableb 4 (fst (c09_slice_faces T [2;0])) = true /\ fst (c09_slice_faces T [2;0]) = [[3;1;0;FILL];[0;1;2;FILL]].
Proof. vm_compute. split; reflexivity. Qed.
