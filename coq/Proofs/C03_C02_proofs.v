(* Composition of the C02 and C03 models: edge_face_connectivity computed from the DERIVED
   face_edge_connectivity / n_nodes_per_face / n_edge of a standard-form face-node table lists, for
   edge e, exactly the faces having the segment edges[e] among their consecutive corner pairs. *)
From Coq Require Import ZifyBool.
From Verif Require Import Base C02 C02_proofs C03 C03_proofs.
Local Open Scope Z_scope.

Definition G (t0 : table) (r : row) : row := map (fe_entry t0) (row_pairs r).
Definition K (r : row) : Z := Z.of_nat (first_fill r).

Lemma firstn_G_std t0 c n : Forall (fun x => 0 <= x) c ->
  firstn (Z.to_nat (K (c ++ repeat FILL n))) (G t0 (c ++ repeat FILL n)) = map (fe_entry t0) (cyc_pairs c).
Proof.
  intros Hc. unfold K, G. rewrite Nat2Z.id, first_fill_std by assumption.
  destruct (row_pairs_std c n Hc) as (junk & -> & _ & _).
  rewrite map_app, firstn_app, map_length, cyc_pairs_length, Nat.sub_diag. simpl. rewrite app_nil_r.
  apply firstn_all2. rewrite map_length, cyc_pairs_length. lia.
Qed.

(* the (edge, face) visits of the numba loop, read off the face-node table *)
Lemma events_In t0 : forall t f0 e f,
  Forall std_row t ->
  (In (e, f) (c03_events (map (G t0) t) (map K t) f0) <->
   exists i r q, nth_error t i = Some r /\ f = f0 + Z.of_nat i /\ In q (cyc_pairs (corners r))
                 /\ e = Z.to_nat (fe_entry t0 q)).
Proof.
  induction t as [|r t IH]; intros f0 e f Hstd; simpl.
  - split; [intros []|intros (i & r & q & H & _); destruct i; discriminate].
  - apply Forall_cons_iff in Hstd. destruct Hstd as [Hr Ht].
    destruct (std_row_inv r Hr) as (c & n & Heq & Hc & Hcor & _).
    rewrite in_app_iff, (IH (f0 + 1) e f Ht). clear IH.
    assert (Hfirst : firstn (Z.to_nat (K r)) (G t0 r) = map (fe_entry t0) (cyc_pairs (corners r))).
    { rewrite Hcor, Heq. apply firstn_G_std. exact Hc. }
    rewrite Hfirst. split.
    + intros [Hin|(i & r' & q & Hn & -> & Hq & ->)].
      * apply in_map_iff in Hin. destruct Hin as (x & Hx & Hin). inversion Hx; subst.
        apply in_map_iff in Hin. destruct Hin as (q & <- & Hq).
        eexists 0%nat, _, q. split; [reflexivity|]. split; [lia|]. split; [exact Hq|reflexivity].
      * exists (S i), r', q. split; [exact Hn|]. split; [lia|]. split; [exact Hq|reflexivity].
    + intros (i & r' & q & Hn & -> & Hq & ->). destruct i as [|i].
      * simpl in Hn. inversion Hn; subst r'. left. apply in_map_iff.
        exists (fe_entry t0 q). split; [f_equal; lia|]. apply in_map_iff. exists q. split; [reflexivity|exact Hq].
      * right. exists i, r', q. split; [exact Hn|]. split; [lia|]. split; [exact Hq|reflexivity].
Qed.

Lemma std_table_rows m t : std_table m t -> Forall std_row t.
Proof. unfold std_table. intros H. eapply Forall_impl; [|exact H]. simpl. tauto. Qed.

Lemma derived_tables m t : std_table m t ->
  face_edges t m = map (G t) t /\ n_nodes_per_face t = map K t.
Proof. intros H. split; [apply face_edges_rows; exact H|reflexivity]. Qed.

(* every visit addresses a real edge *)
Theorem events_in_range m t : std_table m t ->
  Forall (fun ev => (fst ev < length (edges t))%nat)
         (c03_events (face_edges t m) (n_nodes_per_face t) 0).
Proof.
  intros Hstd. destruct (derived_tables m t Hstd) as [-> ->].
  apply Forall_forall. intros [e f] Hin.
  apply (events_In t t 0 e f (std_table_rows m t Hstd)) in Hin.
  destruct Hin as (i & r & q & Hn & _ & Hq & ->). simpl.
  destruct (fe_entry_real m t r q Hstd (nth_error_In _ _ Hn) Hq) as (e0 & He0 & Hne).
  rewrite He0, Nat2Z.id. apply nth_error_Some. rewrite Hne. discriminate.
Qed.

(* f is listed for edge e iff the segment edges[e] is a consecutive corner pair of face f *)
Theorem occ_geometric m t e f : std_table m t -> (e < length (edges t))%nat ->
  (In f (c03_occ (face_edges t m) (n_nodes_per_face t) e) <->
   exists i r q, nth_error t i = Some r /\ f = Z.of_nat i /\ In q (cyc_pairs (corners r))
                 /\ nth_error (edges t) e = Some (norm_pair q)).
Proof.
  intros Hstd He. unfold c03_occ. destruct (derived_tables m t Hstd) as [-> ->].
  rewrite in_map_iff. split.
  - intros ([e' f'] & Hf & Hin). simpl in Hf. subst f'. apply filter_In in Hin. destruct Hin as [Hin Heq].
    simpl in Heq. apply Nat.eqb_eq in Heq. subst e'.
    apply (events_In t t 0 e f (std_table_rows m t Hstd)) in Hin.
    destruct Hin as (i & r & q & Hn & -> & Hq & Hee).
    exists i, r, q. split; [exact Hn|]. split; [lia|]. split; [exact Hq|].
    destruct (fe_entry_real m t r q Hstd (nth_error_In _ _ Hn) Hq) as (e0 & He0 & Hne).
    rewrite He0, Nat2Z.id in Hee. subst e. exact Hne.
  - intros (i & r & q & Hn & -> & Hq & Hne).
    exists (e, Z.of_nat i). split; [reflexivity|]. apply filter_In. split; [|simpl; apply Nat.eqb_refl].
    apply (events_In t t 0 e (Z.of_nat i) (std_table_rows m t Hstd)).
    exists i, r, q. split; [exact Hn|]. split; [lia|]. split; [exact Hq|].
    destruct (fe_entry_real m t r q Hstd (nth_error_In _ _ Hn) Hq) as (e0 & He0 & Hne0).
    rewrite He0, Nat2Z.id.
    assert (Hnd := edges_NoDup t).
    apply (proj1 (NoDup_nth_error (edges t)) Hnd e e0 He). rewrite Hne, Hne0. reflexivity.
Qed.

(* edge_face row of the whole pipeline (table -> edges -> face_edge -> edge_face) *)
Theorem edge_face_of_table m t e : std_table m t -> (e < length (edges t))%nat ->
  nth e (c03_edge_faces (face_edges t m) (n_nodes_per_face t) (length (edges t))) (FILL, FILL)
  = c03_row_of (c03_occ (face_edges t m) (n_nodes_per_face t) e).
Proof. intros Hstd He. apply edge_faces_spec; [apply events_in_range; exact Hstd|exact He]. Qed.

Example pipeline_ex :
  let t := [[0;1;2;FILL];[1;3;4;2];[5;1;0;FILL]] in
  c03_edge_faces (face_edges t 4) (n_nodes_per_face t) (length (edges t))
  = [(0,2);(0,FILL);(2,FILL);(0,1);(1,FILL);(2,FILL);(1,FILL);(1,FILL)].
Proof. vm_compute. reflexivity. Qed.
