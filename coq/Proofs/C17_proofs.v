(* Proofs about Model/C17.v: the node->face (node->edge) aggregation returns, for every face
   (edge) and every leading index, the reduction applied to the data on exactly the corners of
   that element; no padding index is read; any index vector that is an argsort of
   n_nodes_per_face gives the same result.  Parametric in the reduction; no size bound. *)
From Coq Require Import Permutation Sorting.Sorted ZifyBool QArith.
From Verif Require Import Base C02 C02_proofs C17.

Local Open Scope Z_scope.

(* ------------------------------------------------------------------------- *)
(* all-or-nothing map, numpy indexing                                          *)

Lemma c17_all_some_map {X} (r : list X) : c17_all_some (map Some r) = Some r.
Proof. induction r as [|x r IH]; simpl; [reflexivity|]. rewrite IH. reflexivity. Qed.

Lemma c17_all_some_inv {X} (l : list (option X)) r : c17_all_some l = Some r -> l = map Some r.
Proof.
  revert r; induction l as [|[x|] l IH]; intros r H; simpl in H.
  - injection H as <-. reflexivity.
  - destruct (c17_all_some l) as [r'|] eqn:E; [|discriminate]. injection H as <-.
    simpl. f_equal. apply IH. reflexivity.
  - discriminate.
Qed.

Lemma c17_np_index_in {A} (v : list A) i d :
  0 <= i < Z.of_nat (length v) -> c17_np_index v i = Some (nth (Z.to_nat i) v d).
Proof.
  intros H. unfold c17_np_index.
  destruct (0 <=? i) eqn:E; [|lia].
  apply nth_error_nth'. lia.
Qed.

Lemma c17_np_index_fill {A} (v : list A) :
  Z.of_nat (length v) < 2 ^ 63 -> c17_np_index v FILL = None.
Proof.
  intros H. unfold c17_np_index, FILL in *.
  destruct (0 <=? -9223372036854775808) eqn:E; [lia|].
  destruct (- Z.of_nat (length v) <=? -9223372036854775808) eqn:E2; [lia|reflexivity].
Qed.

Lemma c17_gather_in {A} (v : list A) idx d :
  Forall (fun i => 0 <= i < Z.of_nat (length v)) idx ->
  c17_gather v idx = Some (map (fun i => nth (Z.to_nat i) v d) idx).
Proof.
  intros H. unfold c17_gather.
  rewrite <- c17_all_some_map. f_equal.
  rewrite map_map. apply map_ext_in. intros i Hi.
  rewrite Forall_forall in H. apply c17_np_index_in. auto.
Qed.

(* ------------------------------------------------------------------------- *)
(* sorting                                                                     *)

Lemma c17_insert_perm p l : Permutation (c17_insert p l) (p :: l).
Proof.
  induction l as [|q l IH]; simpl; [reflexivity|].
  destruct (fst p <=? fst q); [reflexivity|].
  rewrite IH. apply perm_swap.
Qed.

Lemma c17_isort_perm l : Permutation (c17_isort l) l.
Proof.
  induction l as [|p l IH]; simpl; [reflexivity|].
  rewrite c17_insert_perm. constructor. exact IH.
Qed.

Lemma c17_insert_fst p l : map fst (c17_insert p l) = c17_insertZ (fst p) (map fst l).
Proof.
  induction l as [|q l IH]; simpl; [reflexivity|].
  destruct (fst p <=? fst q); simpl; [reflexivity|]. f_equal. exact IH.
Qed.

Lemma c17_isort_fst l : map fst (c17_isort l) = c17_isortZ (map fst l).
Proof.
  induction l as [|p l IH]; simpl; [reflexivity|].
  rewrite c17_insert_fst, IH. reflexivity.
Qed.

Lemma c17_iota_length n : length (c17_iota n) = n.
Proof. unfold c17_iota. rewrite map_length, seq_length. reflexivity. Qed.

Lemma c17_in_iota n x : In x (c17_iota n) <-> exists i, x = Z.of_nat i /\ (i < n)%nat.
Proof.
  unfold c17_iota. rewrite in_map_iff. split.
  - intros (i & <- & Hi). apply in_seq in Hi. exists i. split; [reflexivity|lia].
  - intros (i & -> & Hi). exists i. split; [reflexivity|]. apply in_seq. lia.
Qed.

Lemma c17_combine_fst {X Y} (a : list X) (b : list Y) :
  length a = length b -> map fst (combine a b) = a.
Proof.
  revert b; induction a as [|x a IH]; intros [|y b] H; simpl in *; try discriminate; auto.
  f_equal. apply IH. lia.
Qed.

Lemma c17_combine_snd {X Y} (a : list X) (b : list Y) :
  length a = length b -> map snd (combine a b) = b.
Proof.
  revert b; induction a as [|x a IH]; intros [|y b] H; simpl in *; try discriminate; auto.
  f_equal. apply IH. lia.
Qed.

(* every (key, index) pair of combine k (arange) satisfies k[index] = key *)
Lemma c17_combine_iota_key k : forall s (p : Z * Z),
  In p (combine k (map Z.of_nat (seq s (length k)))) ->
  exists i, snd p = Z.of_nat (s + i) /\ nth_error k i = Some (fst p).
Proof.
  induction k as [|x k IH]; intros s p H; simpl in H; [contradiction|].
  destruct H as [<-|H].
  - exists 0%nat. simpl. split; [f_equal; lia|reflexivity].
  - destruct (IH (S s) p H) as (i & Hs & Hk). exists (S i). split; [rewrite Hs; f_equal; lia|exact Hk].
Qed.

(* S is an argsort of k:  a permutation of arange(len k) with k[S] = sort(k) *)
Definition c17_is_argsort (k : list Z) (S : list Z) : Prop :=
  Permutation S (c17_iota (length k)) /\ map (fun f => nth (Z.to_nat f) k 0) S = c17_isortZ k.

Lemma c17_argsort_is_argsort k : c17_is_argsort k (c17_argsort k).
Proof.
  unfold c17_is_argsort, c17_argsort. split.
  - rewrite (c17_isort_perm (combine k (c17_iota (length k)))).
    rewrite c17_combine_snd by (rewrite c17_iota_length; reflexivity). reflexivity.
  - rewrite map_map.
    transitivity (map fst (c17_isort (combine k (c17_iota (length k))))).
    + apply map_ext_in. intros p Hp.
      apply (Permutation_in _ (c17_isort_perm _)) in Hp.
      unfold c17_iota in Hp. apply c17_combine_iota_key in Hp. destruct Hp as (i & Hs & Hk).
      rewrite Hs. simpl. rewrite Nat2Z.id. apply nth_error_nth. exact Hk.
    + rewrite c17_isort_fst, c17_combine_fst by (rewrite c17_iota_length; reflexivity). reflexivity.
Qed.

(* sorting a list whose keys are already sorted changes nothing *)
Lemma c17_insertZ_sorted x l : Sorted Z.le l -> Sorted Z.le (c17_insertZ x l).
Proof.
  induction 1 as [|y l Hs IH Hd]; simpl; [repeat constructor|].
  destruct (x <=? y) eqn:E.
  - constructor; [constructor; assumption|constructor; lia].
  - constructor; [exact IH|].
    destruct l as [|z l]; simpl.
    + constructor. lia.
    + destruct (x <=? z); constructor; [lia|]. inversion Hd; assumption.
Qed.

Lemma c17_isortZ_sorted l : Sorted Z.le (c17_isortZ l).
Proof. induction l; simpl; [constructor|]. apply c17_insertZ_sorted. assumption. Qed.

Lemma c17_isort_id l : Sorted Z.le (map fst l) -> c17_isort l = l.
Proof.
  induction l as [|p l IH]; intros H; simpl; [reflexivity|].
  simpl in H. inversion H as [|? ? Hs Hd]; subst.
  rewrite IH by assumption.
  destruct l as [|q l]; simpl; [reflexivity|].
  simpl in Hd. inversion Hd; subst.
  destruct (fst p <=? fst q) eqn:E; [reflexivity|lia].
Qed.

Lemma c17_take_iota {X} (a : list X) d : c17_take (c17_iota (length a)) a d = a.
Proof.
  unfold c17_take, c17_iota. rewrite map_map.
  apply nth_ext with (d := d) (d' := d).
  - rewrite map_length, seq_length. reflexivity.
  - intros n Hn. rewrite map_length, seq_length in Hn.
    rewrite (nth_indep _ d (nth (Z.to_nat (Z.of_nat 0)) a d)) by (rewrite map_length, seq_length; exact Hn).
    rewrite (map_nth (fun x => nth (Z.to_nat (Z.of_nat x)) a d) (seq 0 (length a)) 0%nat n).
    rewrite seq_nth by exact Hn. rewrite Nat2Z.id. reflexivity.
Qed.

(* ------------------------------------------------------------------------- *)
(* run lengths                                                                 *)

Definition c17_expand (rl : list (Z * nat)) : list Z :=
  flat_map (fun ec => repeat (fst ec) (snd ec)) rl.

Lemma c17_rle_expand l : c17_expand (c17_rle l) = l.
Proof.
  induction l as [|x l IH]; simpl; [reflexivity|].
  destruct (c17_rle l) as [|[y c] r] eqn:E.
  - simpl in *. subst l. reflexivity.
  - destruct (x =? y) eqn:Exy.
    + assert (x = y) by lia. subst y. simpl in *. rewrite IH. reflexivity.
    + simpl in *. rewrite IH. reflexivity.
Qed.

Lemma c17_rle_hd l : hd_error (map fst (c17_rle l)) = hd_error l.
Proof.
  destruct l as [|x l]; simpl; [reflexivity|].
  destruct (c17_rle l) as [|[y c] r]; simpl; [reflexivity|].
  destruct (x =? y) eqn:E; simpl; [f_equal; lia|reflexivity].
Qed.

Lemma c17_rle_sorted l : Sorted Z.le l -> Sorted Z.le (map fst (c17_rle l)).
Proof.
  induction 1 as [|x l Hs IH Hd]; simpl; [constructor|].
  pose proof (c17_rle_hd l) as Hh.
  destruct (c17_rle l) as [|[y c] r] eqn:E; simpl; [repeat constructor|].
  destruct (x =? y) eqn:Exy; simpl.
  - exact IH.
  - constructor; [exact IH|]. constructor.
    simpl in Hh. destruct l as [|z l]; [discriminate|]. simpl in Hh. injection Hh as ->.
    inversion Hd; assumption.
Qed.

(* ------------------------------------------------------------------------- *)
(* cumsum / slices = consecutive chunks                                        *)

Fixpoint c17_chunks {X} (counts : list nat) (S : list X) : list (list X) :=
  match counts with
  | [] => []
  | c :: cs => firstn c S :: c17_chunks cs (skipn c S)
  end.

Lemma c17_skipn_skipn {X} (l : list X) : forall a c, skipn c (skipn a l) = skipn (a + c) l.
Proof.
  induction l as [|x l IH]; intros a c.
  - rewrite !skipn_nil. reflexivity.
  - destruct a; simpl; [reflexivity|apply IH].
Qed.

Lemma c17_slices_chunks {X} (S : list X) cs : forall a,
  map (fun x => c17_slice S (fst x) (snd x))
      (combine (removelast (a :: c17_cumsum a cs)) (c17_cumsum a cs))
  = c17_chunks cs (skipn a S).
Proof.
  induction cs as [|c cs IH]; intros a; [reflexivity|].
  cbn [c17_cumsum c17_chunks].
  change (removelast (a :: (a + c)%nat :: c17_cumsum (a + c) cs))
    with (a :: removelast ((a + c)%nat :: c17_cumsum (a + c) cs)).
  cbn [combine map fst snd].
  rewrite IH. unfold c17_slice. f_equal.
  - f_equal. lia.
  - rewrite c17_skipn_skipn. reflexivity.
Qed.

Lemma c17_map_combine {X Y W} (g : Y -> W) (a : list X) (b : list Y) :
  map (fun x => (fst x, g (snd x))) (combine a b) = combine a (map g b).
Proof.
  revert b; induction a as [|x a IH]; intros [|y b]; simpl; auto. f_equal. apply IH.
Qed.

Lemma c17_firstn_repeat_app {X} (e : X) c l : firstn c (repeat e c ++ l) = repeat e c.
Proof.
  rewrite firstn_app, repeat_length, Nat.sub_diag. simpl. rewrite app_nil_r.
  rewrite firstn_all2; [reflexivity|rewrite repeat_length; lia].
Qed.

Lemma c17_skipn_repeat_app {X} (e : X) c l : skipn c (repeat e c ++ l) = l.
Proof.
  rewrite skipn_app, repeat_length, Nat.sub_diag. simpl.
  rewrite skipn_all2; [reflexivity|rewrite repeat_length; lia].
Qed.

Lemma c17_chunks_spec (key : Z -> Z) rl : forall S,
  map key S = c17_expand rl ->
  concat (c17_chunks (map snd rl) S) = S /\
  Forall2 (fun ec ch => Forall (fun f => key f = fst ec) ch) rl (c17_chunks (map snd rl) S).
Proof.
  induction rl as [|[e c] rl IH]; intros S H; simpl in *.
  - destruct S; [split; [reflexivity|constructor]|discriminate].
  - assert (H1 : map key (firstn c S) = repeat e c).
    { rewrite <- firstn_map, H. apply c17_firstn_repeat_app. }
    assert (H2 : map key (skipn c S) = c17_expand rl).
    { rewrite <- skipn_map, H. apply c17_skipn_repeat_app. }
    destruct (IH _ H2) as [Hc Hf]. split.
    + rewrite Hc. apply firstn_skipn.
    + constructor; [|exact Hf]. simpl.
      apply Forall_forall. intros f Hf'.
      apply (in_map key) in Hf'. rewrite H1 in Hf'. apply repeat_spec in Hf'. exact Hf'.
Qed.

(* ------------------------------------------------------------------------- *)
(* the loop of get_face_node_partitions + gather rows                          *)

Lemma c17_loop_eq S npf :
  c17_loop (c17_partitions_with S npf)
  = combine (map fst (c17_unique_counts npf)) (c17_chunks (map snd (c17_unique_counts npf)) S).
Proof.
  unfold c17_loop, c17_partitions_with. cbn [c17_change_ind c17_sorted_ind c17_element_sizes c17_size_counts].
  set (uc := c17_unique_counts npf).
  assert (Hid : c17_argsort (map fst uc) = c17_iota (length (map fst uc))).
  { unfold c17_argsort. rewrite c17_isort_id.
    - apply c17_combine_snd. rewrite c17_iota_length. reflexivity.
    - rewrite c17_combine_fst by (rewrite c17_iota_length; reflexivity).
      apply c17_rle_sorted, c17_isortZ_sorted. }
  rewrite Hid. rewrite c17_take_iota.
  replace (length (map fst uc)) with (length (map snd uc)) by (rewrite !map_length; reflexivity).
  rewrite c17_take_iota.
  rewrite (c17_map_combine (fun x => c17_slice S (fst x) (snd x))).
  cbn [tl]. rewrite c17_slices_chunks. reflexivity.
Qed.

Lemma c17_gathers_general (t : table) (key : Z -> Z) (rl : list (Z * nat)) chs :
  Forall2 (fun ec ch => Forall (fun f => key f = fst ec) ch) rl chs ->
  let gs := flat_map (fun it => map (fun f => (f, firstn (Z.to_nat (fst it)) (nth (Z.to_nat f) t [])))
                                   (snd it)) (combine (map fst rl) chs) in
  map fst gs = concat chs /\
  Forall (fun g => snd g = firstn (Z.to_nat (key (fst g))) (nth (Z.to_nat (fst g)) t [])) gs.
Proof.
  induction 1 as [|[e c] ch rl chs Hh Hf IH]; simpl; [split; [reflexivity|constructor]|].
  destruct IH as [IH1 IH2]. split.
  - rewrite map_app, IH1. f_equal. rewrite map_map. simpl. apply map_id.
  - apply Forall_app. split; [|exact IH2].
    apply Forall_forall. intros g Hg. apply in_map_iff in Hg. destruct Hg as (f & <- & Hfin).
    simpl. rewrite Forall_forall in Hh. rewrite (Hh f Hfin). reflexivity.
Qed.

Lemma c17_npf_nth (t : table) i :
  nth i (n_nodes_per_face t) 0 = Z.of_nat (first_fill (nth i t [])).
Proof.
  unfold n_nodes_per_face.
  change 0 with ((fun r => Z.of_nat (first_fill r)) []). apply map_nth.
Qed.

(* what the aggregation gathers: every face exactly once, with exactly its corners *)
Lemma c17_gathers_spec (t : table) S :
  c17_is_argsort (n_nodes_per_face t) S ->
  map fst (c17_gathers_with S t) = S /\
  Forall (fun g => snd g = corners (nth (Z.to_nat (fst g)) t [])) (c17_gathers_with S t).
Proof.
  intros [Hp Hk]. unfold c17_gathers_with. rewrite c17_loop_eq.
  set (npf := n_nodes_per_face t) in *.
  set (key := fun f => nth (Z.to_nat f) npf 0) in *.
  assert (Hm : map key S = c17_expand (c17_unique_counts npf)).
  { unfold c17_unique_counts. rewrite c17_rle_expand. exact Hk. }
  destruct (c17_chunks_spec key _ _ Hm) as [Hc Hf].
  destruct (c17_gathers_general t key _ _ Hf) as [G1 G2]. split.
  - rewrite G1. exact Hc.
  - eapply Forall_impl; [|exact G2]. intros g Hg. cbv beta in Hg. rewrite Hg.
    unfold key, npf. rewrite c17_npf_nth, Nat2Z.id. reflexivity.
Qed.

(* ------------------------------------------------------------------------- *)
(* scatter                                                                     *)

Lemma c17_upd_length {X} (l : list X) i v : length (c17_upd l i v) = length l.
Proof. revert i; induction l as [|x l IH]; intros [|i]; simpl; auto. Qed.

Lemma c17_upd_same {X} (l : list X) i v : (i < length l)%nat -> nth_error (c17_upd l i v) i = Some v.
Proof.
  revert i; induction l as [|x l IH]; intros [|i] H; simpl in *; try lia; auto. apply IH. lia.
Qed.

Lemma c17_upd_other {X} (l : list X) i j v : i <> j -> nth_error (c17_upd l i v) j = nth_error l j.
Proof.
  revert i j; induction l as [|x l IH]; intros [|i] [|j] H; simpl; auto; try lia.
Qed.

Lemma c17_scatter_length {B} ws : forall (res : list (option B)),
  length (c17_scatter res ws) = length res.
Proof.
  unfold c17_scatter. induction ws as [|w ws IH]; intros res; simpl; [reflexivity|].
  rewrite IH. apply c17_upd_length.
Qed.

Lemma c17_scatter_spec {B} (G : Z -> B) ws : forall (res : list (option B)) i,
  (forall w, In w ws -> 0 <= fst w /\ snd w = G (fst w)) ->
  (i < length res)%nat ->
  (In (Z.of_nat i) (map fst ws) -> nth_error (c17_scatter res ws) i = Some (Some (G (Z.of_nat i)))) /\
  (~ In (Z.of_nat i) (map fst ws) -> nth_error (c17_scatter res ws) i = nth_error res i).
Proof.
  induction ws as [|w ws IH]; intros res i Hw Hi.
  - split; [intros []|reflexivity].
  - change (c17_scatter res (w :: ws)) with (c17_scatter (c17_upd res (Z.to_nat (fst w)) (Some (snd w))) ws).
    assert (Hw' : forall w0, In w0 ws -> 0 <= fst w0 /\ snd w0 = G (fst w0)) by (intros; apply Hw; right; assumption).
    destruct (Hw w (or_introl eq_refl)) as [Hw0 Hw1].
    destruct (IH (c17_upd res (Z.to_nat (fst w)) (Some (snd w))) i Hw') as [IH1 IH2];
      [rewrite c17_upd_length; exact Hi|].
    destruct (in_dec Z.eq_dec (Z.of_nat i) (map fst ws)) as [Hin|Hnin].
    + split; [intros _; apply IH1; exact Hin|]. intros Hn. exfalso. apply Hn. right. exact Hin.
    + split.
      * intros [Heq|Hin]; [|contradiction]. rewrite IH2 by exact Hnin.
        rewrite Hw1, Heq, Nat2Z.id.
        apply c17_upd_same. exact Hi.
      * intros Hn. rewrite IH2 by exact Hnin. apply c17_upd_other.
        intros Heq. apply Hn. left. lia.
Qed.

(* ------------------------------------------------------------------------- *)
(* node -> face                                                                *)

Definition c17_nodes_ok (t : table) (n_node : nat) : Prop :=
  Forall (fun r => Forall (fun x => x < Z.of_nat n_node) (corners r)) t.

Lemma c17_corners_nonneg m t r : std_table m t -> In r t -> Forall (fun x => 0 <= x) (corners r).
Proof.
  intros Ht Hr. unfold std_table in Ht. rewrite Forall_forall in Ht.
  destruct (Ht r Hr) as [_ (c & n & -> & Hc)]. rewrite corners_std by assumption. exact Hc.
Qed.

Lemma nth_error_ext_local {X} (l1 l2 : list X) :
  (forall n, nth_error l1 n = nth_error l2 n) -> l1 = l2.
Proof.
  revert l2; induction l1 as [|x l1 IH]; intros [|y l2] H.
  - reflexivity.
  - specialize (H 0%nat). discriminate.
  - specialize (H 0%nat). discriminate.
  - pose proof (H 0%nat) as H0. injection H0 as ->. f_equal. apply IH. intros n. apply (H (S n)).
Qed.

Section Face.
  Context {A B : Type}.
  Variable agg : list A -> B.
  Variable d : A.

  (* the reference: the reduction over the data on exactly the corners of the row *)
  Definition c17_ref (data : list A) (r : row) : B :=
    agg (map (fun x => nth (Z.to_nat x) data d) (corners r)).

  Lemma c17_face_row_with_body S t data :
    t <> [] -> c17_face_row_with agg S t data = c17_face_row_body agg S t data.
  Proof. destruct t; [intros H; contradiction|reflexivity]. Qed.

  (* the loop body on ANY list of gathers that (a) consists of (face, corners of that face) pairs and
     (b) covers every face *)
  Lemma c17_row_of_gathers_spec m t gs data :
    std_table m t -> c17_nodes_ok t (length data) ->
    (forall g, In g gs -> exists i, fst g = Z.of_nat i /\ (i < length t)%nat /\ snd g = corners (nth i t [])) ->
    (forall i, (i < length t)%nat -> In (Z.of_nat i) (map fst gs)) ->
    exists res, c17_face_row_of_gathers agg gs t data = Some res /\ length res = length t /\
      forall f r, nth_error t f = Some r -> nth_error res f = Some (Some (c17_ref data r)).
  Proof.
    intros Ht Hn Hrow Hcover.
    set (G := fun f : Z => c17_ref data (nth (Z.to_nat f) t [])).
    set (ws := map (fun g => (fst g, G (fst g))) gs).
    assert (Hws : c17_all_some (map (fun g => match c17_gather data (snd g) with
                                      | Some vals => Some (fst g, agg vals)
                                      | None => None end) gs) = Some ws).
    { unfold ws. rewrite <- c17_all_some_map. f_equal. rewrite map_map.
      apply map_ext_in. intros g Hg. destruct (Hrow g Hg) as (i & Hi & Hlt & Hc).
      rewrite (c17_gather_in data (snd g) d).
      - unfold G, c17_ref. rewrite Hi, Nat2Z.id, Hc. reflexivity.
      - rewrite Hc. assert (Hr : In (nth i t []) t) by (apply nth_In; exact Hlt).
        pose proof (c17_corners_nonneg m t _ Ht Hr) as H0.
        unfold c17_nodes_ok in Hn. rewrite Forall_forall in Hn. pose proof (Hn _ Hr) as H1.
        rewrite Forall_forall in *. intros x Hx. split; auto. }
    unfold c17_face_row_of_gathers. rewrite Hws.
    eexists. split; [reflexivity|]. split.
    - rewrite c17_scatter_length, repeat_length. reflexivity.
    - intros f r Hf.
      assert (Hlt : (f < length t)%nat) by (apply nth_error_Some; rewrite Hf; discriminate).
      destruct (c17_scatter_spec G ws (repeat None (length t)) f) as [H1 _].
      + intros w Hw. unfold ws in Hw. apply in_map_iff in Hw. destruct Hw as (g & <- & Hg).
        destruct (Hrow g Hg) as (i & Hi & _). simpl. split; [lia|reflexivity].
      + rewrite repeat_length. exact Hlt.
      + rewrite H1.
        * unfold G. rewrite Nat2Z.id. rewrite (nth_error_nth _ _ _ Hf). reflexivity.
        * assert (Hm : map fst ws = map fst gs).
          { unfold ws. rewrite map_map. apply map_ext. reflexivity. }
          rewrite Hm. apply Hcover. exact Hlt.
  Qed.

  Lemma c17_gathers_with_rows t S :
    c17_is_argsort (n_nodes_per_face t) S ->
    (forall g, In g (c17_gathers_with S t) ->
       exists i, fst g = Z.of_nat i /\ (i < length t)%nat /\ snd g = corners (nth i t [])) /\
    (forall i, (i < length t)%nat -> In (Z.of_nat i) (map fst (c17_gathers_with S t))).
  Proof.
    intros Hs. destruct (c17_gathers_spec t S Hs) as [G1 G2]. pose proof Hs as [Hperm _].
    assert (Hlen : length (n_nodes_per_face t) = length t) by (unfold n_nodes_per_face; apply map_length).
    rewrite Hlen in Hperm. split.
    - intros g Hg. rewrite Forall_forall in G2. pose proof (G2 g Hg) as Hc.
      assert (Hin : In (fst g) S) by (rewrite <- G1; apply in_map; exact Hg).
      apply (Permutation_in _ Hperm) in Hin. apply c17_in_iota in Hin. destruct Hin as (i & Hi & Hlt).
      exists i. rewrite Hi, Nat2Z.id in Hc. auto.
    - intros i Hi. rewrite G1. apply (Permutation_in _ (Permutation_sym Hperm)). apply c17_in_iota. exists i. auto.
  Qed.

  Theorem c17_face_row_with_spec m t S data :
    t <> [] ->
    std_table m t -> c17_nodes_ok t (length data) ->
    c17_is_argsort (n_nodes_per_face t) S ->
    exists res, c17_face_row_with agg S t data = Some res /\ length res = length t /\
      forall f r, nth_error t f = Some r -> nth_error res f = Some (Some (c17_ref data r)).
  Proof.
    intros Hne Ht Hn Hs. destruct (c17_gathers_with_rows t S Hs) as [Hrow Hcover].
    rewrite (c17_face_row_with_body S t data Hne). unfold c17_face_row_body.
    apply (c17_row_of_gathers_spec m t _ data Ht Hn Hrow Hcover).
  Qed.

  (* the partitions (and the faces inside a partition) may be processed in ANY order *)
  Theorem c17_order_free m t S gs data :
    std_table m t -> c17_nodes_ok t (length data) ->
    c17_is_argsort (n_nodes_per_face t) S ->
    Permutation gs (c17_gathers_with S t) ->
    c17_face_row_of_gathers agg gs t data = c17_face_row_of_gathers agg (c17_gathers_with S t) t data.
  Proof.
    intros Ht Hn Hs Hp. destruct (c17_gathers_with_rows t S Hs) as [Hrow Hcover].
    destruct (c17_row_of_gathers_spec m t _ data Ht Hn Hrow Hcover) as (r2 & E2 & L2 & P2).
    destruct (c17_row_of_gathers_spec m t gs data Ht Hn) as (r1 & E1 & L1 & P1).
    - intros g Hg. apply Hrow. apply (Permutation_in _ Hp). exact Hg.
    - intros i Hi. apply (Permutation_in _ (Permutation_sym (Permutation_map fst Hp))). apply Hcover. exact Hi.
    - rewrite E1, E2. f_equal. apply nth_error_ext_local. intros f.
      destruct (nth_error t f) as [r|] eqn:E.
      + rewrite (P1 f r E), (P2 f r E). reflexivity.
      + apply nth_error_None in E.
        assert (H1 : nth_error r1 f = None) by (apply nth_error_None; lia).
        assert (H2 : nth_error r2 f = None) by (apply nth_error_None; lia).
        congruence.
  Qed.

  Corollary c17_face_row_spec m t data :
    t <> [] ->
    std_table m t -> c17_nodes_ok t (length data) ->
    exists res, c17_face_row agg t data = Some res /\ length res = length t /\
      forall f r, nth_error t f = Some r -> nth_error res f = Some (Some (c17_ref data r)).
  Proof.
    intros Hne Ht Hn. apply (c17_face_row_with_spec m t _ data Hne Ht Hn). apply c17_argsort_is_argsort.
  Qed.

  (* the result does not depend on which argsort NumPy returns (its default sort is unstable) *)
  Theorem c17_argsort_free m t S data :
    t <> [] ->
    std_table m t -> c17_nodes_ok t (length data) ->
    c17_is_argsort (n_nodes_per_face t) S ->
    c17_face_row_with agg S t data = c17_face_row agg t data.
  Proof.
    intros Hne Ht Hn Hs.
    destruct (c17_face_row_with_spec m t S data Hne Ht Hn Hs) as (r1 & -> & L1 & P1).
    destruct (c17_face_row_spec m t data Hne Ht Hn) as (r2 & -> & L2 & P2).
    f_equal. apply nth_error_ext_local. intros f.
    destruct (nth_error t f) as [r|] eqn:E.
    - rewrite (P1 f r E), (P2 f r E). reflexivity.
    - apply nth_error_None in E.
      assert (H1 : nth_error r1 f = None) by (apply nth_error_None; lia).
      assert (H2 : nth_error r2 f = None) by (apply nth_error_None; lia).
      congruence.
  Qed.
End Face.

(* ------------------------------------------------------------------------- *)
(* every leading index                                                         *)

Lemma c17_all_some_Forall2 {X Y} (f : X -> option Y) (P : X -> Y -> Prop) l :
  (forall x, In x l -> exists y, f x = Some y /\ P x y) ->
  exists r, c17_all_some (map f l) = Some r /\ Forall2 P l r.
Proof.
  induction l as [|x l IH]; intros H; simpl.
  - exists []. split; [reflexivity|constructor].
  - destruct (H x (or_introl eq_refl)) as (y & -> & Hy).
    destruct IH as (r & -> & Hr); [intros; apply H; right; assumption|].
    exists (y :: r). split; [reflexivity|constructor; assumption].
Qed.

Theorem c17_node_to_face_spec {A B} (agg : list A -> B) (d : A) m t n_node (data : list (list A)) :
  t <> [] ->
  std_table m t -> c17_nodes_ok t n_node -> Forall (fun v => length v = n_node) data ->
  exists res, c17_node_to_face agg t data = Some res /\
    Forall2 (fun v row => length row = length t /\
               forall f r, nth_error t f = Some r ->
                           nth_error row f = Some (Some (c17_ref agg d v r))) data res.
Proof.
  intros Hne Ht Hn Hd. unfold c17_node_to_face.
  apply c17_all_some_Forall2. intros v Hv.
  rewrite Forall_forall in Hd. pose proof (Hd v Hv) as Hl. rewrite <- Hl in Hn.
  destruct (c17_face_row_spec agg d m t v Hne Ht Hn) as (res & H1 & H2 & H3).
  exists res. auto.
Qed.

(* ------------------------------------------------------------------------- *)
(* padding is never read; every face is gathered exactly once                  *)

Theorem c17_gathers_exact m t :
  std_table m t ->
  Permutation (map fst (c17_gathers t)) (c17_iota (length t)) /\
  forall g, In g (c17_gathers t) ->
    exists f r, fst g = Z.of_nat f /\ nth_error t f = Some r /\ snd g = corners r /\
                Forall (fun x => 0 <= x /\ x <> FILL) (snd g).
Proof.
  intros Ht. unfold c17_gathers.
  pose proof (c17_argsort_is_argsort (n_nodes_per_face t)) as Hs.
  destruct (c17_gathers_spec t _ Hs) as [G1 G2].
  destruct Hs as [Hperm _].
  assert (Hlen : length (n_nodes_per_face t) = length t) by (unfold n_nodes_per_face; apply map_length).
  rewrite Hlen in Hperm. split; [rewrite G1; exact Hperm|].
  intros g Hg. rewrite Forall_forall in G2. pose proof (G2 g Hg) as Hc.
  assert (Hin : In (fst g) (c17_argsort (n_nodes_per_face t))) by (rewrite <- G1; apply in_map; exact Hg).
  apply (Permutation_in _ Hperm) in Hin. apply c17_in_iota in Hin. destruct Hin as (i & Hi & Hlt).
  rewrite Hi, Nat2Z.id in Hc.
  exists i, (nth i t []). split; [exact Hi|]. split; [apply nth_error_nth'; exact Hlt|]. split; [exact Hc|].
  rewrite Hc. assert (Hr : In (nth i t []) t) by (apply nth_In; exact Hlt).
  pose proof (c17_corners_nonneg m t _ Ht Hr) as H0.
  eapply Forall_impl; [|exact H0]. intros x Hx. cbv beta in *. unfold FILL. lia.
Qed.

Theorem c17_reads_no_fill m t :
  std_table m t -> Forall (fun x => 0 <= x /\ x <> FILL) (c17_reads t).
Proof.
  intros Ht. destruct (c17_gathers_exact m t Ht) as [_ H].
  unfold c17_reads. apply Forall_forall. intros x Hx. apply in_flat_map in Hx.
  destruct Hx as (g & Hg & Hx). destruct (H g Hg) as (_ & _ & _ & _ & _ & Hf).
  rewrite Forall_forall in Hf. auto.
Qed.

(* had a fill index been gathered, NumPy would have raised (so "padding contributes" is
   impossible for any realistic array length) *)
Theorem c17_fill_would_raise {A} (data : list A) idx :
  Z.of_nat (length data) < 2 ^ 63 -> In FILL idx -> c17_gather data idx = None.
Proof.
  intros Hl Hin. unfold c17_gather.
  destruct (c17_all_some (map (c17_np_index data) idx)) as [r|] eqn:E; [|reflexivity].
  apply c17_all_some_inv in E. apply (in_map (c17_np_index data)) in Hin.
  rewrite E, (c17_np_index_fill data Hl) in Hin. apply in_map_iff in Hin.
  destruct Hin as (? & ? & _). discriminate.
Qed.

(* ------------------------------------------------------------------------- *)
(* node -> edge                                                                *)

Lemma c17_in_cyc_pairs c q : In q (cyc_pairs c) -> In (fst q) c /\ In (snd q) c.
Proof.
  destruct c as [|x c]; [intros []|]. unfold cyc_pairs. intros H. destruct q as [a b].
  pose proof (in_combine_l _ _ _ _ H) as Ha. pose proof (in_combine_r _ _ _ _ H) as Hb.
  simpl. split; [exact Ha|]. apply in_app_or in Hb. destruct Hb as [Hb|[<-|[]]]; [right; exact Hb|left; reflexivity].
Qed.

Lemma c17_spec_pairs_in t q : In q (spec_pairs t) ->
  exists r, In r t /\ In (fst q) (corners r) /\ In (snd q) (corners r).
Proof.
  unfold spec_pairs. intros H. apply in_map_iff in H. destruct H as (p & <- & Hp).
  apply in_flat_map in Hp. destruct Hp as (r & Hr & Hp). exists r. split; [exact Hr|].
  apply c17_in_cyc_pairs in Hp. destruct Hp as [Ha Hb].
  unfold norm_pair. destruct (fst p <=? snd p); simpl; auto.
Qed.

Section Edge.
  Context {A B : Type}.
  Variable agg : list A -> B.
  Variable d : A.

  Definition c17_ref_edge (data : list A) (e : Z * Z) : B :=
    agg [nth (Z.to_nat (fst e)) data d; nth (Z.to_nat (snd e)) data d].

  Lemma c17_edge_row_spec (en : list (Z * Z)) data :
    Forall (fun e => 0 <= fst e < Z.of_nat (length data) /\ 0 <= snd e < Z.of_nat (length data)) en ->
    c17_edge_row agg en data = Some (map (c17_ref_edge data) en).
  Proof.
    intros H. unfold c17_edge_row. rewrite <- c17_all_some_map. f_equal. rewrite map_map.
    apply map_ext_in. intros e He. rewrite Forall_forall in H. destruct (H e He) as [H1 H2].
    rewrite (c17_gather_in data [fst e; snd e] d) by (constructor; [exact H1|constructor; [exact H2|constructor]]).
    reflexivity.
  Qed.

  (* composed with C02: for every unordered pair q of consecutive corners of a face there is
     exactly one edge index e, and the result at e is the reduction over the two end nodes *)
  Theorem c17_node_to_edge_spec m t n_node (data : list (list A)) :
    std_table m t -> c17_nodes_ok t n_node -> Forall (fun v => length v = n_node) data ->
    exists res, c17_node_to_edge agg t data = Some res /\
      Forall2 (fun v row => length row = length (edges t) /\
                 (forall e q, nth_error (edges t) e = Some q ->
                              nth_error row e = Some (c17_ref_edge v q)) /\
                 (forall q, In q (spec_pairs t) ->
                            exists e, nth_error (edges t) e = Some q /\
                                      nth_error row e = Some (c17_ref_edge v q))) data res.
  Proof.
    intros Ht Hn Hd. unfold c17_node_to_edge.
    apply c17_all_some_Forall2. intros v Hv.
    rewrite Forall_forall in Hd. pose proof (Hd v Hv) as Hl.
    exists (map (c17_ref_edge v) (edges t)). split.
    - apply c17_edge_row_spec. apply Forall_forall. intros e He.
      pose proof (edges_real m t e Ht He) as Hre.
      apply (edges_iff m t e Ht) in He. apply c17_spec_pairs_in in He.
      destruct He as (r & Hr & Ha & Hb).
      unfold c17_nodes_ok in Hn. rewrite Forall_forall in Hn. pose proof (Hn r Hr) as Hlt.
      rewrite Forall_forall in Hlt. pose proof (Hlt _ Ha). pose proof (Hlt _ Hb). lia.
    - split; [apply map_length|]. split.
      + intros e q He. rewrite nth_error_map, He. reflexivity.
      + intros q Hq. apply (edges_iff m t q Ht) in Hq. apply In_nth_error in Hq.
        destruct Hq as (e & He). exists e. split; [exact He|]. rewrite nth_error_map, He. reflexivity.
  Qed.
End Edge.

(* ------------------------------------------------------------------------- *)
(* dims and errors                                                             *)

Lemma c17_dim_eqb_eq a b : c17_dim_eqb a b = true <-> a = b.
Proof.
  destruct a, b; simpl; split; intros H; try reflexivity; try discriminate.
  - f_equal. lia.
  - injection H as ->. lia.
Qed.

Lemma c17_has_In x dims : c17_has x dims = true <-> In x dims.
Proof.
  unfold c17_has. rewrite existsb_exists. split.
  - intros (y & Hy & He). apply c17_dim_eqb_eq in He. subst. exact Hy.
  - intros H. exists x. split; [exact H|]. apply c17_dim_eqb_eq. reflexivity.
Qed.

(* node dimension last: the destination dimension takes its place, with the element count *)
Theorem c17_dims_last lead shape_lead s dst n :
  ~ In C17_n_node lead -> length lead = length shape_lead ->
  c17_result_dims (lead ++ [C17_n_node]) dst = lead ++ [c17_dest_dim dst] /\
  c17_result_shape (shape_lead ++ [s]) n = shape_lead ++ [n] /\
  (~ In (c17_dest_dim dst) lead ->
   c17_dim_size (c17_result_dims (lead ++ [C17_n_node]) dst) (c17_result_shape (shape_lead ++ [s]) n)
                (c17_dest_dim dst) = Some n).
Proof.
  intros Hnin Hlen.
  assert (E1 : c17_result_dims (lead ++ [C17_n_node]) dst = lead ++ [c17_dest_dim dst]).
  { unfold c17_result_dims. rewrite map_app. simpl. f_equal.
    rewrite <- (map_id lead) at 2. apply map_ext_in. intros x Hx.
    destruct (c17_dim_eqb x C17_n_node) eqn:E; [|reflexivity].
    apply c17_dim_eqb_eq in E. subst. contradiction. }
  assert (E2 : c17_result_shape (shape_lead ++ [s]) n = shape_lead ++ [n]).
  { unfold c17_result_shape. rewrite removelast_last. reflexivity. }
  split; [exact E1|]. split; [exact E2|].
  intros Hd. rewrite E1, E2. clear E1 E2 Hnin.
  revert shape_lead Hlen. induction lead as [|x lead IH]; intros [|y sl] Hlen; simpl in *; try discriminate.
  - assert (E : c17_dim_eqb (c17_dest_dim dst) (c17_dest_dim dst) = true) by (apply c17_dim_eqb_eq; reflexivity).
    rewrite E. reflexivity.
  - destruct (c17_dim_eqb x (c17_dest_dim dst)) eqn:E.
    + apply c17_dim_eqb_eq in E. exfalso. apply Hd. left. exact E.
    + apply IH; [intros H; apply Hd; right; exact H|lia].
Qed.

(* dispatch: numbers are produced only for node-centred data whose LAST dimension is n_node, with
   destination face or edge *)
Lemma c17_last_app (lead : list c17_dim) x d : last (lead ++ [x]) d = x.
Proof. induction lead as [|y l IH]; [reflexivity|]. simpl. destruct (l ++ [x]) eqn:E; [destruct l; discriminate|exact IH]. Qed.

Lemma c17_last_eq_app (dims : list c17_dim) x : dims <> [] -> last dims x = x -> exists lead, dims = lead ++ [x].
Proof.
  intros Hne Hl. destruct (exists_last Hne) as (lead & y & ->). exists lead.
  rewrite c17_last_app in Hl. subst. reflexivity.
Qed.

Theorem c17_dispatch_run dims dest k :
  c17_dispatch dims dest = C17_run k <->
  (exists lead, dims = lead ++ [C17_n_node]) /\ dest = Some k /\ (k = C17_to_face \/ k = C17_to_edge).
Proof.
  unfold c17_dispatch. split.
  - destruct dest as [dd|]; [|discriminate].
    destruct (c17_has C17_n_node dims) eqn:Eh.
    + destruct (c17_dim_eqb (last dims C17_n_node) C17_n_node) eqn:El; simpl; [|discriminate].
      apply c17_dim_eqb_eq in El. apply c17_has_In in Eh.
      assert (Hne : dims <> []) by (intros ->; destruct Eh).
      destruct dd; intros H; try discriminate; injection H as <-;
        (split; [apply c17_last_eq_app; assumption|split; [reflexivity|auto]]).
    + destruct (c17_has C17_n_edge dims); [discriminate|].
      destruct (c17_has C17_n_face dims); discriminate.
  - intros ((lead & ->) & -> & Hk).
    assert (Eh : c17_has C17_n_node (lead ++ [C17_n_node]) = true)
      by (apply c17_has_In; apply in_or_app; right; left; reflexivity).
    rewrite Eh, c17_last_app.
    assert (El : c17_dim_eqb C17_n_node C17_n_node = true) by reflexivity.
    rewrite El. simpl. destruct Hk as [-> | ->]; reflexivity.
Qed.

Theorem c17_dispatch_raises dims dest :
  (~ In C17_n_node dims \/ last dims C17_n_node <> C17_n_node \/
   dest = None \/ dest = Some C17_to_node \/ dest = Some C17_to_bad) ->
  c17_dispatch dims dest = C17_ValueError \/ c17_dispatch dims dest = C17_NotImplemented.
Proof.
  intros H. destruct (c17_dispatch dims dest) as [k| |] eqn:E; auto.
  apply c17_dispatch_run in E. destruct E as ((lead & ->) & -> & Hk).
  destruct H as [H|[H|[H|[H|H]]]].
  - exfalso. apply H. apply in_or_app. right. left. reflexivity.
  - exfalso. apply H. apply c17_last_app.
  - discriminate.
  - injection H as ->. destruct Hk; discriminate.
  - injection H as ->. destruct Hk; discriminate.
Qed.

(* node-centred data whose node dimension is not the last one: ValueError for every destination
   (before the fix the kernel indexed the last axis with node indices and returned numbers under a
   mislabelled dimension) *)
Theorem c17_notlast_raises dims dest :
  In C17_n_node dims -> last dims C17_n_node <> C17_n_node ->
  c17_dispatch dims dest = C17_ValueError.
Proof.
  intros Hin Hl. unfold c17_dispatch. destruct dest as [dd|]; [|reflexivity].
  apply c17_has_In in Hin. rewrite Hin.
  destruct (c17_dim_eqb (last dims C17_n_node) C17_n_node) eqn:E; [|reflexivity].
  apply c17_dim_eqb_eq in E. contradiction.
Qed.

Definition c17_wit_table : table :=
  [[0;1;2;FILL;FILL];[0;2;3;4;FILL];[0;4;5;6;7];[1;0;7;FILL;FILL]].

(* ------------------------------------------------------------------------- *)
(* non-vacuity                                                                 *)

Lemma c17_wit_std : std_table 5 c17_wit_table.
Proof.
  unfold std_table, c17_wit_table. repeat constructor; try reflexivity.
  - exists [0;1;2], 2%nat. split; [reflexivity|]. repeat constructor; lia.
  - exists [0;2;3;4], 1%nat. split; [reflexivity|]. repeat constructor; lia.
  - exists [0;4;5;6;7], 0%nat. split; [reflexivity|]. repeat constructor; lia.
  - exists [1;0;7], 2%nat. split; [reflexivity|]. repeat constructor; lia.
Qed.

Lemma c17_wit_nodes_ok : c17_nodes_ok c17_wit_table 8.
Proof. unfold c17_nodes_ok, c17_wit_table. repeat constructor; vm_compute; reflexivity. Qed.

(* mixed sizes 3,4,5,3 in non-sorted order with padding: hypotheses hold and the result is the
   per-face sum over the corners *)
Example c17_face_nonvacuous :
  std_table 5 c17_wit_table /\ c17_nodes_ok c17_wit_table 8 /\
  c17_node_to_face (fun l => fold_left Z.add l 0) c17_wit_table [[0;10;20;30;40;50;60;70]]
  = Some [[Some 30; Some 90; Some 220; Some 80]].
Proof. split; [exact c17_wit_std|]. split; [exact c17_wit_nodes_ok|]. vm_compute. reflexivity. Qed.

Example c17_edge_nonvacuous :
  c17_node_to_edge (fun l => fold_left Z.add l 0) c17_wit_table [[0;10;20;30;40;50;60;70]]
  = Some [[10; 20; 40; 70; 30; 80; 50; 70; 90; 110; 130]].
Proof. vm_compute. reflexivity. Qed.

(* an argsort different from the stable one (faces of size 3 swapped) satisfies the hypothesis of
   c17_argsort_free *)
Example c17_argsort_free_nonvacuous :
  c17_is_argsort (n_nodes_per_face c17_wit_table) [3; 0; 1; 2] /\
  c17_argsort (n_nodes_per_face c17_wit_table) = [0; 3; 1; 2].
Proof.
  split; [|vm_compute; reflexivity]. split.
  - vm_compute. apply perm_trans with [0;3;1;2].
    + apply perm_swap.
    + constructor. apply perm_trans with [1;3;2]; [apply perm_swap|]. constructor. apply perm_swap.
  - vm_compute. reflexivity.
Qed.

(* a data vector shorter than the node count: IndexError (no numbers) *)
Example c17_index_error :
  c17_node_to_face (fun l => fold_left Z.add l 0) c17_wit_table [[0;10;20;30;40;50;60]] = None.
Proof. vm_compute. reflexivity. Qed.

Example c17_dims_last_nonvacuous :
  c17_result_dims [C17_other 0; C17_other 1; C17_n_node] C17_to_edge = [C17_other 0; C17_other 1; C17_n_edge] /\
  c17_dim_size [C17_other 0; C17_other 1; C17_n_edge] (c17_result_shape [2; 3; 8] 11) C17_n_edge = Some 11.
Proof. split; reflexivity. Qed.

Example c17_dispatch_examples :
  c17_dispatch [C17_other 0; C17_n_node] (Some C17_to_edge) = C17_run C17_to_edge /\
  c17_dispatch [C17_n_face] (Some C17_to_edge) = C17_NotImplemented /\
  c17_dispatch [C17_n_edge] (Some C17_to_face) = C17_NotImplemented /\
  c17_dispatch [C17_other 3] (Some C17_to_face) = C17_ValueError /\
  c17_dispatch [C17_n_node] (Some C17_to_node) = C17_ValueError /\
  c17_dispatch [C17_n_node] None = C17_ValueError /\
  c17_dispatch [C17_n_node; C17_other 0] (Some C17_to_face) = C17_ValueError /\
  c17_dispatch [C17_other 0; C17_n_node; C17_other 1] (Some C17_to_edge) = C17_ValueError.
Proof. repeat split; reflexivity. Qed.

(* hypotheses of c17_notlast_raises are satisfiable *)
Example c17_notlast_nonvacuous :
  In C17_n_node [C17_n_node; C17_other 0] /\ last [C17_n_node; C17_other 0] C17_n_node <> C17_n_node.
Proof. split; [left; reflexivity|simpl; discriminate]. Qed.

(* no faces: no array *)
Example c17_no_faces : c17_face_row (fun l => fold_left Z.add l 0) [] [1; 2; 3] = None.
Proof. reflexivity. Qed.

(* ------------------------------------------------------------------------- *)
(* frame, defective variants, dtype table, edge tables with any orientation    *)

(* the call hands the grid's tables back untouched, and calling again gives the same result *)
Theorem c17_frame {A B} (agg : list A -> B) st (data : list (list A)) :
  snd (c17_face_call agg st data) = st /\
  fst (c17_face_call agg (snd (c17_face_call agg st data)) data) = fst (c17_face_call agg st data).
Proof. split; reflexivity. Qed.

Definition c17_zsum (l : list Z) : Z := fold_left Z.add l 0.
Definition c17_wit_data1 : list Z := [0;10;20;30;40;50;60;70].

(* (a) sorting the shared n_nodes_per_face in place: partition sizes no longer belong to the faces
   they are applied to — face 1 (4 corners) is reduced over 3 of them and face 3 (3 corners) over
   two padding cells, i.e. an IndexError instead of the per-face reduction *)
Theorem c17_inplace_sort_refuted :
  std_table 5 c17_wit_table /\ c17_nodes_ok c17_wit_table (length c17_wit_data1) /\
  In (1, [0;2;3]) (c17_gathers_inplace_sort c17_wit_table) /\
  nth_error c17_wit_table 1 = Some [0;2;3;4;FILL] /\
  In (3, [1;0;7;FILL;FILL]) (c17_gathers_inplace_sort c17_wit_table) /\
  c17_face_row_inplace_sort c17_zsum c17_wit_table c17_wit_data1 = None /\
  c17_face_row c17_zsum c17_wit_table c17_wit_data1 = Some [Some 30; Some 90; Some 220; Some 80].
Proof.
  split; [exact c17_wit_std|]. split; [exact c17_wit_nodes_ok|].
  split; [vm_compute; auto|]. split; [reflexivity|]. split; [vm_compute; auto 6|].
  split; vm_compute; reflexivity.
Qed.

(* (b) applying the sort permutation instead of its inverse when storing: every value is a correct
   per-face reduction, but of ANOTHER face (faces 1, 2, 3 receive the values of faces 3, 1, 2) *)
Theorem c17_positional_refuted :
  c17_face_row_positional c17_zsum c17_wit_table c17_wit_data1 = Some [Some 30; Some 80; Some 90; Some 220] /\
  c17_face_row c17_zsum c17_wit_table c17_wit_data1 = Some [Some 30; Some 90; Some 220; Some 80].
Proof. split; vm_compute; reflexivity. Qed.

(* dtype table *)
Theorem c17_dtype_table a src :
  (a = C17_all \/ a = C17_any -> c17_result_dtype a src = C17_bool) /\
  (a = C17_max \/ a = C17_min -> c17_result_dtype a src = src) /\
  (a = C17_sum \/ a = C17_prod ->
     c17_result_dtype a src = (if c17_is_float src then src else C17_int64)) /\
  (a = C17_mean \/ a = C17_std \/ a = C17_var \/ a = C17_median ->
     c17_is_float (c17_result_dtype a src) = true /\
     (c17_is_float src = true -> c17_result_dtype a src = src)) /\
  (c17_is_float src = true -> a <> C17_all -> a <> C17_any -> c17_result_dtype a src = src).
Proof.
  repeat split; intros; destruct a, src; simpl in *;
    repeat match goal with H : _ \/ _ |- _ => destruct H end; try discriminate; try reflexivity; try contradiction.
Qed.

Example c17_dtype_examples :
  c17_result_dtype C17_sum C17_bool = C17_int64 /\ c17_result_dtype C17_prod C17_int32 = C17_int64 /\
  c17_result_dtype C17_mean C17_int64 = C17_float64 /\ c17_result_dtype C17_mean C17_float32 = C17_float32 /\
  c17_result_dtype C17_all C17_float64 = C17_bool /\ c17_result_dtype C17_max C17_int32 = C17_int32.
Proof. repeat split; reflexivity. Qed.

(* node -> edge over ANY edge_node table (source-supplied tables keep their own orientation and
   order): edge e = (a, b) gets agg [v[a]; v[b]] in exactly that orientation *)
Theorem c17_edge_any_table {A B} (agg : list A -> B) (d : A) (en : list (Z * Z)) (data : list A) :
  Forall (fun e => 0 <= fst e < Z.of_nat (length data) /\ 0 <= snd e < Z.of_nat (length data)) en ->
  exists res, c17_edge_row agg en data = Some res /\ length res = length en /\
    forall e q, nth_error en e = Some q ->
      nth_error res e = Some (agg [nth (Z.to_nat (fst q)) data d; nth (Z.to_nat (snd q)) data d]).
Proof.
  intros H. exists (map (c17_ref_edge agg d data) en). split; [apply c17_edge_row_spec; exact H|].
  split; [apply map_length|]. intros e q He. rewrite nth_error_map, He. reflexivity.
Qed.

(* non-vacuity: a table whose second edge is stored (hi, lo); a non-commutative "reduction" shows
   the orientation is respected *)
Example c17_edge_orientation :
  c17_edge_row (fun l => match l with [a; b] => a - b | _ => 0 end) [(0, 1); (2, 1)] [5; 7; 100]
  = Some [-2; 93].
Proof. vm_compute. reflexivity. Qed.

(* sizes with GAPS (only 3 and 8) in mixed order: partitions and result *)
Definition c17_gap_table : table :=
  [[0;1;2;3;4;5;6;7];[1;2;3;FILL;FILL;FILL;FILL;FILL];[7;6;5;4;3;2;1;0];[4;5;6;FILL;FILL;FILL;FILL;FILL]].
Example c17_gap_nonvacuous :
  c17_loop (c17_partitions (n_nodes_per_face c17_gap_table)) = [(3, [1; 3]); (8, [0; 2])] /\
  c17_face_row c17_zsum c17_gap_table c17_wit_data1 = Some [Some 280; Some 60; Some 280; Some 150].
Proof. split; vm_compute; reflexivity. Qed.

(* non-vacuity of c17_order_free: the gathers in reverse processing order *)
Example c17_order_free_nonvacuous :
  Permutation (rev (c17_gathers c17_wit_table)) (c17_gathers c17_wit_table) /\
  rev (c17_gathers c17_wit_table) <> c17_gathers c17_wit_table /\
  c17_face_row_of_gathers c17_zsum (rev (c17_gathers c17_wit_table)) c17_wit_table c17_wit_data1
  = Some [Some 30; Some 90; Some 220; Some 80].
Proof.
  split; [apply Permutation_sym, Permutation_rev|]. split; [vm_compute; discriminate|vm_compute; reflexivity].
Qed.
