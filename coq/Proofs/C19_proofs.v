(* Proofs about Model/C19.v: frame property of the mutators, independence of deep copies,
   exact characterisation of when a constructor writes into its inputs, refutations of the
   faithful copy / export / in-place standardisation.  Unbounded (any heap, any op sequence). *)
From Coq Require Import ZifyBool Lia.
From Verif Require Import Base C19.

Local Open Scope nat_scope.

(* ------------------------------------------------------------------------- *)
(* heap access                                                                 *)

Lemma c19_get_lt h i c : c19_get h i = Some c -> i < length h.
Proof. unfold c19_get. intros H. apply nth_error_Some. congruence. Qed.

Lemma c19_upd_length h i c : length (c19_upd h i c) = length h.
Proof. revert i; induction h as [|x h IH]; intros [|i]; simpl; auto. Qed.

Lemma c19_get_upd_other h i j c : i <> j -> c19_get (c19_upd h j c) i = c19_get h i.
Proof.
  unfold c19_get. revert i j; induction h as [|x h IH]; intros [|i] [|j] H; simpl; auto; try congruence.
Qed.

Lemma c19_get_upd_same h i c : i < length h -> c19_get (c19_upd h i c) i = Some c.
Proof.
  unfold c19_get. revert i; induction h as [|x h IH]; intros [|i] H; simpl in *; try lia; auto.
  apply IH. lia.
Qed.

Lemma c19_get_app_old h t i : i < length h -> c19_get (h ++ t) i = c19_get h i.
Proof. unfold c19_get. intros. apply nth_error_app1. assumption. Qed.

Lemma c19_get_app_new h c : c19_get (h ++ [c]) (length h) = Some c.
Proof. unfold c19_get. rewrite nth_error_app2 by lia. rewrite Nat.sub_diag. reflexivity. Qed.

Lemma c19_get_ge h i : length h <= i -> c19_get h i = None.
Proof. unfold c19_get. apply nth_error_None. Qed.

(* h' extends h: every old cell is still there, unchanged *)
Definition c19_ext (h h' : c19_heap) : Prop :=
  length h <= length h' /\ forall i, i < length h -> c19_get h' i = c19_get h i.

Lemma c19_ext_refl h : c19_ext h h.
Proof. split; auto. Qed.

Lemma c19_ext_trans a b c : c19_ext a b -> c19_ext b c -> c19_ext a c.
Proof. intros [l1 g1] [l2 g2]. split; [lia|]. intros i Hi. rewrite g2 by lia. apply g1; lia. Qed.

Lemma c19_ext_alloc h c : c19_ext h (fst (c19_alloc h c)).
Proof.
  unfold c19_alloc; simpl. split. rewrite app_length; simpl; lia.
  intros. apply c19_get_app_old. assumption.
Qed.

Lemma c19_alloc_spec h c : forall h' i, c19_alloc h c = (h', i) ->
  i = length h /\ length h' = S (length h) /\ c19_get h' i = Some c /\ c19_ext h h'.
Proof.
  unfold c19_alloc. intros h' i [= <- <-]. repeat split.
  - rewrite app_length; simpl; lia.
  - apply c19_get_app_new.
  - rewrite app_length; simpl; lia.
  - intros. apply c19_get_app_old. assumption.
Qed.

(* ------------------------------------------------------------------------- *)
(* association lists                                                           *)

Lemma c19_find_In {A} n (l : list (Z * A)) v : c19_find n l = Some v -> In (n, v) l.
Proof.
  induction l as [|[k w] l IH]; simpl; [discriminate|].
  destruct (Z.eqb_spec k n); [intros [= ->]; subst; auto| auto].
Qed.

Lemma c19_set_In {A} n (v : A) l p : In p (c19_set n v l) -> p = (n, v) \/ In p l.
Proof.
  induction l as [|[k w] l IH]; simpl.
  - intros [<-|[]]; auto.
  - destruct (Z.eqb_spec k n); simpl.
    + intros [<-|H]; subst; auto.
    + intros [<-|H]; auto. destruct (IH H); auto.
Qed.

Lemma c19_del_In {A} n (l : list (Z * A)) p : In p (c19_del n l) -> In p l.
Proof. unfold c19_del. rewrite filter_In. tauto. Qed.

(* ------------------------------------------------------------------------- *)
(* reach / obs depend only on the reached cells                               *)

Lemma c19_reach_var_frame h h' v :
  (forall i, In i (c19_reach_var h v) -> c19_get h' i = c19_get h i) ->
  c19_reach_var h' v = c19_reach_var h v /\ c19_obs_var h' v = c19_obs_var h v.
Proof.
  intros H. unfold c19_reach_var, c19_obs_var in *.
  rewrite (H v) by (simpl; auto).
  destruct (c19_get h v) as [[| |b a|]|]; auto.
  rewrite (H b), (H a) by (simpl; auto). auto.
Qed.

Lemma c19_in_reach_var h d vars a n v :
  c19_get h d = Some (C19Ds vars a) -> In (n, v) vars ->
  forall i, In i (c19_reach_var h v) -> In i (c19_reach h d).
Proof.
  intros Hd Hin i Hi. unfold c19_reach. rewrite Hd. right. right.
  apply in_flat_map. exists (n, v). auto.
Qed.

Lemma c19_frame_obs h h' d :
  (forall i, In i (c19_reach h d) -> c19_get h' i = c19_get h i) ->
  c19_reach h' d = c19_reach h d /\ c19_obs h' d = c19_obs h d.
Proof.
  intros H. unfold c19_reach, c19_obs in *.
  rewrite (H d) by (simpl; auto).
  destruct (c19_get h d) as [[| | |vars a]|] eqn:Hd; auto.
  assert (Ha : c19_get h' a = c19_get h a) by (apply H; simpl; auto).
  assert (Hv : forall nv, In nv vars ->
             c19_reach_var h' (snd nv) = c19_reach_var h (snd nv) /\
             c19_obs_var h' (snd nv) = c19_obs_var h (snd nv)).
  { intros [n v] Hin. apply c19_reach_var_frame. intros i Hi. apply H.
    right. right. apply in_flat_map. exists (n, v). auto. }
  split.
  - f_equal. f_equal. clear - Hv. induction vars as [|nv vars IH]; cbn [flat_map]; auto.
    rewrite (proj1 (Hv nv (or_introl eq_refl))). f_equal. apply IH. intros; apply Hv; right; auto.
  - rewrite Ha. f_equal. f_equal. clear - Hv. induction vars as [|nv vars IH]; cbn [map]; auto.
    rewrite (proj2 (Hv nv (or_introl eq_refl))). f_equal. apply IH. intros; apply Hv; right; auto.
Qed.

(* well-typedness in logical form *)
Lemma c19_is_buf_get h i : c19_is_buf h i = true -> exists x, c19_get h i = Some (C19Buf x).
Proof. unfold c19_is_buf. destruct (c19_get h i) as [[x| | |]|]; try discriminate. eauto. Qed.
Lemma c19_is_dict_get h i : c19_is_dict h i = true -> exists x, c19_get h i = Some (C19Dict x).
Proof. unfold c19_is_dict. destruct (c19_get h i) as [[|x| |]|]; try discriminate. eauto. Qed.
Lemma c19_is_var_get h i : c19_is_var h i = true ->
  exists b a, c19_get h i = Some (C19Var b a) /\ c19_is_buf h b = true /\ c19_is_dict h a = true.
Proof.
  unfold c19_is_var. destruct (c19_get h i) as [[| |b a|]|]; try discriminate.
  rewrite andb_true_iff. eauto.
Qed.

Lemma c19_wt_inv h d : c19_wt h d = true ->
  exists vars a, c19_get h d = Some (C19Ds vars a) /\ c19_is_dict h a = true /\
                 forall n v, In (n, v) vars -> c19_is_var h v = true.
Proof.
  unfold c19_wt. destruct (c19_get h d) as [[| | |vars a]|]; try discriminate.
  rewrite andb_true_iff, forallb_forall. intros [Ha Hv]. exists vars, a. repeat split; auto.
  intros n v Hin. apply (Hv (n, v) Hin).
Qed.

(* every reached id of a well-typed root is allocated *)
Lemma c19_wt_reach_lt h d : c19_wt h d = true -> forall i, In i (c19_reach h d) -> i < length h.
Proof.
  intros Hwt i Hi. destruct (c19_wt_inv _ _ Hwt) as (vars & a & Hd & Ha & Hv).
  unfold c19_reach in Hi. rewrite Hd in Hi.
  destruct Hi as [<-|[<-|Hi]].
  - eapply c19_get_lt; eauto.
  - destruct (c19_is_dict_get _ _ Ha). eapply c19_get_lt; eauto.
  - apply in_flat_map in Hi. destruct Hi as ([n v] & Hin & Hi). simpl in Hi.
    destruct (c19_is_var_get _ _ (Hv n v Hin)) as (b & va & Hg & Hb & Hva).
    unfold c19_reach_var in Hi. rewrite Hg in Hi.
    destruct Hi as [<-|[<-|[<-|[]]]].
    + eapply c19_get_lt; eauto.
    + destruct (c19_is_buf_get _ _ Hb). eapply c19_get_lt; eauto.
    + destruct (c19_is_dict_get _ _ Hva). eapply c19_get_lt; eauto.
Qed.

(* kinds are preserved when the reached cells are *)
Lemma c19_wt_frame h h' d :
  (forall i, In i (c19_reach h d) -> c19_get h' i = c19_get h i) ->
  c19_wt h d = true -> c19_wt h' d = true.
Proof.
  intros H Hwt. destruct (c19_wt_inv _ _ Hwt) as (vars & a & Hd & Ha & Hv).
  unfold c19_wt. rewrite (H d) by (simpl; auto). rewrite Hd.
  assert (Hra : In a (c19_reach h d)) by (unfold c19_reach; rewrite Hd; simpl; auto).
  apply andb_true_iff. split.
  - unfold c19_is_dict in *. rewrite (H a Hra). exact Ha.
  - apply forallb_forall. intros [n v] Hin. simpl.
    pose proof (Hv n v Hin) as Hvv.
    destruct (c19_is_var_get _ _ Hvv) as (b & va & Hg & Hb & Hva).
    assert (Hr : forall i, In i (c19_reach_var h v) -> In i (c19_reach h d))
      by (eapply c19_in_reach_var; eauto).
    unfold c19_is_var. rewrite (H v) by (apply Hr; simpl; auto). rewrite Hg.
    unfold c19_reach_var in Hr. rewrite Hg in Hr.
    unfold c19_is_buf, c19_is_dict in *.
    rewrite (H b), (H va) by (apply Hr; simpl; auto). rewrite Hb, Hva. reflexivity.
Qed.

(* ------------------------------------------------------------------------- *)
(* one mutator step: footprint, growth of the reached set, typing             *)

Definition c19_kind (c : option c19_cell) : nat :=
  match c with
  | None => 0 | Some (C19Buf _) => 1 | Some (C19Dict _) => 2
  | Some (C19Var _ _) => 3 | Some (C19Ds _ _) => 4
  end.

Lemma c19_kind_neq h i j : c19_kind (c19_get h i) <> c19_kind (c19_get h j) -> i <> j.
Proof. intros H ->. auto. Qed.

Record c19_step_ok (h h' : c19_heap) (d : nat) : Prop := {
  so_len : length h <= length h';
  so_frame : forall i, i < length h -> ~ In i (c19_reach h d) -> c19_get h' i = c19_get h i;
  so_reach : forall i, In i (c19_reach h' d) -> In i (c19_reach h d) \/ length h <= i;
  so_wt : c19_wt h' d = true }.

Lemma c19_step_refl h d : c19_wt h d = true -> c19_step_ok h h d.
Proof. intros; constructor; auto. Qed.

(* a variable that is fine in the new heap *)
Definition c19_okvar (h h' : c19_heap) (d v : nat) : Prop :=
  c19_is_var h' v = true /\
  forall i, In i (c19_reach_var h' v) -> In i (c19_reach h d) \/ length h <= i.

Lemma c19_build_ok h h' d vars' a' :
  c19_get h' d = Some (C19Ds vars' a') ->
  c19_is_dict h' a' = true -> (In a' (c19_reach h d) \/ length h <= a') ->
  (forall n v, In (n, v) vars' -> c19_okvar h h' d v) ->
  c19_wt h' d = true /\ forall i, In i (c19_reach h' d) -> In i (c19_reach h d) \/ length h <= i.
Proof.
  intros Hd Ha Hra Hv. split.
  - unfold c19_wt. rewrite Hd, Ha. simpl. apply forallb_forall. intros [n v] Hin. apply (Hv n v Hin).
  - intros i Hi. unfold c19_reach in Hi. rewrite Hd in Hi.
    destruct Hi as [<-|[<-|Hi]].
    + left. unfold c19_reach. simpl. auto.
    + assumption.
    + apply in_flat_map in Hi. destruct Hi as ([n v] & Hin & Hi). apply (proj2 (Hv n v Hin)). exact Hi.
Qed.

Lemma c19_okvar_unchanged h h' d vars a n v :
  c19_get h d = Some (C19Ds vars a) -> In (n, v) vars -> c19_is_var h v = true ->
  (forall i, In i (c19_reach_var h v) -> c19_get h' i = c19_get h i) ->
  c19_okvar h h' d v.
Proof.
  intros Hd Hin Hvv H.
  destruct (c19_is_var_get _ _ Hvv) as (b & va & Hg & Hb & Hva).
  assert (Hrv : c19_reach_var h v = [v; b; va]) by (unfold c19_reach_var; rewrite Hg; reflexivity).
  split.
  - unfold c19_is_var, c19_is_buf, c19_is_dict in *.
    rewrite (H v), Hg by (rewrite Hrv; simpl; auto).
    rewrite (H b), (H va) by (rewrite Hrv; simpl; auto). rewrite Hb, Hva. reflexivity.
  - intros i Hi. left. rewrite (proj1 (c19_reach_var_frame _ _ _ H)) in Hi.
    eapply c19_in_reach_var; eauto.
Qed.

(* cells reached through a typed variable are no Dataset cells, and only v itself is a Variable *)
Lemma c19_reach_var_kind h v i :
  c19_is_var h v = true -> In i (c19_reach_var h v) ->
  (i = v /\ c19_kind (c19_get h i) = 3) \/ c19_kind (c19_get h i) = 1 \/ c19_kind (c19_get h i) = 2.
Proof.
  intros Hvv Hi. destruct (c19_is_var_get _ _ Hvv) as (b & va & Hg & Hb & Hva).
  unfold c19_reach_var in Hi. rewrite Hg in Hi.
  destruct (c19_is_buf_get _ _ Hb) as [x Hx]. destruct (c19_is_dict_get _ _ Hva) as [y Hy].
  destruct Hi as [<-|[<-|[<-|[]]]].
  - left. rewrite Hg. auto.
  - right. left. rewrite Hx. reflexivity.
  - right. right. rewrite Hy. reflexivity.
Qed.

(* updating a leaf cell (buffer / dict) by a cell of the same kind changes neither reach nor typing *)
Definition c19_sim (c1 c2 : option c19_cell) : Prop :=
  match c1, c2 with
  | Some (C19Buf _), Some (C19Buf _) => True
  | Some (C19Dict _), Some (C19Dict _) => True
  | _, _ => c1 = c2
  end.

Lemma c19_sim_reach h h' : (forall i, c19_sim (c19_get h i) (c19_get h' i)) ->
  forall d, c19_reach h' d = c19_reach h d /\ c19_wt h' d = c19_wt h d.
Proof.
  intros H d.
  assert (Hb : forall i, c19_is_buf h' i = c19_is_buf h i).
  { intros i. unfold c19_is_buf. specialize (H i). unfold c19_sim in H.
    destruct (c19_get h i) as [[| | |]|], (c19_get h' i) as [[| | |]|]; try discriminate; auto; try tauto. }
  assert (Hdct : forall i, c19_is_dict h' i = c19_is_dict h i).
  { intros i. unfold c19_is_dict. specialize (H i). unfold c19_sim in H.
    destruct (c19_get h i) as [[| | |]|], (c19_get h' i) as [[| | |]|]; try discriminate; auto; try tauto. }
  assert (Hvar : forall i b a, c19_get h i = Some (C19Var b a) -> c19_get h' i = Some (C19Var b a)).
  { intros i b a Hg. specialize (H i). rewrite Hg in H. simpl in H. congruence. }
  assert (Hvar' : forall i b a, c19_get h' i = Some (C19Var b a) -> c19_get h i = Some (C19Var b a)).
  { intros i b a Hg. specialize (H i). rewrite Hg in H. unfold c19_sim in H.
    destruct (c19_get h i) as [[| | |]|]; try discriminate; try tauto; congruence. }
  assert (Hrv : forall v, c19_reach_var h' v = c19_reach_var h v).
  { intros v. unfold c19_reach_var.
    destruct (c19_get h v) as [[| |b a|]|] eqn:E.
    - destruct (c19_get h' v) as [[| |b' a'|]|] eqn:E'; auto. apply Hvar' in E'. congruence.
    - destruct (c19_get h' v) as [[| |b' a'|]|] eqn:E'; auto. apply Hvar' in E'. congruence.
    - rewrite (Hvar _ _ _ E). reflexivity.
    - destruct (c19_get h' v) as [[| |b' a'|]|] eqn:E'; auto. apply Hvar' in E'. congruence.
    - destruct (c19_get h' v) as [[| |b' a'|]|] eqn:E'; auto. apply Hvar' in E'. congruence. }
  assert (Hiv : forall v, c19_is_var h' v = c19_is_var h v).
  { intros v. unfold c19_is_var.
    destruct (c19_get h v) as [[| |b a|]|] eqn:E.
    - destruct (c19_get h' v) as [[| |b' a'|]|] eqn:E'; auto. apply Hvar' in E'. congruence.
    - destruct (c19_get h' v) as [[| |b' a'|]|] eqn:E'; auto. apply Hvar' in E'. congruence.
    - rewrite (Hvar _ _ _ E). rewrite Hb, Hdct. reflexivity.
    - destruct (c19_get h' v) as [[| |b' a'|]|] eqn:E'; auto. apply Hvar' in E'. congruence.
    - destruct (c19_get h' v) as [[| |b' a'|]|] eqn:E'; auto. apply Hvar' in E'. congruence. }
  assert (Hds : forall vars a, c19_get h d = Some (C19Ds vars a) -> c19_get h' d = Some (C19Ds vars a)).
  { intros vars a Hg. specialize (H d). rewrite Hg in H. simpl in H. congruence. }
  assert (Hds' : forall vars a, c19_get h' d = Some (C19Ds vars a) -> c19_get h d = Some (C19Ds vars a)).
  { intros vars a Hg. specialize (H d). rewrite Hg in H. unfold c19_sim in H.
    destruct (c19_get h d) as [[| | |]|]; try discriminate; try tauto; congruence. }
  unfold c19_reach, c19_wt.
  destruct (c19_get h d) as [[| | |vars a]|] eqn:E.
  1,2,3,5: destruct (c19_get h' d) as [[| | |vars' a']|] eqn:E'; auto;
    specialize (Hds' _ _ eq_refl); discriminate.
  rewrite (Hds _ _ eq_refl). split.
  - f_equal. f_equal. apply flat_map_ext. intros; apply Hrv.
  - rewrite Hdct. f_equal. clear - Hiv. induction vars as [|nv vars IH]; cbn [forallb]; auto.
    rewrite Hiv, IH. reflexivity.
Qed.

Lemma c19_upd_sim h j c :
  c19_sim (c19_get h j) (Some c) -> forall i, c19_sim (c19_get h i) (c19_get (c19_upd h j c) i).
Proof.
  intros H i. destruct (Nat.eq_dec i j) as [->|Hne].
  - destruct (c19_get h j) eqn:E.
    + rewrite c19_get_upd_same by (eapply c19_get_lt; eauto). exact H.
    + simpl in H. discriminate.
  - rewrite c19_get_upd_other by assumption. unfold c19_sim.
    destruct (c19_get h i) as [[| | |]|]; auto.
Qed.

Lemma c19_step_leaf h d j c :
  c19_wt h d = true -> In j (c19_reach h d) -> c19_sim (c19_get h j) (Some c) ->
  c19_step_ok h (c19_upd h j c) d.
Proof.
  intros Hwt Hj Hs.
  destruct (c19_sim_reach h (c19_upd h j c) (c19_upd_sim h j c Hs) d) as [Hr Hw].
  constructor.
  - rewrite c19_upd_length. lia.
  - intros i Hi Hn. apply c19_get_upd_other. intros ->. auto.
  - intros i Hi. left. rewrite <- Hr. exact Hi.
  - rewrite Hw. exact Hwt.
Qed.

Lemma c19_apply_ok h d o : c19_wt h d = true -> c19_step_ok h (c19_apply h d o) d.
Proof.
  intros Hwt. pose proof (c19_step_refl h d Hwt) as Hrefl.
  destruct (c19_wt_inv _ _ Hwt) as (vars & a & Hd & Ha & Hv).
  assert (Hdlt : d < length h) by (eapply c19_get_lt; eauto).
  assert (Hrd : In d (c19_reach h d)) by (unfold c19_reach; simpl; auto).
  assert (Hra : In a (c19_reach h d)) by (unfold c19_reach; rewrite Hd; simpl; auto).
  assert (Hlt : forall i, In i (c19_reach h d) -> i < length h) by (apply c19_wt_reach_lt; auto).
  unfold c19_apply. rewrite Hd.
  destruct o as [n data at'|n data|n data|n k x|n].
  - (* SetVar *)
    unfold c19_alloc. cbn [fst snd].
    set (h3 := ((h ++ [C19Buf data]) ++ [C19Dict at']) ++ [C19Var (length h) (length (h ++ [C19Buf data]))]).
    assert (L1 : length (h ++ [C19Buf data]) = S (length h)) by (rewrite app_length; simpl; lia).
    assert (L2 : length ((h ++ [C19Buf data]) ++ [C19Dict at']) = S (S (length h)))
      by (rewrite app_length; simpl; lia).
    assert (L3 : length h3 = S (S (S (length h)))) by (unfold h3; rewrite app_length; simpl; lia).
    assert (Old : forall i, i < length h -> c19_get h3 i = c19_get h i).
    { intros i Hi. unfold h3. rewrite !c19_get_app_old by lia. reflexivity. }
    assert (Gb : c19_get h3 (length h) = Some (C19Buf data)).
    { unfold h3. rewrite !c19_get_app_old by lia. apply c19_get_app_new. }
    assert (Gd : c19_get h3 (S (length h)) = Some (C19Dict at')).
    { unfold h3. rewrite c19_get_app_old by lia. rewrite <- L1. apply c19_get_app_new. }
    assert (Gv : c19_get h3 (S (S (length h))) = Some (C19Var (length h) (S (length h)))).
    { unfold h3. rewrite <- L2 at 1. rewrite c19_get_app_new. rewrite L1. reflexivity. }
    rewrite L2.
    set (h' := c19_upd h3 d (C19Ds (c19_set n (S (S (length h))) vars) a)).
    assert (Gd' : c19_get h' d = Some (C19Ds (c19_set n (S (S (length h))) vars) a))
      by (apply c19_get_upd_same; lia).
    assert (Oth : forall i, i <> d -> c19_get h' i = c19_get h3 i)
      by (intros; apply c19_get_upd_other; auto).
    assert (B : c19_wt h' d = true /\
                forall i, In i (c19_reach h' d) -> In i (c19_reach h d) \/ length h <= i).
    { eapply c19_build_ok; eauto.
      - unfold c19_is_dict in *. rewrite Oth, Old; auto.
        + destruct (c19_is_dict_get _ _ Ha) as [y Hy].
          apply (c19_kind_neq h). unfold c19_is_dict in Ha. rewrite Hd, Hy. simpl. lia.
      - intros n0 v0 Hin. apply c19_set_In in Hin. destruct Hin as [[= -> ->]|Hin].
        + split.
          * unfold c19_is_var, c19_is_buf, c19_is_dict.
            rewrite (Oth (S (S (length h)))) by lia. rewrite Gv.
            rewrite (Oth (length h)), (Oth (S (length h))) by lia. rewrite Gb, Gd. reflexivity.
          * intros i Hi. right. unfold c19_reach_var in Hi. rewrite Oth, Gv in Hi by lia.
            simpl in Hi. lia.
        + eapply c19_okvar_unchanged; eauto.
          intros i Hi.
          assert (Hir : In i (c19_reach h d)) by (eapply c19_in_reach_var; eauto).
          rewrite Oth, Old; auto.
          destruct (c19_reach_var_kind h v0 i (Hv _ _ Hin) Hi) as [[_ K]|[K|K]];
            apply (c19_kind_neq h); rewrite Hd, K; simpl; lia. }
    constructor.
    + unfold h'. rewrite c19_upd_length. lia.
    + intros i Hi Hn. rewrite Oth by (intros ->; auto). apply Old. assumption.
    + apply B.
    + apply B.
  - (* SetData *)
    destruct (c19_find n vars) as [v|] eqn:Hf; [|assumption].
    apply c19_find_In in Hf.
    pose proof (Hv _ _ Hf) as Hvv.
    destruct (c19_is_var_get _ _ Hvv) as (b & va & Hg & Hb & Hva). rewrite Hg.
    unfold c19_alloc.
    set (h1 := h ++ [C19Buf data]).
    set (h' := c19_upd h1 v (C19Var (length h) va)).
    assert (Hvlt : v < length h) by (eapply c19_get_lt; eauto).
    assert (L1 : length h1 = S (length h)) by (unfold h1; rewrite app_length; simpl; lia).
    assert (Old : forall i, i < length h -> c19_get h1 i = c19_get h i)
      by (intros; unfold h1; apply c19_get_app_old; auto).
    assert (Gn : c19_get h1 (length h) = Some (C19Buf data)) by (apply c19_get_app_new).
    assert (Gv' : c19_get h' v = Some (C19Var (length h) va)) by (apply c19_get_upd_same; lia).
    assert (Oth : forall i, i <> v -> c19_get h' i = c19_get h1 i)
      by (intros; apply c19_get_upd_other; auto).
    assert (Hvr : In v (c19_reach h d))
      by (eapply c19_in_reach_var; eauto; unfold c19_reach_var; simpl; auto).
    assert (Hvar : In va (c19_reach h d))
      by (eapply c19_in_reach_var; eauto; unfold c19_reach_var; rewrite Hg; simpl; auto).
    assert (Hdv : d <> v) by (apply (c19_kind_neq h); rewrite Hd, Hg; simpl; lia).
    destruct (c19_is_dict_get _ _ Hva) as [yva Hyva].
    destruct (c19_is_dict_get _ _ Ha) as [ya Hya].
    assert (B : c19_wt h' d = true /\
                forall i, In i (c19_reach h' d) -> In i (c19_reach h d) \/ length h <= i).
    { eapply (c19_build_ok h h' d vars a); eauto.
      - rewrite Oth, Old; auto.
      - unfold c19_is_dict. rewrite Oth.
        2:{ apply (c19_kind_neq h). rewrite Hya, Hg. simpl. lia. }
        rewrite Old by auto. rewrite Hya. reflexivity.
      - intros n0 v0 Hin. destruct (Nat.eq_dec v0 v) as [->|Hne].
        + split.
          * unfold c19_is_var, c19_is_buf, c19_is_dict. rewrite Gv'.
            rewrite (Oth (length h)) by lia. rewrite Gn.
            rewrite (Oth va).
            2:{ apply (c19_kind_neq h). rewrite Hyva, Hg. simpl. lia. }
            rewrite Old by auto. rewrite Hyva. reflexivity.
          * intros i Hi. unfold c19_reach_var in Hi. rewrite Gv' in Hi.
            destruct Hi as [<-|[<-|[<-|[]]]]; auto.
        + eapply c19_okvar_unchanged; eauto.
          intros i Hi.
          assert (Hir : In i (c19_reach h d)) by (eapply c19_in_reach_var; eauto).
          rewrite Oth, Old; auto.
          destruct (c19_reach_var_kind h v0 i (Hv _ _ Hin) Hi) as [[-> K]|[K|K]]; auto;
            apply (c19_kind_neq h); rewrite Hg, K; simpl; lia. }
    constructor.
    + unfold h'. rewrite c19_upd_length. lia.
    + intros i Hi Hn. rewrite Oth by (intros ->; auto). apply Old. assumption.
    + apply B.
    + apply B.
  - (* WriteBuf *)
    destruct (c19_find n vars) as [v|] eqn:Hf; [|assumption].
    apply c19_find_In in Hf.
    destruct (c19_is_var_get _ _ (Hv _ _ Hf)) as (b & va & Hg & Hb & Hva). rewrite Hg.
    destruct (c19_is_buf_get _ _ Hb) as [x Hx].
    apply c19_step_leaf; auto.
    + eapply c19_in_reach_var; eauto. unfold c19_reach_var. rewrite Hg. simpl; auto.
    + rewrite Hx. exact I.
  - (* SetAttr *)
    destruct (n =? -1)%Z.
    + destruct (c19_is_dict_get _ _ Ha) as [y Hy]. rewrite Hy.
      apply c19_step_leaf; auto. rewrite Hy. exact I.
    + destruct (c19_find n vars) as [v|] eqn:Hf; [|assumption].
      apply c19_find_In in Hf.
      destruct (c19_is_var_get _ _ (Hv _ _ Hf)) as (b & va & Hg & Hb & Hva). rewrite Hg.
      destruct (c19_is_dict_get _ _ Hva) as [y Hy]. rewrite Hy.
      apply c19_step_leaf; auto.
      * eapply c19_in_reach_var; eauto. unfold c19_reach_var. rewrite Hg. simpl; auto.
      * rewrite Hy. exact I.
  - (* DelVar *)
    set (h' := c19_upd h d (C19Ds (c19_del n vars) a)).
    assert (Gd' : c19_get h' d = Some (C19Ds (c19_del n vars) a)) by (apply c19_get_upd_same; lia).
    assert (Oth : forall i, i <> d -> c19_get h' i = c19_get h i)
      by (intros; apply c19_get_upd_other; auto).
    destruct (c19_is_dict_get _ _ Ha) as [ya Hya].
    assert (B : c19_wt h' d = true /\
                forall i, In i (c19_reach h' d) -> In i (c19_reach h d) \/ length h <= i).
    { eapply c19_build_ok; eauto.
      - unfold c19_is_dict. rewrite Oth.
        + rewrite Hya. reflexivity.
        + apply (c19_kind_neq h). rewrite Hya, Hd. simpl. lia.
      - intros n0 v0 Hin. apply c19_del_In in Hin.
        eapply c19_okvar_unchanged; eauto.
        intros i Hi. rewrite Oth; auto.
        destruct (c19_reach_var_kind h v0 i (Hv _ _ Hin) Hi) as [[_ K]|[K|K]];
          apply (c19_kind_neq h); rewrite Hd, K; simpl; lia. }
    constructor.
    + unfold h'. rewrite c19_upd_length. lia.
    + intros i Hi Hn. apply Oth. intros ->; auto.
    + apply B.
    + apply B.
Qed.

(* ------------------------------------------------------------------------- *)
(* frame theorem for whole mutator sequences                                   *)

Definition c19_disjoint (h : c19_heap) (d1 d2 : nat) : Prop :=
  forall i, In i (c19_reach h d1) -> ~ In i (c19_reach h d2).

Lemma c19_run_frame_gen : forall ops h d1 d2,
  c19_wt h d1 = true -> c19_wt h d2 = true -> c19_disjoint h d1 d2 ->
  let h' := c19_run h d1 ops in
  c19_obs h' d2 = c19_obs h d2 /\ c19_reach h' d2 = c19_reach h d2 /\
  c19_wt h' d1 = true /\ c19_wt h' d2 = true /\ c19_disjoint h' d1 d2.
Proof.
  induction ops as [|o ops IH]; intros h d1 d2 W1 W2 Dj; simpl.
  - repeat split; auto.
  - destruct (c19_apply_ok h d1 o W1) as [Hlen Hfr Hre Hwt].
    set (h1 := c19_apply h d1 o) in *.
    assert (Hsame : forall i, In i (c19_reach h d2) -> c19_get h1 i = c19_get h i).
    { intros i Hi. apply Hfr.
      - eapply c19_wt_reach_lt; eauto.
      - intros Hc. exact (Dj i Hc Hi). }
    destruct (c19_frame_obs h h1 d2 Hsame) as [Hr2 Ho2].
    assert (W2' : c19_wt h1 d2 = true) by (eapply c19_wt_frame; eauto).
    assert (Dj' : c19_disjoint h1 d1 d2).
    { intros i Hi Hc. rewrite Hr2 in Hc. destruct (Hre i Hi) as [Hold|Hnew].
      - exact (Dj i Hold Hc).
      - pose proof (c19_wt_reach_lt h d2 W2 i Hc). lia. }
    destruct (IH h1 d1 d2 Hwt W2' Dj') as (A & B & C & D & E).
    change (c19_run h d1 (o :: ops)) with (c19_run h1 d1 ops) in *.
    repeat split; auto; try congruence.
Qed.

Lemma c19_disjoint_sym h d1 d2 : c19_disjoint h d1 d2 -> c19_disjoint h d2 d1.
Proof. intros H i Hi Hc. exact (H i Hc Hi). Qed.

(* any mutator sequence applied to one root leaves what a disjoint root reports unchanged *)
Lemma c19_frame_thm : forall ops h d1 d2,
  c19_wt h d1 = true -> c19_wt h d2 = true -> c19_disjoint h d1 d2 ->
  c19_obs (c19_run h d1 ops) d2 = c19_obs h d2.
Proof. intros. apply c19_run_frame_gen; auto. Qed.

(* interleaved histories: ops tagged with the side they are applied to (true = d1) *)
Fixpoint c19_run2 (h : c19_heap) (d1 d2 : nat) (ops : list (bool * c19_op)) : c19_heap :=
  match ops with
  | [] => h
  | (side, o) :: t => c19_run2 (c19_apply h (if side then d1 else d2) o) d1 d2 t
  end.

Definition c19_sep (h : c19_heap) (d1 d2 : nat) : Prop :=
  c19_wt h d1 = true /\ c19_wt h d2 = true /\ c19_disjoint h d1 d2.

Lemma c19_sep_sym h d1 d2 : c19_sep h d1 d2 -> c19_sep h d2 d1.
Proof. intros (A & B & C). repeat split; auto. apply c19_disjoint_sym; auto. Qed.

Lemma c19_sep_step h d1 d2 o : c19_sep h d1 d2 ->
  c19_sep (c19_apply h d1 o) d1 d2 /\ c19_obs (c19_apply h d1 o) d2 = c19_obs h d2.
Proof.
  intros (A & B & C). destruct (c19_run_frame_gen [o] h d1 d2 A B C) as (O & R & W1 & W2 & D).
  simpl in *. repeat split; auto.
Qed.

(* separation is an invariant of every interleaved history *)
Lemma c19_sep_run2 : forall ops h d1 d2, c19_sep h d1 d2 -> c19_sep (c19_run2 h d1 d2 ops) d1 d2.
Proof.
  induction ops as [|[s o] ops IH]; intros h d1 d2 S; simpl; auto.
  apply IH. destruct s.
  - apply c19_sep_step; auto.
  - apply c19_sep_sym. apply c19_sep_step. apply c19_sep_sym; auto.
Qed.

(* at every point of every interleaved history, a mutation of one side leaves what the other
   side reports unchanged *)
Lemma c19_interleave_thm : forall ops h d1 d2 o, c19_sep h d1 d2 ->
  let h' := c19_run2 h d1 d2 ops in
  c19_obs (c19_apply h' d1 o) d2 = c19_obs h' d2 /\ c19_obs (c19_apply h' d2 o) d1 = c19_obs h' d1.
Proof.
  intros ops h d1 d2 o S h'. pose proof (c19_sep_run2 ops h d1 d2 S) as S'. fold h' in S'. split.
  - apply c19_sep_step; auto.
  - apply c19_sep_step. apply c19_sep_sym; auto.
Qed.

(* ------------------------------------------------------------------------- *)
(* deep copies                                                                 *)

Lemma c19_is_var_reach_lt h v : c19_is_var h v = true -> forall i, In i (c19_reach_var h v) -> i < length h.
Proof.
  intros Hv i Hi. destruct (c19_is_var_get _ _ Hv) as (b & a & Hg & Hb & Ha).
  destruct (c19_is_buf_get _ _ Hb) as [x Hx]. destruct (c19_is_dict_get _ _ Ha) as [y Hy].
  unfold c19_reach_var in Hi. rewrite Hg in Hi.
  destruct Hi as [<-|[<-|[<-|[]]]]; eapply c19_get_lt; eauto.
Qed.

Lemma c19_ext_var h h' v : c19_ext h h' -> c19_is_var h v = true ->
  c19_obs_var h' v = c19_obs_var h v /\ c19_reach_var h' v = c19_reach_var h v /\ c19_is_var h' v = true.
Proof.
  intros [Hl Hg] Hv.
  assert (Hs : forall i, In i (c19_reach_var h v) -> c19_get h' i = c19_get h i).
  { intros i Hi. apply Hg. eapply c19_is_var_reach_lt; eauto. }
  destruct (c19_reach_var_frame h h' v Hs) as [R O]. repeat split; auto.
  destruct (c19_is_var_get _ _ Hv) as (b & a & Hgv & Hb & Ha).
  assert (Hrv : c19_reach_var h v = [v; b; a]) by (unfold c19_reach_var; rewrite Hgv; reflexivity).
  unfold c19_is_var, c19_is_buf, c19_is_dict in *.
  rewrite (Hs v), Hgv by (rewrite Hrv; simpl; auto).
  rewrite (Hs b), (Hs a) by (rewrite Hrv; simpl; auto). rewrite Hb, Ha. reflexivity.
Qed.

Lemma c19_deepcopy_var_spec h v h' v' :
  c19_is_var h v = true -> c19_deepcopy_var h v = (h', v') ->
  c19_ext h h' /\ c19_obs_var h' v' = c19_obs_var h v /\ c19_is_var h' v' = true /\
  (forall i, In i (c19_reach_var h' v') -> length h <= i < length h').
Proof.
  intros Hv. destruct (c19_is_var_get _ _ Hv) as (b & a & Hg & Hb & Ha).
  destruct (c19_is_buf_get _ _ Hb) as [x Hx]. destruct (c19_is_dict_get _ _ Ha) as [y Hy].
  unfold c19_deepcopy_var. rewrite Hg, Hx, Hy. unfold c19_alloc. intros [= <- <-].
  set (h1 := h ++ [C19Buf x]). set (h2 := h1 ++ [C19Dict y]).
  assert (L1 : length h1 = S (length h)) by (unfold h1; rewrite app_length; simpl; lia).
  assert (L2 : length h2 = S (S (length h))) by (unfold h2; rewrite app_length; simpl; lia).
  set (h3 := h2 ++ [C19Var (length h) (length h1)]).
  assert (L3 : length h3 = S (S (S (length h)))) by (unfold h3; rewrite app_length; simpl; lia).
  assert (Old : forall i, i < length h -> c19_get h3 i = c19_get h i).
  { intros i Hi. unfold h3. rewrite c19_get_app_old by lia. unfold h2. rewrite c19_get_app_old by lia.
    unfold h1. rewrite c19_get_app_old by lia. reflexivity. }
  assert (Gb : c19_get h3 (length h) = Some (C19Buf x)).
  { unfold h3. rewrite c19_get_app_old by lia. unfold h2. rewrite c19_get_app_old by lia.
    apply c19_get_app_new. }
  assert (Gd : c19_get h3 (length h1) = Some (C19Dict y)).
  { unfold h3. rewrite c19_get_app_old by lia. apply c19_get_app_new. }
  assert (Gv : c19_get h3 (length h2) = Some (C19Var (length h) (length h1))) by apply c19_get_app_new.
  repeat split.
  - lia.
  - exact Old.
  - unfold c19_obs_var. rewrite Gv, Gb, Gd, Hg, Hx, Hy. reflexivity.
  - unfold c19_is_var, c19_is_buf, c19_is_dict. rewrite Gv, Gb, Gd. reflexivity.
  - unfold c19_reach_var in H. rewrite Gv in H. destruct H as [<-|[<-|[<-|[]]]]; lia.
  - unfold c19_reach_var in H. rewrite Gv in H. destruct H as [<-|[<-|[<-|[]]]]; lia.
Qed.

Lemma c19_deepcopy_vars_spec : forall vars h h' vars',
  (forall n v, In (n, v) vars -> c19_is_var h v = true) ->
  c19_deepcopy_vars h vars = (h', vars') ->
  c19_ext h h' /\
  map (fun nv => (fst nv, c19_obs_var h' (snd nv))) vars' = map (fun nv => (fst nv, c19_obs_var h (snd nv))) vars /\
  (forall n v', In (n, v') vars' -> c19_is_var h' v' = true /\
        forall i, In i (c19_reach_var h' v') -> length h <= i < length h').
Proof.
  induction vars as [|[n v] vars IH]; intros h h' vars' Hv; cbn [c19_deepcopy_vars].
  - intros [= <- <-]. split; [apply c19_ext_refl|]. split; [reflexivity|]. intros ? ? [].
  - destruct (c19_deepcopy_var h v) as [h1 nv] eqn:E1.
    destruct (c19_deepcopy_vars h1 vars) as [h2 t'] eqn:E2. intros [= <- <-].
    destruct (c19_deepcopy_var_spec h v h1 nv (Hv n v (or_introl eq_refl)) E1) as (X1 & O1 & W1 & R1).
    assert (Hv1 : forall n0 v0, In (n0, v0) vars -> c19_is_var h1 v0 = true).
    { intros n0 v0 Hin. apply (c19_ext_var h h1 v0 X1). apply (Hv n0 v0). right; auto. }
    destruct (IH h1 h2 t' Hv1 E2) as (X2 & O2 & W2).
    destruct (c19_ext_var h1 h2 nv X2 W1) as (O3 & R3 & W3).
    split; [apply (c19_ext_trans _ _ _ X1 X2)|]. split.
    + cbn [map fst snd]. rewrite O3, O1. f_equal. rewrite O2.
      apply map_ext_in. intros [n0 v0] Hin. cbn [fst snd]. f_equal.
      apply (c19_ext_var h h1 v0 X1). apply (Hv n0 v0). right; auto.
    + intros n0 v' Hin. destruct Hin as [[= <- <-]|Hin].
      * split; auto. intros i Hi. rewrite R3 in Hi. apply R1 in Hi. destruct X2. lia.
      * destruct (W2 _ _ Hin) as [A B]. split; auto. intros i Hi. apply B in Hi. destruct X1. lia.
Qed.

Lemma c19_deepcopy_spec h d h' d' :
  c19_wt h d = true -> c19_deepcopy h d = (h', d') ->
  c19_ext h h' /\ c19_obs h' d' = c19_obs h d /\ c19_wt h' d' = true /\
  (forall i, In i (c19_reach h' d') -> length h <= i).
Proof.
  intros Hwt. destruct (c19_wt_inv _ _ Hwt) as (vars & a & Hd & Ha & Hv).
  destruct (c19_is_dict_get _ _ Ha) as [y Hy].
  unfold c19_deepcopy. rewrite Hd, Hy. unfold c19_alloc.
  set (h1 := h ++ [C19Dict y]).
  destruct (c19_deepcopy_vars h1 vars) as [h2 vars'] eqn:E2. intros [= <- <-].
  assert (X1 : c19_ext h h1) by (apply (c19_ext_alloc h (C19Dict y))).
  assert (L1 : length h1 = S (length h)) by (unfold h1; rewrite app_length; simpl; lia).
  assert (Hv1 : forall n v, In (n, v) vars -> c19_is_var h1 v = true).
  { intros n v Hin. apply (c19_ext_var h h1 v X1). eauto. }
  destruct (c19_deepcopy_vars_spec vars h1 h2 vars' Hv1 E2) as (X2 & O2 & W2).
  set (h3 := h2 ++ [C19Ds vars' (length h)]).
  assert (X3 : c19_ext h2 h3) by (apply (c19_ext_alloc h2)).
  assert (Gd : c19_get h3 (length h2) = Some (C19Ds vars' (length h))) by apply c19_get_app_new.
  assert (Ga : c19_get h3 (length h) = Some (C19Dict y)).
  { destruct X2 as [l2 g2], X3 as [l3 g3]. rewrite g3 by lia. rewrite g2 by lia. apply c19_get_app_new. }
  assert (Hv3 : forall n v', In (n, v') vars' ->
            c19_obs_var h3 v' = c19_obs_var h2 v' /\ c19_reach_var h3 v' = c19_reach_var h2 v' /\
            c19_is_var h3 v' = true).
  { intros n v' Hin. apply (c19_ext_var h2 h3 v' X3). apply (W2 _ _ Hin). }
  repeat split.
  - destruct X1, X2, X3. lia.
  - intros i Hi. destruct X1 as [l1 g1], X2 as [l2 g2], X3 as [l3 g3].
    rewrite g3, g2, g1 by lia. reflexivity.
  - unfold c19_obs. rewrite Gd, Ga, Hd, Hy. f_equal. f_equal.
    transitivity (map (fun nv => (fst nv, c19_obs_var h2 (snd nv))) vars').
    + apply map_ext_in. intros [n v'] Hin. simpl. f_equal. apply (Hv3 _ _ Hin).
    + rewrite O2. apply map_ext_in. intros [n v] Hin. simpl. f_equal.
      apply (c19_ext_var h h1 v X1). eauto.
  - unfold c19_wt. rewrite Gd. unfold c19_is_dict at 1. rewrite Ga. simpl.
    apply forallb_forall. intros [n v'] Hin. apply (Hv3 _ _ Hin).
  - intros i Hi. unfold c19_reach in Hi. rewrite Gd in Hi.
    destruct Hi as [<-|[<-|Hi]].
    + destruct X1, X2. lia.
    + lia.
    + apply in_flat_map in Hi. destruct Hi as ([n v'] & Hin & Hi). cbn [snd] in Hi.
      rewrite (proj1 (proj2 (Hv3 _ _ Hin))) in Hi. apply (W2 _ _ Hin) in Hi. lia.
Qed.

(* a deep copy is separated from its original *)
Lemma c19_deepcopy_sep h d h' d' :
  c19_wt h d = true -> c19_deepcopy h d = (h', d') ->
  c19_sep h' d d' /\ c19_obs h' d' = c19_obs h d /\ c19_obs h' d = c19_obs h d.
Proof.
  intros Hwt E. destruct (c19_deepcopy_spec h d h' d' Hwt E) as (X & O & W & F).
  assert (Hs : forall i, In i (c19_reach h d) -> c19_get h' i = c19_get h i).
  { intros i Hi. apply X. eapply c19_wt_reach_lt; eauto. }
  destruct (c19_frame_obs h h' d Hs) as [R Od].
  repeat split; auto.
  - eapply c19_wt_frame; eauto.
  - intros i Hi Hc. rewrite R in Hi. pose proof (c19_wt_reach_lt h d Hwt i Hi). apply F in Hc. lia.
Qed.

(* C19_copy: whatever is done to either grid, in any interleaving,
   every single mutation leaves the other grid's report unchanged; and one-sided histories
   of any length leave the other side exactly as it was at copy time *)
Lemma c19_copy_independent : forall h d h' d' ops,
  c19_wt h d = true -> c19_copy h d = (h', d') ->
  c19_obs h' d' = c19_obs h d /\
  c19_obs (c19_run h' d ops) d' = c19_obs h d /\
  c19_obs (c19_run h' d' ops) d = c19_obs h d.
Proof.
  intros h d h' d' ops Hwt E. unfold c19_copy in E.
  destruct (c19_deepcopy_sep h d h' d' Hwt E) as ((W1 & W2 & Dj) & O1 & O2).
  repeat split; auto.
  - rewrite c19_frame_thm; auto.
  - rewrite c19_frame_thm; auto. apply c19_disjoint_sym; auto.
Qed.

Lemma c19_copy_interleaved : forall h d h' d' ops o,
  c19_wt h d = true -> c19_copy h d = (h', d') ->
  let hh := c19_run2 h' d d' ops in
  c19_obs (c19_apply hh d o) d' = c19_obs hh d' /\ c19_obs (c19_apply hh d' o) d = c19_obs hh d.
Proof.
  intros h d h' d' ops o Hwt E. unfold c19_copy in E.
  destruct (c19_deepcopy_sep h d h' d' Hwt E) as (S & _). apply c19_interleave_thm; auto.
Qed.

Definition c19_ex_heap : c19_heap :=
  [C19Buf [10%Z; 20%Z]; C19Dict [(0%Z, 0%Z)]; C19Var 0 1; C19Dict []; C19Ds [(c19_NODE_LON, 2)] 3].

(* ------------------------------------------------------------------------- *)
(* _process_connectivity: never writes into the caller's array; what the copy protects from *)

Local Open Scope Z_scope.

Definition c19_pc_inplace (dtype_std : bool) (fv : option Z) : bool :=
  match fv with None => false | Some o => (o =? FILL) || dtype_std end.

Definition c19_pc_result (x : list Z) (fv : option Z) (si : Z) : list Z :=
  match fv with
  | None => map (fun v => v - si) x
  | Some o => if o =? FILL then c19_sub_start x si else c19_std_conn x o si
  end.

Lemma c19_pc_nocopy_spec h conn x dtype_std fv si h' r :
  c19_get h conn = Some (C19Buf x) ->
  c19_process_connectivity_nocopy h conn dtype_std fv si = (h', r) ->
  c19_buf_data h' r = c19_pc_result x fv si /\
  (forall i, i <> conn -> (i < length h)%nat -> c19_get h' i = c19_get h i) /\
  (c19_pc_inplace dtype_std fv = true ->
     r = conn /\ c19_get h' conn = Some (C19Buf (c19_pc_result x fv si)) /\ length h' = length h) /\
  (c19_pc_inplace dtype_std fv = false ->
     r = length h /\ c19_ext h h').
Proof.
  intros Hg. pose proof (c19_get_lt _ _ _ Hg) as Hlt.
  unfold c19_process_connectivity_nocopy, c19_pc_inplace, c19_pc_result, c19_buf_data. rewrite Hg.
  destruct fv as [o|].
  - destruct (o =? FILL) eqn:Eo; [|destruct dtype_std]; cbn [orb].
    + intros [= <- <-]. rewrite c19_get_upd_same by assumption. repeat split; auto; try discriminate.
      * intros. apply c19_get_upd_other; auto.
      * apply c19_upd_length.
    + intros [= <- <-]. rewrite c19_get_upd_same by assumption. repeat split; auto; try discriminate.
      * intros. apply c19_get_upd_other; auto.
      * apply c19_upd_length.
    + unfold c19_alloc. intros [= <- <-]. rewrite c19_get_app_new. repeat split; auto; try discriminate.
      * intros. apply c19_get_app_old; auto.
      * rewrite app_length; simpl; lia.
      * intros. apply c19_get_app_old; auto.
  - unfold c19_alloc. intros [= <- <-]. rewrite c19_get_app_new. repeat split; auto; try discriminate.
    + intros. apply c19_get_app_old; auto.
    + rewrite app_length; simpl; lia.
    + intros. apply c19_get_app_old; auto.
Qed.

(* the standardised values differ from the given ones exactly when some entry is the caller's
   fill value or a real entry is shifted by a non-zero start index *)
Lemma c19_std_conn_fix x o si : o <> FILL ->
  (c19_std_conn x o si = x <-> Forall (fun v => v <> o /\ (v = FILL \/ si = 0)) x).
Proof.
  intros Ho. unfold c19_std_conn, c19_sub_start, c19_replace_fill.
  induction x as [|v x IH]; simpl.
  - split; auto.
  - split.
    + intros [= Hv Hx]. constructor; [|apply IH; assumption].
      destruct (Z.eqb_spec v o) as [e|ne].
      * exfalso. rewrite e in Hv. rewrite Z.eqb_refl in Hv. congruence.
      * split; auto. destruct (Z.eqb_spec v FILL); auto. right. lia.
    + intros HF. inversion HF as [|? ? [Hvo Hs] HF']; subst. f_equal; [|apply IH; assumption].
      destruct (Z.eqb_spec v o); [contradiction|].
      destruct (Z.eqb_spec v FILL); auto. destruct Hs; [contradiction|lia].
Qed.

Lemma c19_sub_start_fix x si :
  c19_sub_start x si = x <-> Forall (fun v => v = FILL \/ si = 0) x.
Proof.
  unfold c19_sub_start. induction x as [|v x IH]; simpl.
  - split; auto.
  - split.
    + intros [= Hv Hx]. constructor; [|apply IH; assumption].
      destruct (Z.eqb_spec v FILL); auto. right; lia.
    + intros HF. inversion HF as [|? ? Hs HF']; subst. f_equal; [|apply IH; assumption].
      destruct (Z.eqb_spec v FILL); auto. destruct Hs; [contradiction|lia].
Qed.

(* without the protective copy the caller's array would be modified exactly when the in-place
   branch is taken and the standardisation changes a value *)
Lemma c19_pc_nocopy_input_modified h conn x dtype_std fv si h' r :
  c19_get h conn = Some (C19Buf x) ->
  c19_process_connectivity_nocopy h conn dtype_std fv si = (h', r) ->
  (c19_get h' conn <> c19_get h conn <->
   c19_pc_inplace dtype_std fv = true /\ c19_pc_result x fv si <> x).
Proof.
  intros Hg E. destruct (c19_pc_nocopy_spec _ _ _ _ _ _ _ _ Hg E) as (D & O & I & N).
  pose proof (c19_get_lt _ _ _ Hg) as Hlt.
  destruct (c19_pc_inplace dtype_std fv) eqn:P.
  - destruct (I eq_refl) as (-> & G & L). rewrite G, Hg. split.
    + intros H. split; auto. congruence.
    + intros [_ H] [= Hc]. auto.
  - destruct (N eq_refl) as (-> & X). rewrite (proj2 X) by assumption. split.
    + intros H; contradiction.
    + intros [H _]; discriminate.
Qed.

(* C19_inputs for the connectivity arguments of from_topology: never writes into an existing
   cell, the result is a new array holding the standardised values *)
Lemma c19_pc_spec h conn x dtype_std fv si h' r :
  c19_get h conn = Some (C19Buf x) ->
  c19_process_connectivity h conn dtype_std fv si = (h', r) ->
  c19_ext h h' /\ r = length h /\ c19_buf_data h' r = c19_pc_result x fv si.
Proof.
  intros Hg. unfold c19_process_connectivity, c19_pc_result, c19_buf_data. rewrite Hg.
  destruct fv as [o|]; [destruct (o =? FILL)|]; unfold c19_alloc; intros [= <- <-];
    rewrite c19_get_app_new; repeat split; auto;
    try (rewrite app_length; simpl; lia); intros; apply c19_get_app_old; auto.
Qed.

(* witness for the variant without the copy: int64 table with fill -1 and start_index 1 *)
Lemma c19_pc_nocopy_refuted : exists h conn dtype_std fv si,
  let '(h', r) := c19_process_connectivity_nocopy h conn dtype_std fv si in
  c19_get h' conn <> c19_get h conn.
Proof.
  exists [C19Buf [1; 2; 3; -1]], 0%nat, true, (Some (-1)), 1. vm_compute. discriminate.
Qed.

Lemma c19_pc_ext h conn dtype_std fv si :
  c19_ext h (fst (c19_process_connectivity h conn dtype_std fv si)).
Proof.
  unfold c19_process_connectivity. destruct fv as [o|]; [destruct (o =? FILL)|]; apply c19_ext_alloc.
Qed.

(* ------------------------------------------------------------------------- *)
(* constructors only allocate, or write into cells they allocated              *)

Local Open Scope nat_scope.

(* the region [0, n0) is preserved *)
Definition c19_pres (n0 : nat) (h h' : c19_heap) : Prop :=
  length h <= length h' /\ forall i, i < n0 -> c19_get h' i = c19_get h i.

Lemma c19_pres_refl n0 h : c19_pres n0 h h.
Proof. split; auto. Qed.

Lemma c19_pres_trans n0 a b c : c19_pres n0 a b -> c19_pres n0 b c -> c19_pres n0 a c.
Proof. intros [l1 g1] [l2 g2]. split; [lia|]. intros i Hi. rewrite g2, g1; auto. Qed.

Lemma c19_pres_ext n0 h h' : c19_ext h h' -> n0 <= length h -> c19_pres n0 h h'.
Proof. intros [l g] Hn. split; auto. intros i Hi. apply g. lia. Qed.

Lemma c19_pres_upd n0 h j c : n0 <= j -> c19_pres n0 h (c19_upd h j c).
Proof. intros Hj. split. rewrite c19_upd_length; lia. intros i Hi. apply c19_get_upd_other. lia. Qed.

Lemma c19_pres_is_ext h h' : c19_pres (length h) h h' -> c19_ext h h'.
Proof. intros [l g]. split; auto. Qed.

Lemma c19_add_var_spec h s at' h' v :
  c19_add_var h s at' = (h', v) ->
  c19_ext h h' /\ length h <= v /\ v < length h' /\
  exists b, c19_get h' v = Some (C19Var b (v - 1)) /\
            (match s with C19Alias b0 => b = b0 | C19Fresh data => b = length h /\ c19_get h' b = Some (C19Buf data) end).
Proof.
  unfold c19_add_var. destruct s as [b0|data]; unfold c19_alloc; intros [= <- <-].
  - set (h1 := h ++ [C19Dict at']).
    assert (L1 : length h1 = S (length h)) by (unfold h1; rewrite app_length; simpl; lia).
    repeat split.
    + rewrite app_length; simpl; lia.
    + intros i Hi. rewrite c19_get_app_old by lia. unfold h1. apply c19_get_app_old; auto.
    + lia.
    + rewrite app_length; simpl; lia.
    + exists b0. split; auto. rewrite c19_get_app_new. rewrite L1. simpl. rewrite Nat.sub_0_r. reflexivity.
  - set (h1 := h ++ [C19Buf data]). set (h2 := h1 ++ [C19Dict at']).
    assert (L1 : length h1 = S (length h)) by (unfold h1; rewrite app_length; simpl; lia).
    assert (L2 : length h2 = S (S (length h))) by (unfold h2; rewrite app_length; simpl; lia).
    repeat split.
    + rewrite app_length; simpl; lia.
    + intros i Hi. rewrite c19_get_app_old by lia. unfold h2. rewrite c19_get_app_old by lia.
      unfold h1. apply c19_get_app_old; auto.
    + lia.
    + rewrite app_length; simpl; lia.
    + exists (length h). split; [|split; auto].
      * rewrite c19_get_app_new. rewrite L2, L1. simpl. reflexivity.
      * rewrite c19_get_app_old by lia. unfold h2. rewrite c19_get_app_old by lia. apply c19_get_app_new.
Qed.

Lemma c19_add_vars_spec : forall l h h' vars,
  c19_add_vars h l = (h', vars) ->
  c19_ext h h' /\ map fst vars = map (fun e => fst (fst e)) l /\
  forall n v, In (n, v) vars -> length h <= v < length h'.
Proof.
  induction l as [|[[n s] at'] l IH]; intros h h' vars; cbn [c19_add_vars].
  - intros [= <- <-]. split; [apply c19_ext_refl|]. split; auto. intros ? ? [].
  - destruct (c19_add_var h s at') as [h1 v] eqn:E1.
    destruct (c19_add_vars h1 l) as [h2 t'] eqn:E2. intros [= <- <-].
    destruct (c19_add_var_spec _ _ _ _ _ E1) as (X1 & Lv & Lv' & _).
    destruct (IH _ _ _ E2) as (X2 & M & R).
    split; [eapply c19_ext_trans; eauto|]. split.
    + cbn [map fst]. f_equal. exact M.
    + intros n0 v0 [[= <- <-]|Hin].
      * destruct X2. lia.
      * apply R in Hin. destruct X1. lia.
Qed.

Lemma c19_new_ds_spec h l g h' d :
  c19_new_ds h l g = (h', d) ->
  c19_ext h h' /\ length h <= d /\
  exists vars a, c19_get h' d = Some (C19Ds vars a) /\ length h <= a /\
                 map fst vars = map (fun e => fst (fst e)) l /\
                 forall n v, In (n, v) vars -> length h <= v.
Proof.
  unfold c19_new_ds. destruct (c19_add_vars h l) as [h1 vars] eqn:E1. unfold c19_alloc.
  intros [= <- <-]. destruct (c19_add_vars_spec _ _ _ _ E1) as (X1 & M & R).
  set (h2 := h1 ++ [C19Dict g]).
  assert (L2 : length h2 = S (length h1)) by (unfold h2; rewrite app_length; simpl; lia).
  destruct X1 as [l1 g1].
  repeat split.
  - rewrite app_length; simpl; lia.
  - intros i Hi. rewrite c19_get_app_old by lia. unfold h2. rewrite c19_get_app_old by lia. auto.
  - lia.
  - exists vars, (length h1). rewrite c19_get_app_new. repeat split; auto.
    intros n v Hin. apply R in Hin. lia.
Qed.

(* SetData through a root whose Variable cells are all fresh writes only fresh cells *)
Lemma c19_setdata_pres n0 h d vars a n x :
  c19_get h d = Some (C19Ds vars a) -> (forall m v, In (m, v) vars -> n0 <= v) ->
  let h' := c19_apply h d (C19SetData n x) in
  c19_pres n0 h h' /\ c19_get h' d = Some (C19Ds vars a).
Proof.
  intros Hd Hv. unfold c19_apply. rewrite Hd.
  destruct (c19_find n vars) as [v|] eqn:Hf; [|split; [apply c19_pres_refl|assumption]].
  apply c19_find_In in Hf.
  destruct (c19_get h v) as [[| |b va|]|] eqn:Hg; try (split; [apply c19_pres_refl|assumption]).
  unfold c19_alloc. pose proof (c19_get_lt _ _ _ Hd) as Hdl. pose proof (c19_get_lt _ _ _ Hg) as Hvl.
  split.
  - split.
    + rewrite c19_upd_length, app_length; simpl; lia.
    + intros i Hi. rewrite c19_get_upd_other by (apply Hv in Hf; lia).
      destruct (Nat.lt_ge_cases i (length h)).
      * apply c19_get_app_old; auto.
      * rewrite (c19_get_ge h) by assumption. apply Hv in Hf. lia.
  - rewrite c19_get_upd_other by (intros ->; congruence). rewrite c19_get_app_old by assumption. exact Hd.
Qed.

Lemma c19_fix_lon_pres n0 h d vars a name :
  c19_get h d = Some (C19Ds vars a) -> (forall m v, In (m, v) vars -> n0 <= v) ->
  c19_pres n0 h (c19_fix_lon h d name) /\ c19_get (c19_fix_lon h d name) d = Some (C19Ds vars a).
Proof.
  intros Hd Hv. unfold c19_fix_lon. rewrite Hd.
  destruct (c19_find name vars) as [v|]; [|split; [apply c19_pres_refl|assumption]].
  destruct (c19_get h v) as [[| |b va|]|]; try (split; [apply c19_pres_refl|assumption]).
  destruct (c19_lon_over (c19_buf_data h b)); [|split; [apply c19_pres_refl|assumption]].
  apply c19_setdata_pres; auto.
Qed.


(* roots whose Dataset / Variable / attrs cells are all fresh (>= n0): buffers may be shared  *)
Definition c19_freshshell (n0 : nat) (h : c19_heap) (d : nat) (vars : list (Z * nat)) (a : nat) : Prop :=
  c19_get h d = Some (C19Ds vars a) /\ n0 <= d /\ n0 <= a /\
  forall m v, In (m, v) vars -> n0 <= v /\ forall b va, c19_get h v = Some (C19Var b va) -> n0 <= va.

Lemma c19_freshshell_setdata n0 h d vars a n x :
  c19_freshshell n0 h d vars a -> n0 <= length h ->
  let h' := c19_apply h d (C19SetData n x) in
  c19_pres n0 h h' /\ c19_freshshell n0 h' d vars a.
Proof.
  intros (Hd & Hdd & Ha & Hv) Hn.
  destruct (c19_setdata_pres n0 h d vars a n x Hd (fun m v Hin => proj1 (Hv m v Hin))) as [P G].
  split; auto. split; auto. split; auto. split; auto.
  intros m v Hin. split; [apply (Hv m v Hin)|]. intros b va Hg.
  revert Hg. unfold c19_apply. rewrite Hd.
  destruct (c19_find n vars) as [v1|] eqn:Hf; [|apply (Hv m v Hin)].
  destruct (c19_get h v1) as [[| |b1 va1|]|] eqn:Hg1; try apply (Hv m v Hin).
  unfold c19_alloc. pose proof (c19_get_lt _ _ _ Hg1) as Hl1.
  destruct (Nat.eq_dec v v1) as [->|Hne].
  - rewrite c19_get_upd_same by (rewrite app_length; simpl; lia). intros [= <- <-].
    apply c19_find_In in Hf. eapply (proj2 (Hv _ _ Hf)); eauto.
  - rewrite c19_get_upd_other by assumption.
    destruct (Nat.lt_ge_cases v (length h)).
    + rewrite c19_get_app_old by assumption. apply (Hv m v Hin).
    + destruct (Nat.eq_dec v (length h)) as [->|Hne2].
      * rewrite c19_get_app_new. discriminate.
      * rewrite c19_get_ge by (rewrite app_length; simpl; lia). discriminate.
Qed.

Lemma c19_freshshell_setattr n0 h d vars a n k x :
  c19_freshshell n0 h d vars a ->
  let h' := c19_apply h d (C19SetAttr n k x) in
  c19_pres n0 h h' /\ c19_freshshell n0 h' d vars a.
Proof.
  intros (Hd & Hdd & Ha & Hv).
  assert (Leaf : forall j kv kv', c19_get h j = Some (C19Dict kv) -> n0 <= j ->
            c19_pres n0 h (c19_upd h j (C19Dict kv')) /\ c19_freshshell n0 (c19_upd h j (C19Dict kv')) d vars a).
  { intros j kv kv' Hj Hnj. split; [apply c19_pres_upd; auto|].
    assert (Hjd : j <> d) by (intros ->; congruence).
    split; [rewrite c19_get_upd_other; auto|]. split; auto. split; auto.
    intros m v Hin. split; [apply (Hv m v Hin)|]. intros b va Hg.
    destruct (Nat.eq_dec v j) as [->|Hne].
    - rewrite c19_get_upd_same in Hg by (eapply c19_get_lt; eauto). discriminate.
    - rewrite c19_get_upd_other in Hg by assumption. eapply (proj2 (Hv m v Hin)); eauto. }
  assert (Triv : c19_pres n0 h h /\ c19_freshshell n0 h d vars a)
    by (exact (conj (c19_pres_refl n0 h) (conj Hd (conj Hdd (conj Ha Hv))))).
  unfold c19_apply. rewrite Hd. destruct (n =? -1)%Z.
  - destruct (c19_get h a) as [[|kv| |]|] eqn:Hga; auto. eapply Leaf; eauto.
  - destruct (c19_find n vars) as [v|] eqn:Hf; auto. apply c19_find_In in Hf.
    destruct (c19_get h v) as [[| |b va|]|] eqn:Hg; auto.
    destruct (c19_get h va) as [[|kv| |]|] eqn:Hgva; auto.
    eapply Leaf; eauto. eapply (proj2 (Hv _ _ Hf)); eauto.
Qed.

Lemma c19_freshshell_setvar n0 h d vars a n data at' :
  c19_freshshell n0 h d vars a -> n0 <= length h ->
  let h' := c19_apply h d (C19SetVar n data at') in
  c19_pres n0 h h' /\ exists vars', c19_freshshell n0 h' d vars' a.
Proof.
  intros (Hd & Hdd & Ha & Hv) Hn. pose proof (c19_get_lt _ _ _ Hd) as Hdl.
  unfold c19_apply. rewrite Hd. unfold c19_alloc. cbn [fst snd].
  set (h1 := h ++ [C19Buf data]). set (h2 := h1 ++ [C19Dict at']).
  assert (L1 : length h1 = S (length h)) by (unfold h1; rewrite app_length; simpl; lia).
  assert (L2 : length h2 = S (S (length h))) by (unfold h2; rewrite app_length; simpl; lia).
  set (h3 := h2 ++ [C19Var (length h) (length h1)]).
  assert (L3 : length h3 = S (S (S (length h)))) by (unfold h3; rewrite app_length; simpl; lia).
  assert (Old : forall i, i < length h -> c19_get h3 i = c19_get h i).
  { intros i Hi. unfold h3. rewrite c19_get_app_old by lia. unfold h2. rewrite c19_get_app_old by lia.
    unfold h1. apply c19_get_app_old; auto. }
  assert (Gv : c19_get h3 (length h2) = Some (C19Var (length h) (length h1))) by apply c19_get_app_new.
  split.
  - split; [rewrite c19_upd_length; lia|]. intros i Hi.
    rewrite c19_get_upd_other by lia.
    destruct (Nat.lt_ge_cases i (length h)); [apply Old; auto|lia].
  - exists (c19_set n (length h2) vars). split; [apply c19_get_upd_same; lia|]. split; auto. split; auto.
    intros m v Hin. apply c19_set_In in Hin. destruct Hin as [[= -> ->]|Hin].
    + split; [lia|]. intros b va. rewrite c19_get_upd_other by lia. rewrite Gv. intros [= <- <-]. lia.
    + split; [apply (Hv m v Hin)|]. intros b va Hg.
      destruct (Nat.eq_dec v d) as [->|Hne].
      * rewrite c19_get_upd_same in Hg by lia. discriminate.
      * rewrite c19_get_upd_other in Hg by assumption.
        destruct (Nat.lt_ge_cases v (length h)) as [Hlt|Hge].
        -- rewrite Old in Hg by assumption. eapply (proj2 (Hv m v Hin)); eauto.
        -- destruct (Nat.eq_dec v (length h2)) as [->|Hn2].
           ++ rewrite Gv in Hg. injection Hg as <- <-. lia.
           ++ destruct (Nat.eq_dec v (length h)) as [->|Hn0].
              ** unfold h3 in Hg. rewrite c19_get_app_old in Hg by lia. unfold h2 in Hg.
                 rewrite c19_get_app_old in Hg by lia. unfold h1 in Hg. rewrite c19_get_app_new in Hg. discriminate.
              ** destruct (Nat.eq_dec v (length h1)) as [->|Hn1].
                 --- unfold h3 in Hg. rewrite c19_get_app_old in Hg by lia. unfold h2 in Hg.
                     rewrite c19_get_app_new in Hg. discriminate.
                 --- rewrite c19_get_ge in Hg by lia. discriminate.
Qed.

Lemma c19_freshshell_delvar n0 h d vars a n :
  c19_freshshell n0 h d vars a ->
  let h' := c19_apply h d (C19DelVar n) in
  c19_pres n0 h h' /\ exists vars', c19_freshshell n0 h' d vars' a.
Proof.
  intros (Hd & Hdd & Ha & Hv). pose proof (c19_get_lt _ _ _ Hd) as Hdl.
  unfold c19_apply. rewrite Hd. split; [apply c19_pres_upd; auto|].
  exists (c19_del n vars). split; [apply c19_get_upd_same; auto|]. split; auto. split; auto.
  intros m v Hin. apply c19_del_In in Hin. split; [apply (Hv m v Hin)|]. intros b va Hg.
  destruct (Nat.eq_dec v d) as [->|Hne].
  - rewrite c19_get_upd_same in Hg by assumption. discriminate.
  - rewrite c19_get_upd_other in Hg by assumption. eapply (proj2 (Hv m v Hin)); eauto.
Qed.

Definition c19_not_writebuf (o : c19_op) : bool :=
  match o with C19WriteBuf _ _ => false | _ => true end.

(* every mutator except an in-place buffer write stays inside the fresh shell *)
Lemma c19_freshshell_apply n0 h d vars a o :
  c19_freshshell n0 h d vars a -> n0 <= length h -> c19_not_writebuf o = true ->
  c19_pres n0 h (c19_apply h d o) /\ exists vars', c19_freshshell n0 (c19_apply h d o) d vars' a.
Proof.
  intros FS Hn Ho. destruct o as [n data at'|n data|n data|n k x|n]; try discriminate.
  - apply (c19_freshshell_setvar n0 h d vars a n data at' FS Hn).
  - destruct (c19_freshshell_setdata n0 h d vars a n data FS Hn). split; eauto.
  - destruct (c19_freshshell_setattr n0 h d vars a n k x FS). split; eauto.
  - apply (c19_freshshell_delvar n0 h d vars a n FS).
Qed.

Lemma c19_freshshell_run n0 : forall ops h d vars a,
  c19_freshshell n0 h d vars a -> n0 <= length h -> forallb c19_not_writebuf ops = true ->
  c19_pres n0 h (c19_run h d ops).
Proof.
  induction ops as [|o ops IH]; intros h d vars a FS Hn Ho; simpl; [apply c19_pres_refl|].
  simpl in Ho. apply andb_true_iff in Ho. destruct Ho as [Ho1 Ho2].
  destruct (c19_freshshell_apply n0 h d vars a o FS Hn Ho1) as (P & vars' & FS').
  eapply c19_pres_trans; [exact P|]. eapply IH; eauto. destruct P. lia.
Qed.

Lemma c19_shallow_vars_spec : forall vars h h' vars',
  c19_shallow_vars h vars = (h', vars') ->
  c19_ext h h' /\
  forall m v, In (m, v) vars' -> length h <= v /\ forall b va, c19_get h' v = Some (C19Var b va) -> length h <= va.
Proof.
  induction vars as [|[n v] vars IH]; intros h h' vars'; cbn [c19_shallow_vars].
  - intros [= <- <-]. split; [apply c19_ext_refl|]. intros ? ? [].
  - destruct (c19_shallow_var h v) as [h1 nv] eqn:E1.
    destruct (c19_shallow_vars h1 vars) as [h2 t'] eqn:E2. intros [= <- <-].
    destruct (IH _ _ _ E2) as (X2 & R2).
    assert (S1 : c19_ext h h1 /\ length h <= nv /\ nv < length h1 /\
                 forall b va, c19_get h1 nv = Some (C19Var b va) -> length h <= va).
    { unfold c19_shallow_var in E1.
      destruct (c19_get h v) as [[| |b a|]|]; unfold c19_alloc in E1.
      3:{ injection E1 as <- <-.
          set (ac := match c19_get h a with Some c => c | None => C19Dict [] end).
          assert (L1 : length (h ++ [ac]) = S (length h)) by (rewrite app_length; simpl; lia).
          split; [|split; [lia|split]].
          - split; [rewrite !app_length; simpl; lia|].
            intros i Hi. rewrite c19_get_app_old by lia. apply c19_get_app_old; auto.
          - rewrite !app_length; simpl; lia.
          - rewrite c19_get_app_new. intros ? ? [= <- <-]. lia. }
      all: injection E1 as <- <-; (split; [apply (c19_ext_alloc h)|split; [lia|split]]);
        [rewrite app_length; simpl; lia| rewrite c19_get_app_new; discriminate]. }
    destruct S1 as (X1 & Lnv & Lnv' & A1).
    split; [eapply c19_ext_trans; eauto|].
    intros m v0 [[= <- <-]|Hin].
    + split; auto. intros b va Hg. rewrite (proj2 X2) in Hg by assumption. eauto.
    + destruct (R2 _ _ Hin) as [A B]. destruct X1. split; [lia|]. intros b va Hg. apply B in Hg. lia.
Qed.

Lemma c19_rename_ds_spec h d h' d' :
  c19_rename_ds h d = (h', d') ->
  c19_ext h h' /\ length h <= d' /\ exists vars a, c19_freshshell (length h) h' d' vars a.
Proof.
  unfold c19_rename_ds.
  set (va := match c19_get h d with
             | Some (C19Ds vars a) => (vars, match c19_get h a with Some c => c | None => C19Dict [] end)
             | _ => ([], C19Dict [])
             end).
  destruct va as [vars ac]. unfold c19_alloc.
  destruct (c19_shallow_vars (h ++ [ac]) vars) as [h2 vars'] eqn:E2. intros [= <- <-].
  destruct (c19_shallow_vars_spec _ _ _ _ E2) as (X2 & R2).
  assert (L1 : length (h ++ [ac]) = S (length h)) by (rewrite app_length; simpl; lia).
  assert (X1 : c19_ext h (h ++ [ac])) by (apply (c19_ext_alloc h ac)).
  assert (X3 : c19_ext h2 (h2 ++ [C19Ds vars' (length h)])) by (apply (c19_ext_alloc h2)).
  destruct X2 as [l2 g2].
  split; [eapply c19_ext_trans; [exact X1|eapply c19_ext_trans; [split; eauto|exact X3]]|].
  split; [lia|]. exists vars', (length h). split; [apply c19_get_app_new|]. split; [lia|]. split; [lia|].
  intros m v Hin. destruct (R2 _ _ Hin) as [A B]. split; [lia|]. intros b va0 Hg.
  destruct (Nat.lt_ge_cases v (length h2)).
  - rewrite c19_get_app_old in Hg by assumption. apply B in Hg. lia.
  - destruct (Nat.eq_dec v (length h2)) as [->|Hne].
    + rewrite c19_get_app_new in Hg. discriminate.
    + rewrite c19_get_ge in Hg by (rewrite app_length; simpl; lia). discriminate.
Qed.

(* Grid.__init__ (own shallow copy, longitude pass): nothing that existed is written, the grid's
   Dataset / Variable / attrs objects are its own *)
Lemma c19_grid_init_spec h d h' g :
  c19_grid_init h d = (h', g) ->
  c19_ext h h' /\ length h <= g /\ exists vars a, c19_freshshell (length h) h' g vars a.
Proof.
  unfold c19_grid_init. destruct (c19_rename_ds h d) as [h1 d1] eqn:E1. intros [= <- <-].
  destruct (c19_rename_ds_spec _ _ _ _ E1) as (X1 & Ld & vars & a & FS).
  pose proof (proj1 X1) as L1.
  assert (Step : forall hh name, c19_freshshell (length h) hh d1 vars a -> length h <= length hh ->
            c19_pres (length h) hh (c19_fix_lon hh d1 name) /\
            c19_freshshell (length h) (c19_fix_lon hh d1 name) d1 vars a /\ length h <= length (c19_fix_lon hh d1 name)).
  { intros hh name FSh Lh. pose proof FSh as (Hd & _).
    assert (T : c19_pres (length h) hh hh /\ c19_freshshell (length h) hh d1 vars a /\ length h <= length hh)
      by (split; [apply c19_pres_refl|split; auto]).
    unfold c19_fix_lon. rewrite Hd.
    destruct (c19_find name vars) as [v|]; auto.
    destruct (c19_get hh v) as [[| |b va|]|]; auto.
    destruct (c19_lon_over (c19_buf_data hh b)); auto.
    destruct (c19_freshshell_setdata (length h) hh d1 vars a name (c19_wrap_lon (c19_buf_data hh b)) FSh Lh) as [P F2].
    split; auto. split; auto. destruct P. lia. }
  destruct (Step h1 c19_NODE_LON FS L1) as (P1 & F1 & M1).
  destruct (Step _ c19_EDGE_LON F1 M1) as (P2 & F2 & M2).
  destruct (Step _ c19_FACE_LON F2 M2) as (P3 & F3 & M3).
  split; [|split; [assumption|eauto]].
  apply c19_pres_is_ext. eapply c19_pres_trans; [apply c19_pres_ext; [exact X1|lia]|].
  eapply c19_pres_trans; [exact P1|]. eapply c19_pres_trans; [exact P2|exact P3].
Qed.

(* C19_inputs for Grid(ds) / from_dataset(ds, source_grid_spec=...): building writes nothing of the
   caller's dataset, and no later public mutator of the grid (setters, lazy derivation, data
   replacement, attrs edits - everything but an in-place numpy write) does either *)
Lemma c19_grid_init_inputs h d h' g ops :
  c19_grid_init h d = (h', g) -> forallb c19_not_writebuf ops = true ->
  c19_ext h h' /\ length h <= g /\ c19_ext h (c19_run h' g ops).
Proof.
  intros E Ho. destruct (c19_grid_init_spec _ _ _ _ E) as (X & Lg & vars & a & FS).
  split; auto. split; auto.
  apply c19_pres_is_ext. eapply c19_pres_trans; [apply c19_pres_ext; [exact X|lia]|].
  eapply c19_freshshell_run; eauto. apply X.
Qed.

Lemma c19_grid_init_flags_spec h d over h' g :
  c19_grid_init_flags h d over = (h', g) -> c19_ext h h' /\ length h <= g.
Proof.
  unfold c19_grid_init_flags. destruct (c19_rename_ds h d) as [h1 d1] eqn:E1. intros [= <- <-].
  destruct (c19_rename_ds_spec _ _ _ _ E1) as (X1 & Ld & vars & a & FS). split; auto.
  apply c19_pres_is_ext. eapply c19_pres_trans; [apply c19_pres_ext; [exact X1|lia]|].
  pose proof (proj1 X1) as L1. clear E1 X1.
  revert h1 FS L1. induction over as [|n over IH]; intros h1 FS L1; cbn [fold_left]; [apply c19_pres_refl|].
  destruct (c19_freshshell_setdata (length h) h1 d1 vars a n [n] FS L1) as [P F2].
  eapply c19_pres_trans; [exact P|]. apply IH; auto. destruct P. lia.
Qed.

(* C19_inputs for the table-driven readers (MPAS, Exodus, SCRIP, ESMF, GEOS-CS, ICON): whatever
   the table and the input dataset, no existing cell is written *)
Lemma c19_read_table_inputs h d t cg over h' g :
  c19_read_table h d t cg over = (h', g) -> c19_ext h h' /\ length h <= g.
Proof.
  unfold c19_read_table.
  destruct (c19_new_ds h (c19_table_sources h d t) (if cg then c19_ds_gattrs h d else [])) as [h1 d1] eqn:E.
  destruct (c19_new_ds_spec _ _ _ _ _ E) as (X & _).
  intros Hr. destruct (c19_grid_init_flags_spec _ _ _ _ _ Hr) as [X2 L2].
  split; [eapply c19_ext_trans; eauto|]. destruct X. lia.
Qed.

Lemma c19_process_all_ext : forall l h dtype_std fv si h' cv,
  c19_process_all h l dtype_std fv si = (h', cv) -> c19_ext h h'.
Proof.
  induction l as [|[n b] l IH]; intros h dtype_std fv si h' cv; cbn [c19_process_all].
  - intros [= <- <-]. apply c19_ext_refl.
  - destruct (c19_process_connectivity h b dtype_std fv si) as [h1 r] eqn:E1.
    destruct (c19_process_all h1 l dtype_std fv si) as [h2 t'] eqn:E2. intros [= <- <-].
    eapply c19_ext_trans; [|eapply IH; eauto].
    pose proof (c19_pc_ext h b dtype_std fv si) as X. rewrite E1 in X. exact X.
Qed.

(* C19_inputs for from_topology / open_grid(dict): no argument cell is written, whatever the arguments *)
Lemma c19_from_topology_inputs h coords conns dtype_std fv si h' g :
  c19_from_topology h coords conns dtype_std fv si = (h', g) ->
  c19_ext h h' /\ length h <= g.
Proof.
  unfold c19_from_topology.
  destruct (c19_process_all h conns dtype_std fv si) as [h1 cv] eqn:E1.
  match goal with |- context [c19_new_ds h1 ?l ?g0] => destruct (c19_new_ds h1 l g0) as [h2 d] eqn:E2 end.
  intros Hr.
  pose proof (c19_process_all_ext _ _ _ _ _ _ _ E1) as X1.
  destruct (c19_new_ds_spec _ _ _ _ _ E2) as (X2 & _).
  destruct (c19_grid_init_spec _ _ _ _ Hr) as (X3 & L3 & _).
  split; [eapply c19_ext_trans; [exact X1|eapply c19_ext_trans; eauto]|].
  destruct X1, X2. lia.
Qed.

Lemma c19_standardize_pres n0 h d vars a name dtype_std :
  c19_freshshell n0 h d vars a -> n0 <= length h ->
  let h' := c19_standardize h d name dtype_std in
  c19_pres n0 h h' /\ c19_freshshell n0 h' d vars a /\ n0 <= length h'.
Proof.
  intros FS Hn. pose proof FS as (Hd & _).
  assert (Triv : c19_pres n0 h h /\ c19_freshshell n0 h d vars a /\ n0 <= length h)
    by (split; [apply c19_pres_refl|split; auto]).
  unfold c19_standardize. rewrite Hd.
  destruct (c19_find name vars) as [v|]; auto.
  destruct (c19_get h v) as [[| |b va|]|]; auto.
  match goal with |- context [c19_apply h d (C19SetData name ?x2)] =>
    destruct (c19_freshshell_setdata n0 h d vars a name x2 FS Hn) as [P1 FS1];
    set (h1 := c19_apply h d (C19SetData name x2)) in * end.
  destruct (c19_freshshell_setattr n0 h1 d vars a name c19_K_FILLVALUE FILL FS1) as [P2 FS2].
  set (h2 := c19_apply h1 d (C19SetAttr name c19_K_FILLVALUE FILL)) in *.
  destruct (c19_freshshell_setattr n0 h2 d vars a name c19_K_START 0%Z FS2) as [P3 FS3].
  split; [eapply c19_pres_trans; [exact P1|eapply c19_pres_trans; eauto]|]. split; auto.
  destruct P1, P2, P3. lia.
Qed.

Lemma c19_standardize_all_pres : forall names n0 h d vars a dtype_std,
  c19_freshshell n0 h d vars a -> n0 <= length h ->
  let h' := fold_left (fun hh n => c19_standardize hh d n dtype_std) names h in
  c19_pres n0 h h' /\ c19_freshshell n0 h' d vars a.
Proof.
  induction names as [|n names IH]; intros n0 h d vars a dtype_std FS Hn; cbn [fold_left].
  - split; [apply c19_pres_refl|assumption].
  - destruct (c19_standardize_pres n0 h d vars a n dtype_std FS Hn) as (P1 & FS1 & L1).
    destruct (IH n0 _ d vars a dtype_std FS1 L1) as (P2 & FS2).
    split; [eapply c19_pres_trans; eauto|assumption].
Qed.

(* C19_inputs for the UGRID reader: no cell of the input dataset is written *)
Lemma c19_read_ugrid_inputs h d names dtype_std h' g :
  c19_read_ugrid h d names dtype_std = (h', g) -> c19_ext h h' /\ length h <= g.
Proof.
  unfold c19_read_ugrid.
  destruct (c19_rename_ds h d) as [h1 d1] eqn:E1.
  destruct (c19_rename_ds_spec _ _ _ _ E1) as (X1 & Ld & vars & a & FS).
  destruct (c19_standardize_all_pres names (length h) h1 d1 vars a dtype_std FS (proj1 X1)) as (P2 & FS2).
  intros Hr. destruct (c19_grid_init_spec _ _ _ _ Hr) as (X3 & L3 & _).
  split.
  - apply c19_pres_is_ext. eapply c19_pres_trans; [apply c19_pres_ext; [exact X1|lia]|].
    eapply c19_pres_trans; [exact P2|]. apply c19_pres_ext; [exact X3|]. destruct X1, P2. lia.
  - destruct X1, P2. lia.
Qed.

(* ------------------------------------------------------------------------- *)
(* exports                                                                     *)

Local Open Scope Z_scope.

(* to_xarray("ugrid"): the returned dataset and the grid are separated *)
Lemma c19_export_independent h d h' e ops :
  c19_wt h d = true -> c19_to_xarray_ugrid h d = (h', e) ->
  c19_obs h' d = c19_obs h d /\
  c19_obs (c19_run h' e ops) d = c19_obs h d /\
  c19_obs (c19_run h' d ops) e = c19_obs h' e.
Proof.
  intros Hwt. unfold c19_to_xarray_ugrid.
  destruct (c19_deepcopy h d) as [h1 d1] eqn:E1. intros [= <- <-].
  destruct (c19_deepcopy_sep h d h1 d1 Hwt E1) as (S & O1 & O2).
  destruct (c19_sep_step h1 d1 d (C19DelVar c19_GRID_TOPOLOGY) (c19_sep_sym _ _ _ S)) as [S1 Q1].
  set (h2 := c19_apply h1 d1 (C19DelVar c19_GRID_TOPOLOGY)) in *.
  destruct (c19_sep_step h2 d1 d (C19SetVar c19_GRID_TOPOLOGY [-1] [(0, 0)]) S1) as [S2 Q2].
  set (h3 := c19_apply h2 d1 (C19SetVar c19_GRID_TOPOLOGY [-1] [(0, 0)])) in *.
  destruct S2 as (W1 & W2 & Dj).
  repeat split.
  - rewrite Q2, Q1. exact O2.
  - rewrite c19_frame_thm; auto. rewrite Q2, Q1. exact O2.
  - rewrite c19_frame_thm; auto. apply c19_disjoint_sym; auto.
Qed.

(* geometry exports: a deep copy is a new object, edits of it never reach the cached one *)
Lemma c19_export_geo_deep h cached c h' e c' :
  c19_get h cached = Some c -> c19_export_geo true h cached = (h', e) ->
  e <> cached /\ c19_get h' e = Some c /\ c19_get (c19_upd h' e c') cached = Some c.
Proof.
  intros Hg. unfold c19_export_geo. rewrite Hg. unfold c19_alloc. intros [= <- <-].
  pose proof (c19_get_lt _ _ _ Hg) as Hl.
  split; [lia|]. split; [apply c19_get_app_new|].
  rewrite c19_get_upd_other by lia. rewrite c19_get_app_old by assumption. exact Hg.
Qed.

(* the cached object itself is handed out: an edit of the export is an edit of the cache *)
Lemma c19_export_geo_shared h cached c c' :
  c19_get h cached = Some c ->
  let '(h', e) := c19_export_geo false h cached in
  e = cached /\ c19_get (c19_upd h' e c') cached = Some c'.
Proof.
  intros Hg. simpl. split; auto. apply c19_get_upd_same. eapply c19_get_lt; eauto.
Qed.

(* ------------------------------------------------------------------------- *)
(* non-vacuity: the hypotheses of the theorems above are met by concrete, non-trivial inputs  *)

Definition c19_ex_lon_heap : c19_heap :=
  [C19Buf [10000000; 200000000]; C19Dict [(0, 0)]; C19Var 0 1; C19Dict []; C19Ds [(c19_NODE_LON, 2%nat)] 3].
Definition c19_ex_topo_heap : c19_heap :=
  [C19Buf [10000000; 20000000; 30000000]; C19Buf [0; 10000000; 0]; C19Buf [1; 2; 3; -1]].
Definition c19_ex_ugrid_heap : c19_heap :=
  [C19Buf [1; 2; 3; -1]; C19Dict [(c19_K_FILLVALUE, -1); (c19_K_START, 1)]; C19Var 0 1;
   C19Dict []; C19Ds [(c19_FNC, 2%nat)] 3].

Example c19_frame_nonvacuous :
  let '(h', d') := c19_deepcopy c19_ex_heap 4%nat in
  c19_sep h' 4%nat d' /\ c19_obs h' d' <> None /\
  c19_obs (c19_run h' 4%nat [C19SetVar c19_NODE_LAT [1; 2] []; C19WriteBuf c19_NODE_LON [5; 5]]) 4%nat
    <> c19_obs h' 4%nat.
Proof.
  destruct (c19_deepcopy c19_ex_heap 4%nat) as [h' d'] eqn:E.
  destruct (c19_deepcopy_sep c19_ex_heap 4%nat h' d' eq_refl E) as (S & O1 & O2).
  split; auto. revert E. vm_compute. intros [= <- <-]. split; discriminate.
Qed.

(* the constructors do something on concrete inputs: the grid wraps the longitude / latitude arrays,
   holds the standardised connectivity in a new array, and the caller's cells are as before *)
Example c19_constructors_nonvacuous :
  (let '(h', g) := c19_from_topology c19_ex_topo_heap [(c19_NODE_LON, (true, 0%nat)); (c19_NODE_LAT, (true, 1%nat))]
                                     [(c19_FNC, 2%nat)] true (Some (-1)) 1 in
   c19_wt h' g = true /\ c19_get h' 2%nat = Some (C19Buf [1; 2; 3; -1]) /\
   c19_alias_table h' g [(1000, 2%nat); (1010, 0%nat); (1011, 1%nat)] = [(c19_NODE_LON, 1010); (c19_NODE_LAT, 1011)] /\
   option_map (c19_buf_data h') (c19_var_buf h' g c19_FNC) = Some [0; 1; 2; FILL]) /\
  (let '(h', g) := c19_read_ugrid c19_ex_ugrid_heap 4%nat [c19_FNC] true in
   c19_wt h' g = true /\ c19_obs h' 4%nat = c19_obs c19_ex_ugrid_heap 4%nat /\
   option_map (c19_buf_data h') (c19_var_buf h' g c19_FNC) = Some [0; 1; 2; FILL]) /\
  (let '(h', g) := c19_grid_init c19_ex_lon_heap 4%nat in
   g <> 4%nat /\ c19_obs h' 4%nat = c19_obs c19_ex_lon_heap 4%nat /\
   option_map (c19_buf_data h') (c19_var_buf h' g c19_NODE_LON) = Some [10000000; -160000000]).
Proof. vm_compute. repeat split; try reflexivity; lia. Qed.

Example c19_pc_nonvacuous :
  c19_get c19_ex_topo_heap 2%nat = Some (C19Buf [1; 2; 3; -1]) /\
  c19_pc_inplace true (Some (-1)) = true /\ c19_pc_result [1; 2; 3; -1] (Some (-1)) 1 = [0; 1; 2; FILL] /\
  c19_pc_inplace false (Some (-1)) = false /\ c19_pc_inplace true None = false.
Proof. vm_compute. repeat split; reflexivity. Qed.

Example c19_read_table_nonvacuous :
  let '(h', g) := c19_read_table c19_ex_ugrid_heap 4%nat [c19_al c19_NODE_LON c19_FNC; c19_fr c19_NODE_LAT c19_FNC; c19_al 7 999] true [c19_NODE_LON] in
  c19_wt h' g = true /\ c19_alias_table h' g [(c19_FNC, 0%nat)] = [] /\
  let '(h2, g2) := c19_read_table c19_ex_ugrid_heap 4%nat [c19_al c19_NODE_LON c19_FNC] true [] in
  c19_alias_table h2 g2 [(c19_FNC, 0%nat)] = [(c19_NODE_LON, c19_FNC)].
Proof. vm_compute. repeat split; reflexivity. Qed.

Example c19_wt_examples :
  c19_wt c19_ex_heap 4%nat = true /\ c19_wt c19_ex_lon_heap 4%nat = true /\ c19_wt c19_ex_ugrid_heap 4%nat = true.
Proof. vm_compute. auto. Qed.

(* ------------------------------------------------------------------------- *)
(* the helper containers of a copied Grid                                      *)

Local Open Scope nat_scope.

Lemma c19_alloc_many_spec : forall cs h h' l,
  c19_alloc_many h cs = (h', l) ->
  c19_ext h h' /\ length l = length cs /\ forall i, In i l -> length h <= i < length h'.
Proof.
  induction cs as [|c cs IH]; intros h h' l; cbn [c19_alloc_many].
  - intros [= <- <-]. split; [apply c19_ext_refl|]. split; auto. intros ? [].
  - unfold c19_alloc. destruct (c19_alloc_many (h ++ [c]) cs) as [h2 l2] eqn:E. intros [= <- <-].
    destruct (IH _ _ _ E) as (X & L & R).
    assert (L1 : length (h ++ [c]) = S (length h)) by (rewrite app_length; simpl; lia).
    split; [eapply c19_ext_trans; [apply (c19_ext_alloc h c)|exact X]|]. split; [simpl; lia|].
    intros i [<-|Hi]; [destruct X; lia|]. apply R in Hi. lia.
Qed.

(* C19_copy for the containers: every container of the copy is a new object, so whatever is stored
   into a container of one grid (a cached frame, collection, tree) leaves every container of the
   other grid as it was *)
Lemma c19_grid_copy_containers h g h' g' :
  c19_grid_copy h g = (h', g') ->
  (forall i, In i (g_aux g') -> length h <= i) /\
  (forall i j c, In i (g_aux g') -> In j (g_aux g) -> j < length h ->
     c19_get (c19_upd h' i c) j = c19_get h' j) /\
  (forall i j c, In i (g_aux g') -> In j (g_aux g) -> j < length h -> i < length h' ->
     c19_get (c19_upd h' j c) i = c19_get h' i).
Proof.
  unfold c19_grid_copy. destruct (c19_copy h (g_ds g)) as [h1 d1] eqn:E1.
  destruct (c19_alloc_many h1 (map (fun _ => C19Dict []) (g_aux g))) as [h2 aux] eqn:E2.
  intros [= <- <-]. cbn [g_aux].
  destruct (c19_alloc_many_spec _ _ _ _ E2) as (X & L & R).
  assert (M : length h <= length h1).
  { unfold c19_copy, c19_deepcopy in E1.
    destruct (c19_get h (g_ds g)) as [[| | |vars a]|].
    all: try (unfold c19_alloc in E1; injection E1 as <- <-; rewrite app_length; simpl; lia).
    destruct (c19_alloc h match c19_get h a with Some c => c | None => C19Dict [] end) as [hA na] eqn:EA.
    destruct (c19_deepcopy_vars hA vars) as [hB vars'] eqn:EB.
    unfold c19_alloc in E1, EA. injection EA as <- <-. injection E1 as <- <-.
    rewrite app_length. simpl.
    assert (G : forall vs hh hh' vv, c19_deepcopy_vars hh vs = (hh', vv) -> length hh <= length hh').
    { induction vs as [|[n v] vs IHv]; intros hh hh' vv; cbn [c19_deepcopy_vars].
      - intros [= <- <-]. lia.
      - destruct (c19_deepcopy_var hh v) as [hx nv] eqn:Ev. destruct (c19_deepcopy_vars hx vs) as [hy t'] eqn:Ew.
        intros [= <- <-]. apply IHv in Ew.
        assert (length hh <= length hx).
        { unfold c19_deepcopy_var in Ev. destruct (c19_get hh v) as [[| |b aa|]|]; unfold c19_alloc in Ev;
            injection Ev as <- <-; rewrite ?app_length; simpl; lia. }
        lia. }
    apply G in EB. rewrite app_length in EB. simpl in EB. lia. }
  repeat split.
  - intros i Hi. apply R in Hi. lia.
  - intros i j c Hi Hj Hjl. apply c19_get_upd_other. apply R in Hi. lia.
  - intros i j c Hi Hj Hjl Hil. apply c19_get_upd_other. apply R in Hi. lia.
Qed.

(* the copy.copy variant shares them: storing into a container of the copy is storing into the
   original's *)
Lemma c19_grid_copy_shallow_refuted : exists h g c,
  let '(h', g') := c19_grid_copy_shallow h g in
  exists i, In i (g_aux g') /\ In i (g_aux g) /\ c19_get (c19_upd h' i c) i <> c19_get h' i.
Proof.
  exists (c19_ex_heap ++ [C19Dict []]), {| g_ds := 4; g_aux := [5] |}, (C19Dict [(1%Z, 1%Z)]).
  vm_compute. exists 5. repeat split; auto. discriminate.
Qed.

(* ------------------------------------------------------------------------- *)
(* sessions: ownership invariant over arbitrary operation sequences            *)

Local Open Scope nat_scope.

(* every live root is well-typed and no two live roots reach a common cell *)
Definition c19_allsep (h : c19_heap) (roots : list nat) : Prop :=
  (forall r, In r roots -> c19_wt h r = true) /\
  (forall i j a b, i <> j -> nth_error roots i = Some a -> nth_error roots j = Some b -> c19_disjoint h a b).

Lemma c19_allsep_op h roots k r o :
  c19_allsep h roots -> nth_error roots k = Some r ->
  c19_allsep (c19_apply h r o) roots /\
  forall j b, j <> k -> nth_error roots j = Some b -> c19_obs (c19_apply h r o) b = c19_obs h b.
Proof.
  intros [Hwt Hdj] Hk.
  assert (Wr : c19_wt h r = true) by (apply Hwt; eapply nth_error_In; eauto).
  assert (Other : forall j b, j <> k -> nth_error roots j = Some b ->
            c19_obs (c19_apply h r o) b = c19_obs h b /\ c19_reach (c19_apply h r o) b = c19_reach h b /\
            c19_wt (c19_apply h r o) b = true /\ c19_disjoint (c19_apply h r o) r b).
  { intros j b Hj Hb.
    assert (Wb : c19_wt h b = true) by (apply Hwt; eapply nth_error_In; eauto).
    assert (D : c19_disjoint h r b) by (eapply (Hdj k j); eauto).
    destruct (c19_run_frame_gen [o] h r b Wr Wb D) as (A & B & C & E & G). simpl in *. auto. }
  split; [split|].
  - intros r' Hin. apply In_nth_error in Hin. destruct Hin as [i Hi].
    destruct (Nat.eq_dec i k) as [->|Hne].
    + rewrite Hk in Hi. injection Hi as <-. apply (c19_apply_ok h r o Wr).
    + apply (Other i r' Hne Hi).
  - intros i j a b Hij Ha Hb.
    destruct (Nat.eq_dec i k) as [->|Hik].
    + rewrite Hk in Ha. injection Ha as <-. apply (Other j b (not_eq_sym Hij) Hb).
    + destruct (Nat.eq_dec j k) as [->|Hjk].
      * rewrite Hk in Hb. injection Hb as <-. apply c19_disjoint_sym. apply (Other i a Hik Ha).
      * destruct (Other i a Hik Ha) as (_ & Ra & _). destruct (Other j b Hjk Hb) as (_ & Rb & _).
        intros x Hx Hc. rewrite Ra in Hx. rewrite Rb in Hc. exact (Hdj i j a b Hij Ha Hb x Hx Hc).
  - intros j b Hj Hb. apply (Other j b Hj Hb).
Qed.

Lemma c19_allsep_copy h roots r h' r' :
  c19_allsep h roots -> In r roots -> c19_deepcopy h r = (h', r') ->
  c19_allsep h' (roots ++ [r']) /\ (forall b, In b roots -> c19_obs h' b = c19_obs h b) /\
  c19_obs h' r' = c19_obs h r.
Proof.
  intros [Hwt Hdj] Hin E.
  destruct (c19_deepcopy_spec h r h' r' (Hwt r Hin) E) as (X & O & W & F).
  assert (Old : forall b, In b roots ->
            c19_reach h' b = c19_reach h b /\ c19_obs h' b = c19_obs h b /\ c19_wt h' b = true).
  { intros b Hb.
    assert (Hs : forall i, In i (c19_reach h b) -> c19_get h' i = c19_get h i).
    { intros i Hi. apply X. eapply c19_wt_reach_lt; eauto. }
    destruct (c19_frame_obs h h' b Hs). repeat split; auto. eapply c19_wt_frame; eauto. }
  split; [split|split]; auto.
  - intros x Hx. apply in_app_or in Hx. destruct Hx as [Hx|[<-|[]]]; auto. apply (Old x Hx).
  - intros i j a b Hij Ha Hb.
    assert (Case : forall idx v, nth_error (roots ++ [r']) idx = Some v ->
              (idx < length roots /\ nth_error roots idx = Some v) \/ (idx = length roots /\ v = r')).
    { intros idx v Hv. destruct (Nat.lt_ge_cases idx (length roots)).
      - left. rewrite nth_error_app1 in Hv by assumption. auto.
      - right. rewrite nth_error_app2 in Hv by assumption.
        destruct (idx - length roots) as [|q] eqn:Eq; simpl in Hv.
        + injection Hv as <-. split; [lia|reflexivity].
        + destruct q; discriminate. }
    assert (NewOld : forall v, In v roots -> c19_disjoint h' v r').
    { intros v Hv x Hx Hc. rewrite (proj1 (Old v Hv)) in Hx.
      pose proof (c19_wt_reach_lt h v (Hwt v Hv) x Hx). apply F in Hc. lia. }
    destruct (Case i a Ha) as [[Li Ha']|[-> ->]]; destruct (Case j b Hb) as [[Lj Hb']|[-> ->]].
    + intros x Hx Hc.
      rewrite (proj1 (Old a (nth_error_In _ _ Ha'))) in Hx. rewrite (proj1 (Old b (nth_error_In _ _ Hb'))) in Hc.
      exact (Hdj i j a b Hij Ha' Hb' x Hx Hc).
    + apply NewOld. eapply nth_error_In; eauto.
    + apply c19_disjoint_sym. apply NewOld. eapply nth_error_In; eauto.
    + congruence.
  - intros b Hb. apply (Old b Hb).
Qed.

Lemma c19_nth_error_last {A} (l : list A) (x : A) : nth_error (l ++ [x]) (length l) = Some x.
Proof. rewrite nth_error_app2 by lia. rewrite Nat.sub_diag. reflexivity. Qed.

(* one step of a session with deep copy / deep export: the invariant is kept, and every root other
   than the one a mutator is applied through reports what it reported before *)
Lemma c19_sstep_ok fl h roots s :
  fl_copy_deep fl = true -> fl_export_deep fl = true -> c19_allsep h roots ->
  let '(h', roots') := c19_sstep fl (h, roots) s in
  c19_allsep h' roots' /\
  forall j b, nth_error roots j = Some b -> match s with C19SOp k _ => j <> k | _ => True end ->
              c19_obs h' b = c19_obs h b.
Proof.
  intros Hc He S. unfold c19_sstep. destruct s as [k|k|k o].
  - destruct (nth_error roots k) as [r|] eqn:Hk; [|split; auto].
    rewrite Hc. destruct (c19_deepcopy h r) as [h' r'] eqn:E.
    destruct (c19_allsep_copy h roots r h' r' S (nth_error_In _ _ Hk) E) as (S' & O & _).
    split; auto. intros j b Hb _. apply O. eapply nth_error_In; eauto.
  - destruct (nth_error roots k) as [r|] eqn:Hk; [|split; auto].
    rewrite He. destruct (c19_deepcopy h r) as [h1 r1] eqn:E.
    destruct (c19_allsep_copy h roots r h1 r1 S (nth_error_In _ _ Hk) E) as (S1 & O1 & _).
    pose proof (c19_nth_error_last roots r1) as Hl.
    destruct (c19_allsep_op h1 (roots ++ [r1]) (length roots) r1 (C19DelVar c19_GRID_TOPOLOGY) S1 Hl) as (S2 & O2).
    destruct (c19_allsep_op _ (roots ++ [r1]) (length roots) r1 (C19SetVar c19_GRID_TOPOLOGY [(-1)%Z] [(0%Z, 0%Z)]) S2 Hl) as (S3 & O3).
    split; auto. intros j b Hb _.
    assert (Lj : j < length roots) by (apply nth_error_Some; congruence).
    assert (Hb' : nth_error (roots ++ [r1]) j = Some b) by (rewrite nth_error_app1; auto).
    rewrite (O3 j b ltac:(lia) Hb'), (O2 j b ltac:(lia) Hb'). apply O1. eapply nth_error_In; eauto.
  - destruct (nth_error roots k) as [r|] eqn:Hk; [|split; auto].
    destruct (c19_allsep_op h roots k r o S Hk) as (S' & O). split; auto.
    intros j b Hb Hj. apply (O j b Hj Hb).
Qed.

(* the ownership invariant holds along every session *)
Lemma c19_session_inv fl : fl_copy_deep fl = true -> fl_export_deep fl = true ->
  forall l w, c19_allsep (fst w) (snd w) -> c19_allsep (fst (c19_srun fl w l)) (snd (c19_srun fl w l)).
Proof.
  intros Hc He. induction l as [|s l IH]; intros [h roots] S; [exact S|].
  change (c19_srun fl (h, roots) (s :: l)) with (c19_srun fl (c19_sstep fl (h, roots) s) l).
  apply IH. pose proof (c19_sstep_ok fl h roots s Hc He S) as K.
  destruct (c19_sstep fl (h, roots) s) as [h' roots']. apply K.
Qed.

(* ... so at every point of every session a further operation leaves all other roots as they were *)
Lemma c19_session_thm fl : fl_copy_deep fl = true -> fl_export_deep fl = true ->
  forall l w s, c19_allsep (fst w) (snd w) ->
  let w1 := c19_srun fl w l in
  forall j b, nth_error (snd w1) j = Some b -> match s with C19SOp k _ => j <> k | _ => True end ->
              c19_obs (fst (c19_sstep fl w1 s)) b = c19_obs (fst w1) b.
Proof.
  intros Hc He l w s S. cbv zeta.
  generalize (c19_session_inv fl Hc He l w S). destruct (c19_srun fl w l) as [h1 roots1].
  cbn [fst snd]. intros S1 j b Hb Hs.
  pose proof (c19_sstep_ok fl h1 roots1 s Hc He S1) as K.
  destruct (c19_sstep fl (h1, roots1) s) as [h' roots']. cbn [fst]. apply (proj2 K j b Hb Hs).
Qed.

(* the flags of the current source *)
Lemma c19_flags_current :
  c19_f_pc_copies = true /\ c19_f_std_copies = true /\ c19_f_init_copies = true /\
  c19_f_copy_deep = true /\ c19_f_export_deep = true /\ c19_f_scrip_copies = true /\
  c19_f_scrip_area_copies = true /\ c19_f_esmf_area_copies = true /\
  c19_f_poly_returns_copy = true /\ c19_f_line_returns_copy = true /\
  c19_f_poly_indices_hit_copy = true /\ c19_f_poly_indices_final_copy = true /\ c19_f_gdf_returns_copy = false.
Proof. repeat split; reflexivity. Qed.

Lemma c19_session_current : forall l w s, c19_allsep (fst w) (snd w) ->
  let w1 := c19_srun c19_sflags_current w l in
  forall j b, nth_error (snd w1) j = Some b -> match s with C19SOp k _ => j <> k | _ => True end ->
              c19_obs (fst (c19_sstep c19_sflags_current w1 s)) b = c19_obs (fst w1) b.
Proof. apply c19_session_thm; reflexivity. Qed.

Local Open Scope Z_scope.

(* without the deep copy (either flag off) a session exists in which a mutation through one root
   changes what another root reports *)
Lemma c19_session_shallow_refuted :
  (exists w l j b, c19_allsep (fst w) (snd w) /\
     let w1 := c19_srun {| fl_copy_deep := false; fl_export_deep := true |} w l in
     nth_error (snd w1) j = Some b /\ j <> 0%nat /\
     c19_obs (fst (c19_sstep {| fl_copy_deep := false; fl_export_deep := true |} w1 (C19SOp 0 (C19SetAttr (-1) 7 7)))) b
       <> c19_obs (fst w1) b) /\
  (exists w l j b, c19_allsep (fst w) (snd w) /\
     let w1 := c19_srun {| fl_copy_deep := true; fl_export_deep := false |} w l in
     nth_error (snd w1) j = Some b /\ j <> 0%nat /\
     c19_obs (fst (c19_sstep {| fl_copy_deep := true; fl_export_deep := false |} w1 (C19SOp 0 (C19SetAttr (-1) 7 7)))) b
       <> c19_obs (fst w1) b).
Proof.
  assert (S0 : c19_allsep c19_ex_heap [4%nat]).
  { split.
    - intros r [<-|[]]. reflexivity.
    - intros i j a b Hij Ha Hb. destruct i as [|[|i]], j as [|[|j]]; simpl in *; try discriminate; congruence. }
  split.
  - exists (c19_ex_heap, [4%nat]), [C19SCopy 0], 1%nat, 4%nat. split; [exact S0|]. vm_compute.
    split; [reflexivity|]. split; [lia|discriminate].
  - exists (c19_ex_heap, [4%nat]), [C19SExport 0], 1%nat, 4%nat. split; [exact S0|]. vm_compute.
    split; [reflexivity|]. split; [lia|discriminate].
Qed.

(* geometry exports with the flags of the source: where the flag is on, the handed-out object is
   never the cached one; for Grid.to_geodataframe (flag off) the caller's edit reaches the cache *)
Lemma c19_export_geo_current h cached c c' :
  c19_get h cached = Some c ->
  (let '(h', e) := c19_export_geo c19_f_poly_returns_copy h cached in
   e <> cached /\ c19_get (c19_upd h' e c') cached = Some c) /\
  (let '(h', e) := c19_export_geo c19_f_line_returns_copy h cached in
   e <> cached /\ c19_get (c19_upd h' e c') cached = Some c) /\
  (let '(h', e) := c19_export_geo c19_f_gdf_returns_copy h cached in
   e = cached /\ c19_get (c19_upd h' e c') cached = Some c').
Proof.
  intros Hg. change c19_f_poly_returns_copy with true. change c19_f_line_returns_copy with true.
  change c19_f_gdf_returns_copy with false.
  destruct (c19_export_geo true h cached) as [h' e] eqn:E.
  destruct (c19_export_geo_deep h cached c h' e c' Hg E) as (A & _ & B).
  repeat split; auto. apply (c19_export_geo_shared h cached c c' Hg).
Qed.

(* non-vacuity: a session with a copy, an export and mutations on a concrete heap *)
Example c19_session_nonvacuous :
  c19_allsep c19_ex_heap [4%nat] /\
  let w1 := c19_srun c19_sflags_current (c19_ex_heap, [4%nat])
                     [C19SCopy 0; C19SExport 1; C19SOp 0 (C19SetVar c19_NODE_LAT [1; 2] []); C19SOp 2 (C19WriteBuf c19_NODE_LON [9; 9])] in
  length (snd w1) = 3%nat /\ c19_changed_roots (c19_ex_heap, [4%nat; 4%nat; 4%nat]) w1 = [0%nat; 1%nat; 2%nat] /\
  c19_changed_roots w1 (c19_sstep c19_sflags_current w1 (C19SOp 1 (C19SetAttr (-1) 7 7))) = [1%nat].
Proof.
  split.
  - split.
    + intros r [<-|[]]. reflexivity.
    + intros i j a b Hij Ha Hb. destruct i as [|[|i]], j as [|[|j]]; simpl in *; try discriminate; congruence.
  - vm_compute. repeat split; reflexivity.
Qed.
