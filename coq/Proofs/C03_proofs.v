(* Proofs about Model/C03.v: incidence tables are exact transposes. *)
From Coq Require Import ZifyBool Permutation.
From Verif Require Import Base C03.
Local Open Scope Z_scope.

Lemma is_fill_false x : 0 <= x -> is_fill x = false.
Proof. unfold is_fill, FILL. lia. Qed.
Lemma is_fill_true_iff x : is_fill x = true <-> x = FILL.
Proof. unfold is_fill. apply Z.eqb_eq. Qed.

(* ------------------------------------------------------------------------- *)
(* edge_face: the numba loop                                                   *)

Lemma set_row_length i v l : length (c03_set_row i v l) = length l.
Proof. revert i; induction l as [|x l IH]; intros [|i]; simpl; auto. Qed.

Lemma set_row_nth l : forall i v j d, (i < length l)%nat ->
  nth j (c03_set_row i v l) d = if Nat.eqb i j then v else nth j l d.
Proof.
  induction l as [|x l IH]; intros [|i] v [|j] d Hi; simpl in *; try lia; try reflexivity.
  apply IH. lia.
Qed.

Lemma visit_length st ev : length (c03_visit st ev) = length st.
Proof. unfold c03_visit. apply set_row_length. Qed.

Lemma visit_nth st ev e d : (fst ev < length st)%nat ->
  nth e (c03_visit st ev) d =
  if Nat.eqb (fst ev) e then c03_upd (nth (fst ev) st (FILL, FILL)) (snd ev) else nth e st d.
Proof. intros H. unfold c03_visit. apply set_row_nth. exact H. Qed.

Lemma fold_visit_length evs : forall st, length (fold_left c03_visit evs st) = length st.
Proof. induction evs as [|ev evs IH]; intros st; simpl; [reflexivity|]. rewrite IH. apply visit_length. Qed.

(* row e after the loop = the per-row update folded over exactly the visits of e, in order *)
Lemma fold_visit_nth evs : forall st e,
  Forall (fun ev => (fst ev < length st)%nat) evs -> (e < length st)%nat ->
  nth e (fold_left c03_visit evs st) (FILL, FILL) =
  fold_left c03_upd (map snd (filter (fun ev => Nat.eqb (fst ev) e) evs)) (nth e st (FILL, FILL)).
Proof.
  induction evs as [|ev evs IH]; intros st e Hall He; simpl; [reflexivity|].
  inversion Hall as [|? ? Hev Hall']; subst.
  rewrite IH.
  - rewrite visit_nth by assumption.
    destruct (Nat.eqb (fst ev) e) eqn:E; simpl; [|reflexivity].
    apply Nat.eqb_eq in E. subst e. reflexivity.
  - eapply Forall_impl; [|exact Hall']. intros a Ha. simpl in Ha. rewrite visit_length. exact Ha.
  - rewrite visit_length. exact He.
Qed.

Lemma last_default_irrelevant {A} (l : list A) a b : l <> [] -> last l a = last l b.
Proof.
  induction l as [|x l IH]; intros H; [contradiction|].
  destruct l as [|y l]; [reflexivity|]. simpl in *. apply IH. discriminate.
Qed.

Lemma fold_upd_real rest : forall a b, is_fill a = false ->
  fold_left c03_upd rest (a, b) = (a, last rest b).
Proof.
  induction rest as [|g rest IH]; intros a b Ha; simpl; [reflexivity|].
  unfold c03_upd at 2. simpl fst. rewrite Ha. simpl. rewrite IH by assumption.
  f_equal. destruct rest as [|h rest]; [reflexivity|]. apply last_default_irrelevant. discriminate.
Qed.

Lemma fold_upd_row_of occ : Forall (fun f => 0 <= f) occ ->
  fold_left c03_upd occ (FILL, FILL) = c03_row_of occ.
Proof.
  intros H. destruct occ as [|f rest]; [reflexivity|]. simpl.
  unfold c03_upd at 2. simpl. inversion H; subst.
  apply fold_upd_real. apply is_fill_false. assumption.
Qed.

Lemma events_faces_nonneg fe : forall npf f, 0 <= f -> Forall (fun ev => 0 <= snd ev) (c03_events fe npf f).
Proof.
  induction fe as [|r fe IH]; intros [|k npf] f Hf; simpl; try constructor.
  apply Forall_app. split.
  - apply Forall_forall. intros ev Hin. apply in_map_iff in Hin. destruct Hin as (x & <- & _). simpl. exact Hf.
  - apply IH. lia.
Qed.

(* edge_face_connectivity[e] lists the faces having e among their edges: first the first such
   face, then the last one (or padding when there is only one).  No manifold hypothesis yet. *)
Theorem edge_faces_spec fe npf n e :
  Forall (fun ev => (fst ev < n)%nat) (c03_events fe npf 0) -> (e < n)%nat ->
  nth e (c03_edge_faces fe npf n) (FILL, FILL) = c03_row_of (c03_occ fe npf e).
Proof.
  intros Hall He. unfold c03_edge_faces, c03_occ.
  rewrite fold_visit_nth.
  - rewrite nth_repeat. apply fold_upd_row_of.
    apply Forall_forall. intros g Hg. apply in_map_iff in Hg. destruct Hg as (ev & <- & Hev).
    apply filter_In in Hev. destruct Hev as [Hev _].
    pose proof (events_faces_nonneg fe npf 0 ltac:(lia)) as Hnn. rewrite Forall_forall in Hnn. apply Hnn. exact Hev.
  - rewrite repeat_length. exact Hall.
  - rewrite repeat_length. exact He.
Qed.

(* manifold case: at most two faces per edge -> the row is exactly the face list, padded *)
Corollary edge_faces_boundary fe npf n e f :
  Forall (fun ev => (fst ev < n)%nat) (c03_events fe npf 0) -> (e < n)%nat ->
  c03_occ fe npf e = [f] -> nth e (c03_edge_faces fe npf n) (FILL, FILL) = (f, FILL).
Proof. intros H1 H2 H3. rewrite edge_faces_spec by assumption. rewrite H3. reflexivity. Qed.

Corollary edge_faces_interior fe npf n e f g :
  Forall (fun ev => (fst ev < n)%nat) (c03_events fe npf 0) -> (e < n)%nat ->
  c03_occ fe npf e = [f; g] -> nth e (c03_edge_faces fe npf n) (FILL, FILL) = (f, g).
Proof. intros H1 H2 H3. rewrite edge_faces_spec by assumption. rewrite H3. reflexivity. Qed.

Lemma edge_faces_length fe npf n : length (c03_edge_faces fe npf n) = n.
Proof. unfold c03_edge_faces. rewrite fold_visit_length. apply repeat_length. Qed.

(* ------------------------------------------------------------------------- *)
(* hole edges                                                                  *)

Lemma holes_from_In ef : forall k x,
  In x (c03_holes_from k ef) <-> exists e, x = k + Z.of_nat e /\ (e < length ef)%nat /\ snd (nth e ef (FILL, FILL)) = FILL.
Proof.
  induction ef as [|r ef IH]; intros k x; simpl.
  - split; [intros []|intros (e & _ & He & _); lia].
  - destruct (is_fill (snd r)) eqn:E.
    + simpl. rewrite IH. split.
      * intros [<-|(e & -> & He & Hs)].
        -- exists 0%nat. split; [lia|]. split; [lia|]. apply is_fill_true_iff. exact E.
        -- exists (S e). split; [lia|]. split; [lia|exact Hs].
      * intros (e & -> & He & Hs). destruct e as [|e]; [left; lia|].
        right. exists e. split; [lia|]. split; [lia|exact Hs].
    + rewrite IH. split.
      * intros (e & -> & He & Hs). exists (S e). split; [lia|]. split; [lia|exact Hs].
      * intros (e & -> & He & Hs). destruct e as [|e].
        -- simpl in Hs. apply is_fill_true_iff in Hs. congruence.
        -- exists e. split; [lia|]. split; [lia|exact Hs].
Qed.

(* hole_edge_indices are exactly the edges whose second face slot is padding *)
Theorem hole_edges_spec ef x :
  In x (c03_hole_edges ef) <-> exists e, x = Z.of_nat e /\ (e < length ef)%nat /\ snd (nth e ef (FILL, FILL)) = FILL.
Proof. unfold c03_hole_edges. rewrite holes_from_In. split; intros (e & H1 & H2); exists e; (split; [lia|exact H2]). Qed.

(* ... i.e. exactly the edges with at most one adjacent face (every real edge has at least one) *)
Theorem hole_edges_single fe npf n e :
  Forall (fun ev => (fst ev < n)%nat) (c03_events fe npf 0) -> (e < n)%nat ->
  (In (Z.of_nat e) (c03_hole_edges (c03_edge_faces fe npf n)) <-> (length (c03_occ fe npf e) <= 1)%nat).
Proof.
  intros Hall He. rewrite hole_edges_spec. rewrite edge_faces_length.
  assert (Hnn : Forall (fun f => 0 <= f) (c03_occ fe npf e)).
  { unfold c03_occ. apply Forall_forall. intros g Hg. apply in_map_iff in Hg. destruct Hg as (ev & <- & Hev).
    apply filter_In in Hev. destruct Hev as [Hev _].
    pose proof (events_faces_nonneg fe npf 0 ltac:(lia)) as H. rewrite Forall_forall in H. apply H. exact Hev. }
  split.
  - intros (e' & Heq & _ & Hs). assert (e' = e) by lia. subst e'.
    rewrite edge_faces_spec in Hs by assumption.
    destruct (c03_occ fe npf e) as [|f [|g rest]]; simpl; try lia.
    exfalso. change (snd (c03_row_of (f :: g :: rest))) with (last (g :: rest) FILL) in Hs.
    assert (Hl : In (last (g :: rest) FILL) (g :: rest)).
    { clear. generalize g. induction rest as [|h rest IH]; intros g0; [left; reflexivity|].
      right. apply IH. }
    inversion Hnn as [|? ? _ Hnn']; subst. rewrite Forall_forall in Hnn'. specialize (Hnn' _ Hl).
    rewrite Hs in Hnn'. unfold FILL in Hnn'. lia.
  - intros Hlen. exists e. split; [reflexivity|]. split; [exact He|].
    rewrite edge_faces_spec by assumption.
    destruct (c03_occ fe npf e) as [|f [|g rest]]; simpl in *; try reflexivity. lia.
Qed.

(* ------------------------------------------------------------------------- *)
(* node_face                                                                    *)

Lemma faces_of_node_In t : forall f v g,
  In g (c03_faces_of_node t f v) <->
  exists i r, nth_error t i = Some r /\ g = f + Z.of_nat i /\ In v r /\ v <> FILL.
Proof.
  induction t as [|r t IH]; intros f v g; simpl.
  - split; [intros []|intros (i & r & H & _); destruct i; discriminate].
  - rewrite in_app_iff, IH. split.
    + intros [H|(i & r' & Hn & -> & Hin & Hv)].
      * apply in_map_iff in H. destruct H as (x & <- & Hx). apply filter_In in Hx.
        destruct Hx as [Hx Hb]. apply andb_true_iff in Hb. destruct Hb as [Hb1 Hb2].
        apply Z.eqb_eq in Hb2. subst x.
        exists 0%nat, r. split; [reflexivity|]. split; [lia|]. split; [exact Hx|].
        intros ->. rewrite (proj2 (is_fill_true_iff FILL) eq_refl) in Hb1. discriminate.
      * exists (S i), r'. split; [exact Hn|]. split; [lia|]. split; assumption.
    + intros (i & r' & Hn & -> & Hin & Hv). destruct i as [|i].
      * left. simpl in Hn. inversion Hn; subst r'. apply in_map_iff. exists v. split; [f_equal; lia|].
        apply filter_In. split; [exact Hin|]. apply andb_true_iff. split; [|apply Z.eqb_refl].
        apply negb_true_iff. apply not_true_is_false. intros H. apply is_fill_true_iff in H. contradiction.
      * right. exists i, r'. split; [exact Hn|]. split; [lia|]. split; assumption.
Qed.

Lemma faces_of_node_ge t : forall f v, Forall (fun g => f <= g) (c03_faces_of_node t f v).
Proof.
  induction t as [|r t IH]; intros f v; simpl; [constructor|].
  apply Forall_app. split.
  - apply Forall_forall. intros g Hg. apply in_map_iff in Hg. destruct Hg as (x & <- & _). lia.
  - eapply Forall_impl; [|apply IH]. simpl. intros; lia.
Qed.

Definition real_nodup (r : row) : Prop := NoDup (filter (fun x => negb (is_fill x)) r).

Lemma filter_eq_nodup_le1 (l : list Z) (v : Z) : NoDup l -> (length (filter (fun x => Z.eqb x v) l) <= 1)%nat.
Proof.
  induction 1 as [|x l Hx _ IH]; simpl; [lia|].
  destruct (x =? v) eqn:E; [|exact IH].
  apply Z.eqb_eq in E. subst x. simpl.
  assert (filter (fun x => x =? v) l = []) as ->; [|simpl; lia].
  clear IH. induction l as [|y l IHl]; simpl; [reflexivity|].
  destruct (y =? v) eqn:Ey.
  - apply Z.eqb_eq in Ey. subst y. exfalso. apply Hx. left. reflexivity.
  - apply IHl. intros Hin. apply Hx. right. exact Hin.
Qed.

Lemma faces_of_node_NoDup t : forall f v, Forall real_nodup t -> NoDup (c03_faces_of_node t f v).
Proof.
  induction t as [|r t IH]; intros f v H; simpl; [constructor|].
  inversion H as [|? ? Hr Ht]; subst.
  assert (Hlen : (length (filter (fun x => negb (is_fill x) && (Z.eqb x v)) r) <= 1)%nat).
  { assert (E : filter (fun x => negb (is_fill x) && (x =? v)) r
               = filter (fun x => x =? v) (filter (fun x => negb (is_fill x)) r)).
    { clear. induction r as [|x r IH]; simpl; [reflexivity|].
      destruct (negb (is_fill x)); simpl; [destruct (x =? v); rewrite IH; reflexivity|exact IH]. }
    rewrite E. apply filter_eq_nodup_le1. exact Hr. }
  destruct (filter (fun x => negb (is_fill x) && (x =? v)) r) as [|a [|b l]]; simpl in *; try lia.
  - apply IH. exact Ht.
  - constructor; [|apply IH; exact Ht].
    intros Hin. pose proof (faces_of_node_ge t (f + 1) v) as Hge. rewrite Forall_forall in Hge.
    specialize (Hge _ Hin). lia.
Qed.

(* node_face_connectivity[n] lists face f iff n is a corner of f, each once, padding trailing *)
Theorem node_faces_spec t n v : (v < n)%nat ->
  exists k, nth_error (c03_node_faces t n) v = Some (c03_faces_of_node t 0 (Z.of_nat v) ++ repeat FILL k).
Proof.
  intros Hv. unfold c03_node_faces.
  set (rows := map (fun n0 => c03_faces_of_node t 0 (Z.of_nat n0)) (seq 0 n)).
  exists (c03_maxlen rows - length (c03_faces_of_node t 0 (Z.of_nat v)))%nat.
  assert (Hr : nth_error rows v = Some (c03_faces_of_node t 0 (Z.of_nat v))).
  { subst rows. rewrite (map_nth_error _ v (seq 0 n) (d := v)); [reflexivity|].
    rewrite nth_error_nth' with (d := 0%nat) by (rewrite seq_length; exact Hv).
    rewrite seq_nth by exact Hv. reflexivity. }
  rewrite (map_nth_error _ v rows Hr). reflexivity.
Qed.

Theorem node_faces_member t v g : 
  In g (c03_faces_of_node t 0 v) <-> exists i r, nth_error t i = Some r /\ g = Z.of_nat i /\ In v r /\ v <> FILL.
Proof.
  rewrite faces_of_node_In. split; intros (i & r & H1 & H2 & H3); exists i, r; (split; [exact H1|]); (split; [lia|exact H3]).
Qed.

(* ------------------------------------------------------------------------- *)
(* face_face                                                                   *)

Definition joins (f g : Z) (r : Z * Z) : bool :=
  negb (is_fill (fst r) || is_fill (snd r)) &&
  (((fst r =? f) && (snd r =? g)) || ((fst r =? g) && (snd r =? f))).

(* face_face_connectivity[f] contains g once per interior edge shared by f and g *)
Theorem neighbours_count ef f g : f <> g ->
  count_occ Z.eq_dec (c03_neighbours ef f) g = length (filter (joins f g) ef).
Proof.
  intros Hfg. unfold c03_neighbours.
  induction ef as [|r ef IH]; simpl; [reflexivity|].
  rewrite count_occ_app, IH. clear IH.
  unfold c03_other, joins. destruct r as [a b]. simpl.
  destruct (is_fill a || is_fill b) eqn:E; simpl; [reflexivity|].
  destruct (a =? f) eqn:Ea, (b =? f) eqn:Eb, (b =? g) eqn:Ebg, (a =? g) eqn:Eag; simpl;
    repeat (destruct (Z.eq_dec _ _)); simpl; try lia.
Qed.

Theorem neighbours_real ef f g : In g (c03_neighbours ef f) -> g <> FILL.
Proof.
  unfold c03_neighbours. intros H. apply in_flat_map in H. destruct H as ([a b] & _ & Hin).
  unfold c03_other in Hin. simpl in Hin.
  destruct (is_fill a || is_fill b) eqn:E; [destruct Hin|].
  apply orb_false_iff in E. destruct E as [Ea Eb].
  apply in_app_or in Hin.
  destruct Hin as [Hin|Hin]; [destruct (a =? f)|destruct (b =? f)]; simpl in Hin; try contradiction;
    destruct Hin as [<-|[]]; intros ->; unfold is_fill in *; lia.
Qed.

Theorem face_faces_row ef nf w f : (f < nf)%nat ->
  nth_error (c03_face_faces ef nf w) f =
  Some (c03_neighbours ef (Z.of_nat f) ++ repeat FILL (w - length (c03_neighbours ef (Z.of_nat f)))).
Proof.
  intros Hf. unfold c03_face_faces.
  rewrite (map_nth_error _ f (seq 0 nf) (d := f)); [reflexivity|].
  rewrite nth_error_nth' with (d := 0%nat) by (rewrite seq_length; exact Hf).
  rewrite seq_nth by exact Hf. reflexivity.
Qed.

(* non-vacuity: two triangles sharing one edge *)
Example c03_ex :
  let fe := [[0;1;2];[1;3;4]] in let npf := [3;3] in
  c03_edge_faces fe npf 5 = [(0,FILL);(0,1);(0,FILL);(1,FILL);(1,FILL)]
  /\ c03_hole_edges (c03_edge_faces fe npf 5) = [0;2;3;4]
  /\ c03_face_faces (c03_edge_faces fe npf 5) 2 3 = [[1;FILL;FILL];[0;FILL;FILL]]
  /\ c03_node_faces [[0;1;2];[2;1;3]] 4 = [[0;FILL];[0;1];[0;1];[1;FILL]].
Proof. vm_compute. repeat split. Qed.
