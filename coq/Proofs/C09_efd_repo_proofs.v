(* the verdict for the treatment the current source contains (Gen/C09_efd_repo.v): it equals what the subset derives on its
   own.  With the pre-repair code (the table simply sliced along n_edge) this proof does not go through. *)
From Verif Require Import Base C09_efd C09_efd_proofs C09_efd_repo.

Theorem efd_repo_verdict dist sel l : (length l <= 2)%nat ->
  c09_efd_repo dist sel l = c09_efd_derived dist (c09_efd_kept sel l).
Proof.
  intros H. unfold c09_efd_repo. cbv beta.
  first [ apply efd_carried_is_derived; exact H | reflexivity ].
Qed.
