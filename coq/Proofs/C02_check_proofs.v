From Coq Require Import ZifyBool.
From Verif Require Import Base C02 C02_proofs C02_check.
Local Open Scope Z_scope.

(* the property's clauses for an arbitrary candidate output *)
Definition C02_spec (t : table) (E : list (Z * Z)) (FE : table) (npf : list Z) : Prop :=
  (forall q, In q E -> has_fill q = false) /\
  NoDup (map norm_pair E) /\
  (forall q, In q (map norm_pair E) <-> In q (spec_pairs t)) /\
  (length FE = length t /\
   forall f r fe, nth_error t f = Some r -> nth_error FE f = Some fe ->
     length fe = length r /\
     (forall j, (j < length (corners r))%nat ->
        exists e, nth j fe FILL = Z.of_nat e /\ (e < length E)%nat /\
                  norm_pair (nth e E (FILL, FILL)) = norm_pair (nthP (cyc_pairs (corners r)) j)) /\
     (forall j, (length (corners r) <= j < length fe)%nat -> nth j fe FILL = FILL)) /\
  npf = map (fun r => Z.of_nat (length (corners r))) t.

Lemma mem_In q l : c02_mem q l = true <-> In q l.
Proof.
  unfold c02_mem. rewrite existsb_exists. split.
  - intros (x & Hx & He). apply pair_eqb_eq in He. subst. exact Hx.
  - intros H. exists q. split; [exact H|apply pair_eqb_refl].
Qed.

Lemma nodupb_NoDup l : c02_nodupb l = true <-> NoDup l.
Proof.
  induction l as [|x l IH]; simpl; [split; [constructor|reflexivity]|].
  rewrite andb_true_iff, negb_true_iff, IH. split.
  - intros [Hm Hn]. constructor; [|exact Hn]. intros Hin. apply mem_In in Hin. congruence.
  - intros H. inversion H; subst. split; [|assumption]. apply not_true_is_false. intros Hm. apply mem_In in Hm. contradiction.
Qed.

Lemma subset_incl a b : c02_subset a b = true <-> (forall q, In q a -> In q b).
Proof.
  unfold c02_subset. rewrite forallb_forall. split; intros H q Hq; [apply mem_In, H, Hq|apply mem_In, H, Hq].
Qed.

Lemma listZ_eqb_eq a b : c02_listZ_eqb a b = true <-> a = b.
Proof.
  revert b; induction a as [|x a IH]; intros [|y b]; simpl; split; intros H; try reflexivity; try discriminate.
  - apply andb_true_iff in H. destruct H as [H1 H2]. apply Z.eqb_eq in H1. apply IH in H2. subst. reflexivity.
  - inversion H; subst. rewrite Z.eqb_refl. simpl. apply IH. reflexivity.
Qed.

Lemma nth_skipn' {A} (l : list A) : forall k i d, nth i (skipn k l) d = nth (k + i) l d.
Proof.
  induction l as [|x l IH]; intros [|k] i d; simpl; try reflexivity.
  - destruct i; reflexivity.
  - apply IH.
Qed.

Lemma forallb_skipn_fill fe k :
  forallb is_fill (skipn k fe) = true <-> (forall j, (k <= j < length fe)%nat -> nth j fe FILL = FILL).
Proof.
  rewrite forallb_forall. split.
  - intros H j [Hk Hj].
    assert (Hin : In (nth j fe FILL) (skipn k fe)).
    { replace j with (k + (j - k))%nat by lia. rewrite <- nth_skipn'. apply nth_In. rewrite skipn_length. lia. }
    specialize (H _ Hin). unfold is_fill in H. apply Z.eqb_eq in H. exact H.
  - intros H x Hx. apply In_nth with (d := FILL) in Hx. destruct Hx as (i & Hi & <-).
    rewrite skipn_length in Hi. rewrite nth_skipn'. rewrite H by lia. reflexivity.
Qed.

Lemma check_row_spec E r fe :
  c02_check_row E r fe = true <->
  (length fe = length r /\
   (forall j, (j < length (corners r))%nat ->
      exists e, nth j fe FILL = Z.of_nat e /\ (e < length E)%nat /\
                norm_pair (nth e E (FILL, FILL)) = norm_pair (nthP (cyc_pairs (corners r)) j)) /\
   (forall j, (length (corners r) <= j < length fe)%nat -> nth j fe FILL = FILL)).
Proof.
  unfold c02_check_row. rewrite !andb_true_iff, Nat.eqb_eq, forallb_skipn_fill, forallb_forall. split.
  - intros [[Hl Hj] Hp]. split; [exact Hl|]. split; [|exact Hp].
    intros j Hlt. specialize (Hj j ltac:(apply in_seq; lia)).
    apply andb_true_iff in Hj. destruct Hj as [Hj He]. apply andb_true_iff in Hj. destruct Hj as [H0 H1].
    exists (Z.to_nat (nth j fe FILL)). split; [lia|]. split; [apply Nat.ltb_lt in H1; exact H1|].
    apply pair_eqb_eq in He. exact He.
  - intros (Hl & Hj & Hp). split; [split; [exact Hl|]|exact Hp].
    intros j Hin. apply in_seq in Hin. destruct (Hj j ltac:(lia)) as (e & He & Hlt & Heq).
    rewrite He, Nat2Z.id. apply andb_true_iff. split; [apply andb_true_iff; split; [lia|apply Nat.ltb_lt; exact Hlt]|].
    apply pair_eqb_eq. exact Heq.
Qed.

Lemma check_rows_spec E : forall t FE,
  c02_check_rows E t FE = true <->
  (length FE = length t /\
   forall f r fe, nth_error t f = Some r -> nth_error FE f = Some fe -> c02_check_row E r fe = true).
Proof.
  induction t as [|r t IH]; intros [|fe FE]; simpl.
  - split; [intros _; split; [reflexivity|intros [|f] ? ? H; discriminate]|reflexivity].
  - split; [discriminate|intros [H _]; discriminate].
  - split; [discriminate|intros [H _]; discriminate].
  - rewrite andb_true_iff, IH. split.
    + intros [Hr [Hl Hall]]. split; [lia|]. intros [|f] r0 fe0 H1 H2; simpl in *.
      * inversion H1; inversion H2; subst. exact Hr.
      * eapply Hall; eauto.
    + intros [Hl Hall]. split; [apply (Hall 0%nat); reflexivity|]. split; [lia|].
      intros f r0 fe0 H1 H2. apply (Hall (S f)); assumption.
Qed.

(* the checker decides the specification *)
Theorem check_sound_complete t E FE npf : c02_check t E FE npf = true <-> C02_spec t E FE npf.
Proof.
  unfold c02_check, C02_spec.
  rewrite !andb_true_iff, forallb_forall, nodupb_NoDup, !subset_incl, check_rows_spec, listZ_eqb_eq.
  split.
  - intros [[[[[Hnf Hnd] Hs1] Hs2] [Hl Hrows]] Hnpf].
    split; [intros q Hq; specialize (Hnf q Hq); apply negb_true_iff in Hnf; exact Hnf|].
    split; [exact Hnd|]. split; [intros q; split; [apply Hs1|apply Hs2]|].
    split; [|exact Hnpf]. split; [exact Hl|].
    intros f r fe H1 H2. apply check_row_spec. eapply Hrows; eauto.
  - intros (Hnf & Hnd & Hs & [Hl Hrows] & Hnpf).
    repeat split; try assumption.
    + intros q Hq. apply negb_true_iff. apply Hnf. exact Hq.
    + intros q Hq. apply Hs. exact Hq.
    + intros q Hq. apply Hs. exact Hq.
    + intros f r fe H1 H2. apply check_row_spec. eapply Hrows; eauto.
Qed.

Lemma norm_pair_sorted q : fst q <= snd q -> norm_pair q = q.
Proof. intros H. unfold norm_pair. destruct (fst q <=? snd q) eqn:E; [reflexivity|lia]. Qed.

Lemma map_norm_edges m t : std_table m t -> map norm_pair (edges t) = edges t.
Proof.
  intros Hstd. rewrite <- (map_id (edges t)) at 2. apply map_ext_in. intros q Hq.
  apply norm_pair_sorted. pose proof (edges_real m t q Hstd Hq). lia.
Qed.

Lemma face_edges_length m t : std_table m t -> length (face_edges t m) = length t.
Proof. intros H. rewrite (face_edges_rows m t H). apply map_length. Qed.

(* the model's own output passes the checker, for every standard-form table *)
Theorem model_meets_spec m t : std_table m t ->
  C02_spec t (edges t) (face_edges t m) (n_nodes_per_face t).
Proof.
  intros Hstd. unfold C02_spec. rewrite (map_norm_edges m t Hstd).
  split; [intros q Hq; eapply edges_no_fill; eauto|].
  split; [apply edges_NoDup|]. split; [intros q; apply (edges_iff m t q Hstd)|].
  split.
  - split; [apply face_edges_length; exact Hstd|].
    intros f r fe H1 H2.
    destruct (face_edge_spec m t f r Hstd H1) as (fe' & Hfe & Hlen & Hreal & Hpad).
    rewrite H2 in Hfe. inversion Hfe; subst fe'.
    destruct (npf_spec m t f r Hstd H1) as (_ & Hc & Hr).
    assert (Hrl : length r = m).
    { unfold std_table in Hstd. rewrite Forall_forall in Hstd. apply (Hstd r (nth_error_In _ _ H1)). }
    assert (Hff : first_fill r = length (corners r)).
    { unfold corners. rewrite firstn_length. pose proof (nth_error_In _ _ H1) as Hin.
      unfold std_table in Hstd. rewrite Forall_forall in Hstd. destruct (Hstd r Hin) as [_ Hs].
      destruct (std_row_inv r Hs) as (c & n & Heq & _ & _ & Hfl). rewrite Hfl, Heq, app_length. lia. }
    split; [lia|]. split.
    + intros j Hj. rewrite <- Hff in Hj. destruct (Hreal j Hj) as (e & He1 & He2).
      exists e. split; [apply nth_error_nth with (d := FILL) in He1; exact He1|].
      split; [apply nth_error_Some; rewrite He2; discriminate|].
      apply nth_error_nth with (d := (FILL, FILL)) in He2. rewrite He2.
      unfold norm_pair at 1. destruct (norm_pair (nthP (cyc_pairs (corners r)) j)) as [a b] eqn:En.
      assert (Hab : a <= b).
      { unfold norm_pair in En. destruct (nthP (cyc_pairs (corners r)) j) as [x y]. simpl in En.
        destruct (x <=? y) eqn:E; inversion En; subst; lia. }
      simpl. destruct (a <=? b) eqn:E; [reflexivity|lia].
    + intros j Hj. rewrite <- Hff in Hj. assert (Hj' : (first_fill r <= j < m)%nat) by lia.
      specialize (Hpad j Hj'). apply nth_error_nth with (d := FILL) in Hpad. exact Hpad.
  - unfold n_nodes_per_face. apply map_ext_in. intros r Hr.
    unfold corners. rewrite firstn_length.
    unfold std_table in Hstd. rewrite Forall_forall in Hstd. destruct (Hstd r Hr) as [_ Hs].
    destruct (std_row_inv r Hs) as (c & n & Heq & _ & _ & Hfl). rewrite Hfl, Heq, app_length. f_equal. lia.
Qed.

Corollary model_passes_checker m t : std_table m t ->
  c02_check t (edges t) (face_edges t m) (n_nodes_per_face t) = true.
Proof. intros H. apply check_sound_complete. apply model_meets_spec. exact H. Qed.
