From Coq Require Import String ZifyBool.
From Verif Require Import Base C08.
Local Open Scope Z_scope.

(* ================= (1) lazily derived variables ================= *)

Definition rank (v : c08_var) : nat :=
  match v with
  | V_NPF | V_EN | V_NF | V_NXYZ | V_TOPO => 0
  | V_FE | V_AREAS | V_END | V_FCEN | V_ECEN | V_ENZ => 1
  | V_EF | V_BOUNDS => 2
  | V_FF | V_HOLE | V_EFD => 3
  end.

Lemma deps_rank v d : In d (c08_deps v) -> (rank d < rank v)%nat.
Proof. destruct v; simpl; intuition; subst; simpl; lia. Qed.

Lemma rank_lt_fuel v : (rank v < c08_fuel)%nat.
Proof. destruct v; unfold c08_fuel; simpl; lia. Qed.

Lemma var_eqb_refl v : c08_var_eqb v v = true.
Proof. destruct v; reflexivity. Qed.

Lemma var_eqb_eq a b : c08_var_eqb a b = true -> a = b.
Proof. destruct a, b; simpl; intros H; try reflexivity; discriminate. Qed.

Definition AllCanon (s : c08_state) : Prop := Forall (fun p => snd p = Canon) s.

Lemma lookup_canon s v x : AllCanon s -> c08_lookup s v = Some x -> x = Canon.
Proof.
  induction s as [|[w y] s IH]; simpl; intros H E; [discriminate|].
  inversion H; subst. destruct (c08_var_eqb v w); [inversion E; subst; assumption|apply IH; assumption].
Qed.

Lemma present_cons s v w x : c08_present s v = true -> c08_present ((w, x) :: s) v = true.
Proof. unfold c08_present. simpl. destruct (c08_var_eqb v w); [reflexivity|auto]. Qed.

(* nothing that is present ever disappears *)
Lemma derive_present_mono fuel : forall s w v, c08_present s v = true -> c08_present (c08_derive fuel s w) v = true.
Proof.
  induction fuel as [|f IH]; intros s w v H; simpl; [exact H|].
  destruct (c08_present s w); [exact H|].
  apply present_cons.
  generalize dependent s. induction (c08_deps w) as [|d l IHl]; intros s H; simpl; [exact H|].
  apply IHl. apply IH. exact H.
Qed.

Lemma derive_present fuel s v : (0 < fuel)%nat -> c08_present (c08_derive fuel s v) v = true.
Proof.
  destruct fuel as [|f]; [lia|]. intros _. simpl.
  destruct (c08_present s v) eqn:E; [exact E|].
  unfold c08_present. simpl. rewrite var_eqb_refl. reflexivity.
Qed.

Lemma fold_derive_mono f l : forall s v, c08_present s v = true -> c08_present (fold_left (c08_derive f) l s) v = true.
Proof. induction l as [|d l IH]; intros s v H; simpl; [exact H|]. apply IH. apply derive_present_mono. exact H. Qed.

Lemma fold_derive_present f l : (0 < f)%nat -> forall s d, In d l -> c08_present (fold_left (c08_derive f) l s) d = true.
Proof.
  intros Hf. induction l as [|e l IH]; intros s d Hin; [destruct Hin|]. simpl.
  destruct Hin as [->|Hin]; [apply fold_derive_mono; apply derive_present; exact Hf|apply IH; exact Hin].
Qed.

(* every stored variable stays the canonical function of the source *)
Lemma derive_inv fuel : forall s v, (rank v < fuel)%nat -> AllCanon s -> AllCanon (c08_derive fuel s v).
Proof.
  induction fuel as [|f IH]; intros s v Hr Hs; [lia|]. simpl.
  destruct (c08_present s v); [exact Hs|].
  assert (Hfold : forall l s0, (forall d, In d l -> (rank d < f)%nat) -> AllCanon s0 ->
                              AllCanon (fold_left (c08_derive f) l s0)).
  { induction l as [|d l IHl]; intros s0 Hl H0; simpl; [exact H0|].
    apply IHl; [intros e He; apply Hl; right; exact He|]. apply IH; [apply Hl; left; reflexivity|exact H0]. }
  assert (Hdeps : forall d, In d (c08_deps v) -> (rank d < f)%nat).
  { intros d Hd. pose proof (deps_rank v d Hd). lia. }
  set (s' := fold_left (c08_derive f) (c08_deps v) s).
  assert (Hs' : AllCanon s') by (apply Hfold; assumption).
  constructor; [|exact Hs']. simpl.
  unfold c08_computed.
  assert (Hall : forallb (fun d => match c08_lookup s' d with Some Canon => true | _ => false end) (c08_deps v) = true).
  { apply forallb_forall. intros d Hd.
    assert (Hf : (0 < f)%nat) by (specialize (Hdeps d Hd); lia).
    pose proof (fold_derive_present f (c08_deps v) Hf s d Hd) as Hp. fold s' in Hp.
    unfold c08_present in Hp. destruct (c08_lookup s' d) as [x|] eqn:E; [|discriminate].
    rewrite (lookup_canon s' d x Hs' E). reflexivity. }
  rewrite Hall. reflexivity.
Qed.

Lemma step_inv s o : AllCanon s -> AllCanon (c08_step s o).
Proof.
  intros H. destruct o; cbn [c08_step].
  - apply derive_inv; [apply rank_lt_fuel|exact H].
  - apply derive_inv; [apply rank_lt_fuel|exact H].
  - exact H.
  - exact H.
Qed.

Theorem run_inv ops : forall s, AllCanon s -> AllCanon (c08_run s ops).
Proof. induction ops as [|o ops IH]; intros s H; simpl; [exact H|]. apply IH. apply step_inv. exact H. Qed.

(* after any history of read-only operations, every observation is the canonical value, i.e. what
   a fresh grid reports *)
Theorem observe_history s ops v : AllCanon s -> c08_observe (c08_run s ops) v = Some Canon.
Proof.
  intros H. unfold c08_observe.
  pose proof (run_inv ops s H) as Hr.
  pose proof (derive_inv c08_fuel (c08_run s ops) v (rank_lt_fuel v) Hr) as Hd.
  pose proof (derive_present c08_fuel (c08_run s ops) v ltac:(unfold c08_fuel; lia)) as Hp.
  unfold c08_present in Hp. destruct (c08_lookup _ v) as [x|] eqn:E; [|discriminate].
  rewrite (lookup_canon _ v x Hd E). reflexivity.
Qed.

Theorem observe_fresh_eq s ops v : AllCanon s -> c08_observe (c08_run s ops) v = c08_observe s v.
Proof. intros H. rewrite (observe_history s ops v H). symmetry. apply (observe_history s [] v H). Qed.

(* variables computed so far are never lost (exports only gain derived variables) *)
Theorem run_present_mono ops : forall s v, c08_present s v = true -> c08_present (c08_run s ops) v = true.
Proof.
  induction ops as [|o ops IH]; intros s v H; simpl; [exact H|]. apply IH.
  destruct o; cbn [c08_step]; try exact H; try (apply derive_present_mono; exact H).
Qed.

(* ---- what is stored is never rewritten: in particular a variable the SOURCE supplied (a file's own edge
   table, its own face centres, ...) keeps, whatever is derived afterwards, exactly the value it had ---- *)
Lemma var_eqb_neq_present s v w x : c08_lookup s v = Some x -> c08_present s w = false -> c08_var_eqb v w = false.
Proof.
  intros Hv Hw. destruct (c08_var_eqb v w) eqn:E; [|reflexivity].
  apply var_eqb_eq in E. subst w. unfold c08_present in Hw. rewrite Hv in Hw. discriminate.
Qed.

Lemma derive_lookup_frozen fuel : forall s w v x, c08_lookup s v = Some x -> c08_lookup (c08_derive fuel s w) v = Some x.
Proof.
  induction fuel as [|f IH]; intros s w v x H; simpl; [exact H|].
  destruct (c08_present s w) eqn:Ew; [exact H|].
  simpl. rewrite (var_eqb_neq_present s v w x H Ew).
  clear Ew. generalize dependent s. induction (c08_deps w) as [|d l IHl]; intros s H; simpl; [exact H|].
  apply IHl. apply IH. exact H.
Qed.

Theorem run_lookup_frozen ops : forall s v x, c08_lookup s v = Some x -> c08_lookup (c08_run s ops) v = Some x.
Proof.
  induction ops as [|o ops IH]; intros s v x H; simpl; [exact H|]. apply IH.
  destruct o; cbn [c08_step]; try exact H; apply derive_lookup_frozen; exact H.
Qed.

(* and reading it back returns that stored value, not a recomputed one *)
Theorem observe_frozen ops s v x : c08_lookup s v = Some x -> c08_observe (c08_run s ops) v = Some x.
Proof.
  intros H. unfold c08_observe. apply derive_lookup_frozen. apply run_lookup_frozen. exact H.
Qed.

Theorem stored_never_rewritten ops s v x :
  c08_lookup s v = Some x -> c08_lookup (c08_run s ops) v = Some x /\ c08_observe (c08_run s ops) v = Some x.
Proof. intros H. split; [exact (run_lookup_frozen ops s v x H)|exact (observe_frozen ops s v x H)]. Qed.

Example frozen_source_edges :
  (* a grid whose source supplied the edge table (stored value marked Other to tell it from a derived one):
     deriving face_edge, edge_face, face_face, edge distances ... never touches it *)
  c08_lookup (c08_run [(V_EN, Other)] [OpGet V_FE; OpGet V_FF; OpGet V_END; OpGet V_BOUNDS; OpAreas]) V_EN = Some Other.
Proof. vm_compute. reflexivity. Qed.

(* ================= (3) several grids ================= *)
Lemma update_nth_other {A} (f : A -> A) (l : list A) : forall i j, i <> j -> nth_error (c08_update i f l) j = nth_error l j.
Proof.
  induction l as [|x l IH]; intros [|i] [|j] H; simpl; try reflexivity; try congruence. apply IH. congruence.
Qed.

Lemma update_nth_same {A} (f : A -> A) (l : list A) : forall i x, nth_error l i = Some x ->
  nth_error (c08_update i f l) i = Some (f x).
Proof.
  induction l as [|y l IH]; intros [|i] x H; simpl in *; try discriminate; [inversion H; reflexivity|apply IH; exact H].
Qed.

Lemma update_length {A} (f : A -> A) (l : list A) : forall i, length (c08_update i f l) = length l.
Proof. induction l as [|x l IH]; intros [|i]; simpl; auto. Qed.

(* operations on other grids never change what grid j holds; the module constants never change *)
Theorem world_frame ops : forall w j,
  Forall (fun io => fst io <> j) ops ->
  nth_error (w_grids (c08_world_run w ops)) j = nth_error (w_grids w) j
  /\ w_globals (c08_world_run w ops) = w_globals w.
Proof.
  induction ops as [|io ops IH]; intros w j H; simpl; [split; reflexivity|].
  inversion H as [|? ? Hio Hrest]; subst.
  destruct (IH (c08_world_step w io) j Hrest) as [E1 E2]. rewrite E1, E2. simpl.
  split; [apply update_nth_other; exact Hio|reflexivity].
Qed.

(* every grid of the world keeps the invariant through any interleaved history *)
Theorem world_inv ops : forall w,
  Forall AllCanon (w_grids w) -> Forall AllCanon (w_grids (c08_world_run w ops)).
Proof.
  induction ops as [|io ops IH]; intros w H; simpl; [exact H|]. apply IH. simpl.
  clear IH. generalize (fst io) as i. revert H. generalize (w_grids w) as l.
  induction l as [|s l IHl]; intros H [|i]; simpl; try exact H.
  - inversion H; subst. constructor; [apply step_inv; assumption|assumption].
  - inversion H; subst. constructor; [assumption|apply IHl; assumption].
Qed.

(* hence: in any interleaved history over any number of grids, every observation on every grid equals
   the fresh-grid observation *)
Theorem world_observe ops w j s v :
  Forall AllCanon (w_grids w) -> nth_error (w_grids (c08_world_run w ops)) j = Some s ->
  c08_observe s v = Some Canon.
Proof.
  intros H Hj. pose proof (world_inv ops w H) as Hall. rewrite Forall_forall in Hall.
  pose proof (Hall s (nth_error_In _ _ Hj)) as Hs. apply (observe_history s [] v Hs).
Qed.

(* ================= (2) caches ================= *)
Section CacheProofs.
  Variable V : Type.
  Variable compute : c08_key -> V.
  Variables compared stored dep : list string.
  Hypothesis Hdep : forall k1 k2, (forall f, c08_mem f dep = true -> k1 f = k2 f) -> compute k1 = compute k2.
  Hypothesis Hcmp : c08_subset dep compared = true.
  Hypothesis Hsto : c08_subset dep stored = true.

  Definition CInv (c : c08_slot V) : Prop :=
    match c with None => True | Some (k', v) => v = compute k' end.

  Lemma mem_subset a b f : c08_subset a b = true -> c08_mem f a = true -> c08_mem f b = true.
  Proof.
    unfold c08_subset, c08_mem. intros Hs Hm. rewrite forallb_forall in Hs.
    apply existsb_exists in Hm. destruct Hm as (x & Hx & Hfx). apply String.eqb_eq in Hfx. subst x.
    apply Hs. exact Hx.
  Qed.

  Lemma keq_agree fields k1 k2 f : c08_keq fields k1 k2 = true -> c08_mem f fields = true -> k1 f = k2 f.
  Proof.
    unfold c08_keq, c08_mem. intros Hk Hm. rewrite forallb_forall in Hk.
    apply existsb_exists in Hm. destruct Hm as (x & Hx & Hfx). apply String.eqb_eq in Hfx. subst x.
    apply Z.eqb_eq. apply Hk. exact Hx.
  Qed.

  Lemma store_compute old new : compute (c08_store stored old new) = compute new.
  Proof.
    apply Hdep. intros f Hf. unfold c08_store. rewrite (mem_subset dep stored f Hsto Hf). reflexivity.
  Qed.

  Lemma cache_step_spec c call : CInv c ->
    fst (c08_cache_step V compute compared stored c call) = compute (c_key call)
    /\ CInv (snd (c08_cache_step V compute compared stored c call)).
  Proof.
    intros H. unfold c08_cache_step. destruct c as [[k' v]|].
    - simpl in H. destruct (c08_keq compared k' (c_key call) && negb (c_override call)) eqn:E.
      + apply andb_true_iff in E. destruct E as [E _]. simpl. split; [|exact H].
        rewrite H. apply Hdep. intros f Hf. apply (keq_agree compared); [exact E|].
        apply (mem_subset dep compared f Hcmp Hf).
      + simpl. split; [reflexivity|]. destruct (c_cache call); simpl; [symmetry; apply store_compute|exact H].
    - simpl. split; [reflexivity|]. destruct (c_cache call); simpl; [symmetry; apply store_compute|exact I].
  Qed.

  Lemma cache_run_inv calls : forall c, CInv c -> CInv (c08_cache_run V compute compared stored c calls).
  Proof.
    induction calls as [|call rest IH]; intros c H; simpl; [exact H|]. apply IH. apply cache_step_spec. exact H.
  Qed.

  (* whatever conversions were requested before, a call returns what a fresh conversion with its own
     arguments returns *)
  Theorem cache_transparent calls call :
    fst (c08_cache_step V compute compared stored (c08_cache_run V compute compared stored None calls) call)
    = compute (c_key call).
  Proof. apply cache_step_spec. apply cache_run_inv. exact I. Qed.
End CacheProofs.

(* the key sets generated from the current source are complete for every cache *)
Lemma caches_complete :
  c08_subset c08_gdf_dep c08_gdf_compared = true /\ c08_subset c08_gdf_dep c08_gdf_stored = true /\
  c08_subset c08_poly_dep c08_poly_compared = true /\ c08_subset c08_poly_dep c08_poly_stored = true /\
  c08_subset c08_line_dep c08_line_compared = true /\ c08_subset c08_line_dep c08_line_stored = true /\
  c08_subset c08_tree_dep c08_ball_compared = true /\ c08_subset c08_tree_dep c08_ball_stored = true /\
  c08_subset c08_tree_dep c08_kd_compared = true /\ c08_subset c08_tree_dep c08_kd_stored = true.
Proof. vm_compute. repeat split. Qed.

(* non-vacuity: a fresh grid (only source variables, no derived ones) satisfies the hypothesis, and a
   history produces a non-trivial state *)
Example c08_ex :
  AllCanon [] /\
  c08_names (c08_run [] [OpGet V_FF; OpAreas; OpEncodeUgrid; OpGet V_ECEN]) =
    [V_ECEN; V_NXYZ; V_FF; V_EF; V_NPF; V_FE; V_EN].
Proof. split; [constructor|vm_compute; reflexivity]. Qed.
