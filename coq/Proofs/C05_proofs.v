(* Proofs about Model/C05.v, parts B-D (part A, the generated tables, is in C05_tables_proofs.v).
   Part B: structure of calculate_face_area for ANY arithmetic (fan from corner 0, coordinate
           entry points, gather/renumbering, cache state machine).
   Part C: facts needing algebraic laws (additivity; non-negativity), proved once under explicit
           hypotheses on the operations and instantiated for the reals and for the fixed-point
           integers the extracted model runs on.
   Part D: over R: the Jacobian depends on the corners only through their Gram matrix, hence is
           invariant under every orthogonal map (rigid rotation / reflection / axis permutation). *)
From Coq Require Import Reals Lra ZifyBool.
From Verif Require Import Base C05 C05_tables_proofs.

Local Open Scope Z_scope.

(* ========================================================================================== *)
(* Part B — structure, for any arithmetic                                                       *)

Section Generic.
  Context {T : Type} (O : c05_ops T).
  Notation vec := (@c05_vec T).

  (* the fan of a corner list: (x0, x_{j+1}, x_{j+2}) for consecutive pairs of the remaining corners *)
  Definition c05_fan {A} (l : list A) : list (A * A * A) :=
    match l with
    | [] => []
    | x0 :: rest => map (fun p => (x0, fst p, snd p)) (combine rest (tl rest))
    end.

  Definition c05_cv (conv : option (T -> T -> vec)) (p : vec) : vec :=
    match conv with None => p | Some f => f (c05_v0 p) (c05_v1 p) end.

  Lemma c05_fold_left_map {A B C} (f : A -> B -> A) (g : C -> B) l a :
    fold_left f (map g l) a = fold_left (fun a x => f a (g x)) l a.
  Proof. revert a; induction l as [|x l IH]; intros a; cbn; auto. Qed.

  Lemma c05_fold_left_ext {A B} (f g : A -> B -> A) l a :
    (forall a x, In x l -> f a x = g a x) -> fold_left f l a = fold_left g l a.
  Proof.
    revert a; induction l as [|x l IH]; intros a H; cbn; auto.
    rewrite H by (left; reflexivity). apply IH. intros; apply H; right; assumption.
  Qed.

  Lemma c05_pairs_seq {A} (d : A) (rest : list A) :
    map (fun j => (nth j rest d, nth (S j) rest d)) (seq 0 (length rest - 1)) = combine rest (tl rest).
  Proof.
    induction rest as [|x rest IH]; [reflexivity|].
    destruct rest as [|y rest]; [reflexivity|].
    replace (length (x :: y :: rest) - 1)%nat with (S (length (y :: rest) - 1)) by (cbn; lia).
    cbn [tl] in *. rewrite <- cons_seq, <- seq_shift, map_cons, map_map.
    change (combine (x :: y :: rest) (y :: rest)) with ((x, y) :: combine (y :: rest) rest).
    rewrite <- IH. cbn [nth]. f_equal.
  Qed.

  (* calculate_face_area visits exactly the fan triangles of the corner list, in order *)
  Lemma c05_face_loop_fan tb conv xs :
    c05_face_loop O tb conv xs =
    fold_left (fun acc t => c05_quad_tri O tb (c05_cv conv (fst (fst t))) (c05_cv conv (snd (fst t)))
                                         (c05_cv conv (snd t)) acc)
              (c05_fan xs) (c05_zero O, c05_zero O).
  Proof.
    unfold c05_face_loop. destruct xs as [|x0 rest]; [reflexivity|].
    cbn [c05_fan]. rewrite <- (@c05_pairs_seq vec (c05_zero O, c05_zero O, c05_zero O) rest).
    rewrite map_map, c05_fold_left_map.
    replace (length (x0 :: rest) - 2)%nat with (length rest - 1)%nat by (cbn; lia).
    apply c05_fold_left_ext. intros acc j _. cbn [fst snd].
    unfold c05_node, c05_cv. replace (j + 1)%nat with (S j) by lia. replace (j + 2)%nat with (S (S j)) by lia.
    cbn [nth]. reflexivity.
  Qed.

  Lemma c05_fan_map {A B} (g : A -> B) (l : list A) :
    c05_fan (map g l) = map (fun t => (g (fst (fst t)), g (snd (fst t)), g (snd t))) (c05_fan l).
  Proof.
    destruct l as [|x0 rest]; [reflexivity|]. cbn [map c05_fan].
    rewrite map_map. replace (tl (map g rest)) with (map g (tl rest)) by (destruct rest; reflexivity).
    revert rest. intros rest. generalize (tl rest) as l2. induction rest as [|a rest IH]; intros [|b l2]; cbn; auto.
    f_equal. apply IH.
  Qed.

  (* the fan has exactly len - 2 triangles and the j-th is (x0, x_{j+1}, x_{j+2}): every listed corner
     is used, whatever its coordinates are (no corner is dropped because it "looks like" another
     one, no triangle is skipped because it is small) *)
  Lemma c05_fan_length {A} (l : list A) : length (c05_fan l) = (length l - 2)%nat.
  Proof.
    destruct l as [|x0 rest]; [reflexivity|]. cbn [c05_fan]. rewrite map_length, combine_length.
    destruct rest as [|a rest]; [reflexivity|]. cbn [tl length]. lia.
  Qed.

  Lemma c05_fan_nth {A} (d : A) (l : list A) j :
    (j + 2 < length l)%nat ->
    nth j (c05_fan l) (d, d, d) = (nth 0 l d, nth (j + 1) l d, nth (j + 2) l d).
  Proof.
    destruct l as [|x0 rest]; cbn [length]; [lia|]. intros H. cbn [c05_fan].
    rewrite <- (@c05_pairs_seq A d rest), map_map.
    set (f := fun j0 : nat => (x0, fst (nth j0 rest d, nth (S j0) rest d), snd (nth j0 rest d, nth (S j0) rest d))).
    rewrite (nth_indep _ (d, d, d) (f 0%nat)) by (rewrite map_length, seq_length; lia).
    rewrite map_nth, seq_nth by lia. unfold f. cbn [fst snd Nat.add nth].
    replace (j + 1)%nat with (S j) by lia. replace (j + 2)%nat with (S (S j)) by lia. reflexivity.
  Qed.

  (* coords_type = "spherical" is the Cartesian computation on the converted corners *)
  Lemma c05_face_area_coords rule order f xs :
    c05_face_area O rule order (Some f) xs =
    c05_face_area O rule order None (map (fun p => f (c05_v0 p) (c05_v1 p)) xs).
  Proof.
    unfold c05_face_area. destruct (c05_select O rule order) as [tb|]; [|reflexivity].
    cbn [option_map]. f_equal. rewrite !c05_face_loop_fan, c05_fan_map, c05_fold_left_map.
    reflexivity.
  Qed.

  (* ---- gather ---- *)
  Lemma c05_opt_all_map_ext {A B} (f g : A -> option B) l :
    (forall x, In x l -> f x = g x) -> c05_opt_all (map f l) = c05_opt_all (map g l).
  Proof. intros H. f_equal. apply map_ext_in. exact H. Qed.

  (* the Cartesian path with dim = 3 on positions equal to the converted lon/lat gives the lon/lat
     result (this is the REPAIRED variant fixdim = true) *)
  Lemma c05_compute_coords conv g rule order :
    (forall i, c05_xyz g i = conv (c05_v0 (c05_lonlat g i)) (c05_v1 (c05_lonlat g i))) ->
    c05_compute O true conv g rule order false = c05_compute O true conv g rule order true.
  Proof.
    intros H. unfold c05_compute, c05_all_areas. apply c05_opt_all_map_ext. intros [r k] _. cbn [fst snd].
    rewrite c05_face_area_coords. f_equal. unfold c05_gather. rewrite map_map.
    apply map_ext. intros i. cbn [c05_v0 c05_v1 fst snd]. apply H.
  Qed.

  (* the current tree (dim flag generated from grid.py): the two coordinate inputs agree *)
  Lemma c05_compute_cur_coords conv g rule order :
    (forall i, c05_xyz g i = conv (c05_v0 (c05_lonlat g i)) (c05_v1 (c05_lonlat g i))) ->
    c05_compute_cur O conv g rule order false = c05_compute_cur O conv g rule order true.
  Proof. exact (c05_compute_coords conv g rule order). Qed.

  (* what the code did on the Cartesian path before the fix (dim = 2): the z coordinate is dropped *)
  Lemma c05_compute_cart_drops_z conv g rule order :
    c05_compute O false conv g rule order false =
    c05_all_areas O (fun i => (c05_v0 (c05_xyz g i), c05_v1 (c05_xyz g i),
                              c05_mul O (c05_v0 (c05_xyz g i)) (c05_zero O)))
                  (c05_conn g) (c05_npf g) true rule order None.
  Proof.
    unfold c05_compute, c05_all_areas. apply c05_opt_all_map_ext. intros [r k] _. reflexivity.
  Qed.

  (* node renumbering: areas do not depend on how nodes are numbered *)
  Lemma c05_renumber (pos pos' : Z -> vec) (pi : Z -> Z) t npf dim3 rule order conv :
    (forall i, pos' (pi i) = pos i) ->
    c05_all_areas O pos' (map (map pi) t) npf dim3 rule order conv =
    c05_all_areas O pos t npf dim3 rule order conv.
  Proof.
    intros H. unfold c05_all_areas. f_equal.
    revert npf. induction t as [|r t IH]; intros [|k npf]; cbn [map combine]; auto.
    f_equal; [|apply IH]. cbn [fst snd]. f_equal. unfold c05_gather.
    rewrite firstn_map, map_map. apply map_ext. intros i. rewrite H. reflexivity.
  Qed.

  (* padding width: only the first n_nodes_per_face[f] entries of a row are read, so the width of the
     table (how much fill follows) does not matter *)
  Lemma c05_gather_padding pos dim3 r pad k :
    (Z.to_nat k <= length r)%nat -> c05_gather O pos dim3 (r ++ pad) k = c05_gather O pos dim3 r k.
  Proof.
    intros H. unfold c05_gather. rewrite firstn_app.
    replace (Z.to_nat k - length r)%nat with 0%nat by lia. cbn [firstn]. rewrite app_nil_r. reflexivity.
  Qed.

  Lemma c05_all_areas_padding pos t npf w dim3 rule order conv :
    Forall2 (fun r k => (Z.to_nat k <= length r)%nat) t npf ->
    c05_all_areas O pos (map (fun r => r ++ repeat FILL w) t) npf dim3 rule order conv =
    c05_all_areas O pos t npf dim3 rule order conv.
  Proof.
    intros H. unfold c05_all_areas. f_equal.
    induction H as [|r k t npf Hrk H IH]; [reflexivity|].
    cbn [map combine fst snd]. rewrite IH. f_equal. cbn [fst snd]. rewrite c05_gather_padding by exact Hrk. reflexivity.
  Qed.

  Lemma c05_opt_all_nth {A} (l : list (option A)) r f :
    c05_opt_all l = Some r -> (f < length l)%nat -> nth_error l f = Some (nth_error r f).
  Proof.
    revert r f. induction l as [|[x|] l IH]; intros r f H Hf; cbn in *; try lia; try discriminate.
    destruct (c05_opt_all l) as [r'|]; [|discriminate]. cbn in H. injection H as <-.
    destruct f; [reflexivity|]. cbn. apply IH; [reflexivity|lia].
  Qed.

  (* face numbering: the area reported for face f is the area of ITS OWN first npf[f] corners,
     whatever the other rows are *)
  Lemma c05_face_local pos t npf dim3 rule order conv res f r k :
    c05_all_areas O pos t npf dim3 rule order conv = Some res ->
    nth_error t f = Some r -> nth_error npf f = Some k ->
    c05_face_area O rule order conv (c05_gather O pos dim3 r k) = nth_error res f.
  Proof.
    unfold c05_all_areas. intros H Hr Hk.
    assert (Hc : nth_error (combine t npf) f = Some (r, k)).
    { clear H. revert npf f Hr Hk. induction t as [|r0 t IH]; intros [|k0 npf] [|f] Hr Hk; cbn in *; try discriminate.
      - congruence.
      - apply IH; assumption. }
    pose proof (c05_opt_all_nth _ _ f H) as Hn. rewrite map_length in Hn.
    assert (Hlt : (f < length (combine t npf))%nat) by (apply nth_error_Some; congruence).
    specialize (Hn Hlt). rewrite nth_error_map, Hc in Hn. cbn in Hn. congruence.
  Qed.

  (* ---- cache state machine ---- *)
  Section Cache.
    Variables (fixdim : bool) (conv : T -> T -> vec) (g : @c05_grid T).
    Let dflt := c05_compute O fixdim conv g c05_default_rule c05_default_order c05_default_latlon.

    Definition c05_cache_inv (s : @c05_state T) : Prop :=
      c05_cached s = None \/ exists r, dflt = Some r /\ c05_cached s = Some (map fst r).

    Lemma c05_read_areas_inv s : c05_cache_inv s -> c05_cache_inv (fst (c05_read_areas O fixdim conv g s)).
    Proof.
      intros Hs. unfold c05_read_areas. destruct (c05_cached s) eqn:E; cbn [fst]; [exact Hs|].
      fold dflt. destruct dflt as [r|] eqn:D; cbn [fst]; [|exact Hs].
      right. exists r. split; [exact D|reflexivity].
    Qed.

    Lemma c05_step_inv s o : c05_cache_inv s -> c05_cache_inv (fst (c05_step O fixdim conv g s o)).
    Proof.
      intros Hs. destruct o as [rule order latlon|rule order| |]; cbn [c05_step].
      - destruct (c05_compute O fixdim conv g rule order latlon); cbn [fst]; exact Hs.
      - destruct (c05_compute O fixdim conv g rule order c05_default_latlon); cbn [fst]; exact Hs.
      - apply c05_read_areas_inv. exact Hs.
      - destruct (c05_jac s); cbn [fst]; [exact Hs|].
        fold dflt. destruct dflt as [r|] eqn:D; cbn [fst]; exact Hs.
    Qed.

    Lemma c05_run_inv ops s : c05_cache_inv s -> c05_cache_inv (c05_run O fixdim conv g s ops).
    Proof.
      revert s. induction ops as [|o ops IH]; intros s Hs; cbn; [exact Hs|].
      apply IH. apply c05_step_inv. exact Hs.
    Qed.

    (* after ANY history of area operations, reading face_areas returns the default computation *)
    Lemma c05_cache_transparent ops :
      snd (c05_step O fixdim conv g (c05_run O fixdim conv g (c05_init) ops) (C05_get_areas)) =
      match dflt with Some r => C05_areas (map fst r) | None => C05_raise end.
    Proof.
      pose proof (c05_run_inv ops (@c05_init T) (or_introl eq_refl)) as H.
      cbn [c05_step]. unfold c05_read_areas. destruct H as [H|[r [D H]]]; rewrite H.
      - fold dflt. destruct dflt; reflexivity.
      - rewrite D. reflexivity.
    Qed.
    (* compute_face_areas / calculate_total_face_area keep no memo: their answer after ANY history
       is the answer on a fresh grid (and they leave the state untouched) *)
    Lemma c05_compute_history_independent ops rule order latlon :
      c05_step O fixdim conv g (c05_run O fixdim conv g c05_init ops) (C05_compute rule order latlon) =
      (c05_run O fixdim conv g c05_init ops,
       snd (c05_step O fixdim conv g c05_init (C05_compute rule order latlon))).
    Proof. cbn [c05_step]. destruct (c05_compute O fixdim conv g rule order latlon); reflexivity. Qed.

    Lemma c05_total_history_independent ops rule order :
      c05_step O fixdim conv g (c05_run O fixdim conv g c05_init ops) (C05_total rule order) =
      (c05_run O fixdim conv g c05_init ops,
       snd (c05_step O fixdim conv g c05_init (C05_total rule order))).
    Proof. cbn [c05_step]. destruct (c05_compute O fixdim conv g rule order c05_default_latlon); reflexivity. Qed.
  End Cache.

  (* ======================================================================================== *)
  (* Part C — laws                                                                              *)

  Section Monoid.
    Hypothesis add_assoc : forall a b c : T, c05_add O a (c05_add O b c) = c05_add O (c05_add O a b) c.
    Hypothesis add_0_l : forall a : T, c05_add O (c05_zero O) a = a.
    Hypothesis add_0_r : forall a : T, c05_add O a (c05_zero O) = a.

    (* area contributed by one sub-triangle *)
    Definition c05_tri_area (tb : c05_table) (t : vec * vec * vec) : T :=
      fst (c05_quad_tri O tb (fst (fst t)) (snd (fst t)) (snd t) (c05_zero O, c05_zero O)).

    Lemma c05_sum_shift l a : fold_left (c05_add O) l a = c05_add O a (c05_sum O l).
    Proof.
      unfold c05_sum. revert a. induction l as [|x l IH]; intros a; cbn [fold_left].
      - symmetry. apply add_0_r.
      - rewrite IH. rewrite (IH (c05_add O (c05_zero O) x)). rewrite add_0_l. symmetry. apply add_assoc.
    Qed.

    Lemma c05_sum_cons x l : c05_sum O (x :: l) = c05_add O x (c05_sum O l).
    Proof. unfold c05_sum at 1. cbn [fold_left]. rewrite add_0_l. apply c05_sum_shift. Qed.

    Lemma c05_sum_nil : c05_sum O [] = c05_zero O.
    Proof. reflexivity. Qed.

    Lemma c05_sum_app l1 l2 : c05_sum O (l1 ++ l2) = c05_add O (c05_sum O l1) (c05_sum O l2).
    Proof. unfold c05_sum at 1. rewrite fold_left_app. fold (c05_sum O l1). apply c05_sum_shift. Qed.

    (* a loop whose every step adds a term (independent of the accumulators) to the first
       accumulator adds the sum of the terms *)
    Lemma c05_fold_shift {B} (step : c05_acc -> B -> c05_acc) (H : B -> T) :
      (forall a j p, fst (step (a, j) p) = c05_add O a (H p)) ->
      forall l a j, fst (fold_left step l (a, j)) = c05_add O a (c05_sum O (map H l)).
    Proof.
      intros Hs. induction l as [|p l IH]; intros a j; cbn [fold_left map].
      - rewrite c05_sum_nil. symmetry. apply add_0_r.
      - destruct (step (a, j) p) as [a1 j1] eqn:E. rewrite IH.
        pose proof (Hs a j p) as H1. rewrite E in H1. cbn [fst] in H1. rewrite H1.
        rewrite c05_sum_cons. symmetry. apply add_assoc.
    Qed.

    (* the area accumulator only ever has terms added to it *)
    Lemma c05_quad_tri_shift tb n1 n2 n3 a j :
      fst (c05_quad_tri O tb n1 n2 n3 (a, j)) =
      c05_add O a (fst (c05_quad_tri O tb n1 n2 n3 (c05_zero O, c05_zero O))).
    Proof.
      assert (Z0 : forall x, c05_add O (c05_zero O) x = x) by exact add_0_l.
      destruct tb as [dG dW|dG dW]; cbn [c05_quad_tri].
      - set (l := combine dG dW).
        set (Hq := fun (p q : T * T) =>
               c05_mul O (c05_mul O (snd p) (snd q)) (c05_jac_gauss O n1 n2 n3 (fst p) (fst q))).
        assert (Hin : forall (p : T * T) a0 j0,
                   fst (fold_left (fun acc q => let jv := c05_jac_gauss O n1 n2 n3 (fst p) (fst q) in
                          (c05_add O (fst acc) (c05_mul O (c05_mul O (snd p) (snd q)) jv), c05_add O jv jv)) l (a0, j0))
                   = c05_add O a0 (c05_sum O (map (Hq p) l))).
        { intros p. apply c05_fold_shift. intros a0 j0 q. reflexivity. }
        rewrite (c05_fold_shift _ (fun p => c05_sum O (map (Hq p) l))) by (intros a0 j0 p; apply Hin).
        rewrite (c05_fold_shift _ (fun p => c05_sum O (map (Hq p) l))) by (intros a0 j0 p; apply Hin).
        rewrite Z0. reflexivity.
      - set (l := combine dG dW).
        set (Hp := fun (p : T * T * T) =>
               c05_mul O (snd p) (c05_jac_bary O n1 n2 n3 (fst (fst p)) (snd (fst p)))).
        rewrite (c05_fold_shift _ Hp) by (intros a0 j0 p; reflexivity).
        rewrite (c05_fold_shift _ Hp) by (intros a0 j0 p; reflexivity).
        rewrite Z0. reflexivity.
    Qed.

    (* the face area is the sum of the sub-triangle areas over the fan *)
    Lemma c05_fan_fold tb (l : list (vec * vec * vec)) a j :
      fst (fold_left (fun acc t => c05_quad_tri O tb (fst (fst t)) (snd (fst t)) (snd t) acc) l (a, j)) =
      c05_add O a (c05_sum O (map (c05_tri_area tb) l)).
    Proof.
      revert a j. induction l as [|t l IH]; intros a j; cbn [fold_left map].
      - unfold c05_sum. cbn. symmetry. apply add_0_r.
      - destruct (c05_quad_tri O tb (fst (fst t)) (snd (fst t)) (snd t) (a, j)) as [a1 j1] eqn:E.
        rewrite IH. pose proof (c05_quad_tri_shift tb (fst (fst t)) (snd (fst t)) (snd t) a j) as H.
        rewrite E in H. cbn [fst] in H. rewrite H.
        unfold c05_sum at 2. cbn [fold_left]. rewrite c05_sum_shift. rewrite add_0_l.
        fold (c05_tri_area tb t). rewrite add_assoc. reflexivity.
    Qed.

    Lemma c05_face_loop_sum tb conv xs :
      fst (c05_face_loop O tb conv xs) =
      c05_sum O (map (c05_tri_area tb) (c05_fan (map (c05_cv conv) xs))).
    Proof.
      rewrite c05_face_loop_fan, c05_fan_map.
      rewrite <- (c05_fold_left_map
                   (fun acc t => c05_quad_tri O tb (fst (fst t)) (snd (fst t)) (snd t) acc)
                   (fun t => (c05_cv conv (fst (fst t)), c05_cv conv (snd (fst t)), c05_cv conv (snd t)))).
      rewrite c05_fan_fold. apply add_0_l.
    Qed.

    Lemma c05_combine_tl_app {A} (l1 : list A) x l2 :
      combine (l1 ++ x :: l2) (tl (l1 ++ x :: l2)) =
      combine (l1 ++ [x]) (tl (l1 ++ [x])) ++ combine (x :: l2) l2.
    Proof.
      induction l1 as [|a l1 IH]; [reflexivity|].
      destruct l1 as [|b l1]; [reflexivity|].
      change (combine ((a :: b :: l1) ++ x :: l2) (tl ((a :: b :: l1) ++ x :: l2)))
        with ((a, b) :: combine ((b :: l1) ++ x :: l2) (tl ((b :: l1) ++ x :: l2))).
      rewrite IH. reflexivity.
    Qed.

    Lemma c05_fan_split {A} (x0 xk : A) l1 l2 :
      c05_fan (x0 :: l1 ++ xk :: l2) = c05_fan (x0 :: l1 ++ [xk]) ++ c05_fan (x0 :: xk :: l2).
    Proof.
      cbn [c05_fan tl]. rewrite <- map_app. f_equal. apply c05_combine_tl_app.
    Qed.

    (* cutting a face along the diagonal from corner 0 to corner k: the two pieces add up exactly *)
    Lemma c05_subdivision tb conv x0 xk l1 l2 :
      fst (c05_face_loop O tb conv (x0 :: l1 ++ xk :: l2)) =
      c05_add O (fst (c05_face_loop O tb conv (x0 :: l1 ++ [xk])))
                (fst (c05_face_loop O tb conv (x0 :: xk :: l2))).
    Proof.
      rewrite !c05_face_loop_sum. cbn [map]. rewrite !map_app. cbn [map].
      rewrite c05_fan_split, map_app, c05_sum_app. reflexivity.
    Qed.
  End Monoid.

  Section NonNeg.
    Variable nn : T -> Prop.
    Hypothesis nn_add : forall a b, nn a -> nn b -> nn (c05_add O a b).
    Hypothesis nn_mul : forall a b, nn a -> nn b -> nn (c05_mul O a b).
    Hypothesis nn_sqrt : forall a, nn (c05_sqrt O a).
    Hypothesis nn_q : forall n d, 0 <= n -> 0 < d -> nn (c05_q O n d).

    Lemma c05_quad_tri_nn tb n1 n2 n3 acc :
      (match tb with C05_tg _ dW => Forall nn dW | C05_tt _ dW => Forall nn dW end) ->
      nn (fst acc) -> nn (fst (c05_quad_tri O tb n1 n2 n3 acc)).
    Proof.
      destruct tb as [dG dW|dG dW]; cbn [c05_quad_tri]; intros HW.
      - assert (HC : Forall (fun p => nn (snd p)) (combine dG dW)).
        { apply Forall_forall. intros [x w] Hin. apply in_combine_r in Hin. rewrite Forall_forall in HW. apply HW, Hin. }
        revert acc. generalize HC. generalize (combine dG dW) at 1 3 as l. intros l Hl.
        induction Hl as [|p l Hp Hl IH]; intros acc Ha; cbn [fold_left]; [exact Ha|].
        apply IH. clear IH. revert acc Ha. induction HC as [|q l2 Hq HC IH2]; intros acc Ha; cbn [fold_left]; [exact Ha|].
        apply IH2. cbv zeta. cbn [fst]. apply nn_add; [exact Ha|]. apply nn_mul; [apply nn_mul; assumption|].
        unfold c05_jac_gauss, c05_jac_core. apply nn_sqrt.
      - assert (HC : Forall (fun p => nn (snd p)) (combine dG dW)).
        { apply Forall_forall. intros [x w] Hin. apply in_combine_r in Hin. rewrite Forall_forall in HW. apply HW, Hin. }
        revert acc. induction HC as [|p l Hp HC IH]; intros acc Ha; cbn [fold_left]; [exact Ha|].
        apply IH. cbv zeta. cbn [fst]. apply nn_add; [exact Ha|]. apply nn_mul; [exact Hp|].
        unfold c05_jac_bary. apply nn_mul; [apply nn_q; lia|]. unfold c05_jac_core. apply nn_sqrt.
    Qed.

    Lemma c05_select_weights_nn rule order tb :
      c05_select O rule order = Some tb ->
      match tb with C05_tg _ dW => Forall nn dW | C05_tt _ dW => Forall nn dW end.
    Proof.
      destruct rule; cbn [c05_select]; try discriminate.
      - destruct (c05_gauss_rule order) as [r|] eqn:E; [|discriminate]. cbn [option_map]. intros [= <-].
        cbn [c05_num1 snd]. apply c05_gauss_weights_pos in E. apply Forall_forall. intros w Hw.
        apply in_map_iff in Hw. destruct Hw as [z [<- Hz]]. rewrite Forall_forall in E. specialize (E z Hz).
        apply nn_q; [lia|reflexivity].
      - destruct (c05_tri_rule order) as [r|] eqn:E; [|discriminate]. cbn [option_map]. intros [= <-].
        cbn [c05_num2 snd]. apply c05_tri_weights_pos in E. apply Forall_forall. intros w Hw.
        apply in_map_iff in Hw. destruct Hw as [z [<- Hz]]. rewrite Forall_forall in E. specialize (E z Hz).
        apply nn_q; [lia|reflexivity].
    Qed.

    (* the reported area is never negative, for every rule, order, coordinate path and corner list *)
    Lemma c05_face_area_nn rule order conv xs r :
      c05_face_area O rule order conv xs = Some r -> nn (fst r).
    Proof.
      unfold c05_face_area. destruct (c05_select O rule order) as [tb|] eqn:E; [|discriminate].
      cbn [option_map]. intros [= <-]. pose proof (c05_select_weights_nn _ _ _ E) as HW.
      unfold c05_face_loop. generalize (seq 0 (length xs - 2)) as l.
      assert (H0 : nn (fst (c05_zero O, c05_zero O))) by (cbn [fst]; apply nn_q; lia).
      revert H0. generalize (c05_zero O, c05_zero O) as acc. intros acc H0 l. revert acc H0.
      induction l as [|j l IH]; intros acc H0; cbn [fold_left]; [exact H0|].
      apply IH. apply c05_quad_tri_nn; assumption.
    Qed.
  End NonNeg.
End Generic.

(* ========================================================================================== *)
(* instances                                                                                    *)

(* ---- fixed-point integers (the arithmetic of the extracted model) ---- *)
Lemma c05_fx_zero : c05_zero c05_fx = 0.
Proof. reflexivity. Qed.

Lemma c05_fx_face_area_nonneg rule order conv xs r :
  c05_face_area c05_fx rule order conv xs = Some r -> 0 <= fst r.
Proof.
  apply (c05_face_area_nn c05_fx (fun a => 0 <= a)); cbn [c05_fx c05_add c05_mul c05_sqrt c05_q].
  - intros; lia.
  - intros a b Ha Hb. apply Z.shiftr_nonneg. apply Z.mul_nonneg_nonneg; assumption.
  - intros a. apply Z.sqrt_nonneg.
  - intros n d Hn Hd. apply Z.div_pos; [|exact Hd]. apply Z.shiftl_nonneg. exact Hn.
Qed.

Lemma c05_fx_subdivision tb conv x0 xk l1 l2 :
  fst (c05_face_loop c05_fx tb conv (x0 :: l1 ++ xk :: l2)) =
  fst (c05_face_loop c05_fx tb conv (x0 :: l1 ++ [xk])) + fst (c05_face_loop c05_fx tb conv (x0 :: xk :: l2)).
Proof.
  apply (c05_subdivision c05_fx); cbn [c05_fx c05_add]; intros; rewrite ?c05_fx_zero; lia.
Qed.

(* the faithful Grid-level Cartesian path (dim = 2) returns area 0 for the octant triangle whose
   area on the function-level Cartesian path is positive: the two coordinate inputs disagree *)
Definition c05_octant : list c05_fx_vec := [(c05_S, 0, 0); (0, c05_S, 0); (0, 0, c05_S)].
Lemma c05_coords_grid_refuted :
  exists lonlat xyz t npf tbl a b,
    c05_fx_grid_areas false 1 4 false tbl lonlat xyz t npf = Some [a] /\
    c05_fx_face_area 1 4 false tbl xyz = Some b /\
    fst a = 0 /\ 3 * c05_S / 2 < fst b.
Proof.
  exists [], c05_octant, [[0; 1; 2]], [3], [].
  eexists. eexists. split; [vm_compute; reflexivity|]. split; [vm_compute; reflexivity|].
  cbn [fst]. split; [reflexivity|]. reflexivity.
Qed.

(* ---- real numbers ---- *)
Local Open Scope R_scope.

Definition c05_R : c05_ops R := {|
  c05_add := Rplus;
  c05_sub := Rminus;
  c05_mul := Rmult;
  c05_div := Rdiv;
  c05_neg := Ropp;
  c05_sqrt := sqrt;
  c05_q := fun n d => IZR n / IZR d
|}.

Lemma c05_R_zero : c05_zero c05_R = 0.
Proof. unfold c05_zero. cbn. lra. Qed.
Lemma c05_R_one : c05_one c05_R = 1.
Proof. unfold c05_one. cbn. lra. Qed.

Lemma c05_R_q_nonneg n d : (0 <= n)%Z -> (0 < d)%Z -> 0 <= IZR n / IZR d.
Proof.
  intros Hn Hd. apply IZR_le in Hn. apply IZR_lt in Hd.
  unfold Rdiv. apply Rmult_le_pos; [exact Hn|]. left. apply Rinv_0_lt_compat. exact Hd.
Qed.

Lemma c05_R_face_area_nonneg rule order conv xs r :
  c05_face_area c05_R rule order conv xs = Some r -> 0 <= fst r.
Proof.
  apply (c05_face_area_nn c05_R (fun a => 0 <= a)); cbn [c05_R c05_add c05_mul c05_sqrt c05_q].
  - intros; lra.
  - intros a b Ha Hb. apply Rmult_le_pos; assumption.
  - intros a. apply sqrt_pos.
  - apply c05_R_q_nonneg.
Qed.

Lemma c05_R_subdivision tb conv x0 xk l1 l2 :
  fst (c05_face_loop c05_R tb conv (x0 :: l1 ++ xk :: l2)) =
  fst (c05_face_loop c05_R tb conv (x0 :: l1 ++ [xk])) + fst (c05_face_loop c05_R tb conv (x0 :: xk :: l2)).
Proof.
  apply (c05_subdivision c05_R); cbn [c05_R c05_add]; intros; rewrite ?c05_R_zero; lra.
Qed.

Lemma c05_R_fan_sum tb conv xs :
  fst (c05_face_loop c05_R tb conv xs) =
  c05_sum c05_R (map (c05_tri_area c05_R tb) (c05_fan (map (c05_cv conv) xs))).
Proof.
  apply (c05_face_loop_sum c05_R); cbn [c05_R c05_add]; intros; rewrite ?c05_R_zero; lra.
Qed.

(* ========================================================================================== *)
(* Part D — the Jacobian is a function of the Gram matrix of the three corners                   *)

Definition c05_dot (u v : R * R * R) : R :=
  fst (fst u) * fst (fst v) + snd (fst u) * snd (fst v) + snd u * snd v.

(* alpha n1 + beta n2 + gamma n3 *)
Definition c05_lin (c : R * R * R) (n1 n2 n3 : R * R * R) : R * R * R :=
  (fst (fst c) * fst (fst n1) + snd (fst c) * fst (fst n2) + snd c * fst (fst n3),
   fst (fst c) * snd (fst n1) + snd (fst c) * snd (fst n2) + snd c * snd (fst n3),
   fst (fst c) * snd n1 + snd (fst c) * snd n2 + snd c * snd n3).

(* Gram matrix entries g11 g12 g13 g22 g23 g33 *)
Definition c05_gram (n1 n2 n3 : R * R * R) : R * R * R * R * R * R :=
  (c05_dot n1 n1, c05_dot n1 n2, c05_dot n1 n3, c05_dot n2 n2, c05_dot n2 n3, c05_dot n3 n3).

Definition c05_gq (c d : R * R * R) (G : R * R * R * R * R * R) : R :=
  let '(g11, g12, g13, g22, g23, g33) := G in
  let '(c1, c2, c3) := c in let '(d1, d2, d3) := d in
  c1 * d1 * g11 + (c1 * d2 + c2 * d1) * g12 + (c1 * d3 + c3 * d1) * g13
  + c2 * d2 * g22 + (c2 * d3 + c3 * d2) * g23 + c3 * d3 * g33.

Lemma c05_dot_lin c d n1 n2 n3 :
  c05_dot (c05_lin c n1 n2 n3) (c05_lin d n1 n2 n3) = c05_gq c d (c05_gram n1 n2 n3).
Proof.
  destruct c as [[c1 c2] c3], d as [[d1 d2] d3], n1 as [[x1 y1] z1], n2 as [[x2 y2] z2], n3 as [[x3 y3] z3].
  cbv [c05_dot c05_lin c05_gq c05_gram fst snd]. ring.
Qed.

(* the core in terms of the six dot products of dF, dDaF, dDbF *)
Definition c05_core_gram (ff af bf aa ab bb : R) : R :=
  let t := 1 / sqrt ff in
  let t3 := t * t * t in
  sqrt (t3 * t3 * t3 * t3 * (ff * ff * ((ff * aa - af * af) * (ff * bb - bf * bf) - (ff * ab - af * bf) * (ff * ab - af * bf)))).

Lemma c05_jac_core_gram dF dA dB :
  c05_jac_core c05_R dF dA dB =
  c05_core_gram (c05_dot dF dF) (c05_dot dA dF) (c05_dot dB dF) (c05_dot dA dA) (c05_dot dA dB) (c05_dot dB dB).
Proof.
  destruct dF as [[f0 f1] f2], dA as [[a0 a1] a2], dB as [[b0 b1] b2].
  unfold c05_jac_core, c05_core_gram, c05_dot. cbn [c05_R c05_add c05_sub c05_mul c05_div c05_sqrt c05_v0 c05_v1 c05_v2 fst snd].
  rewrite c05_R_one.
  set (t := 1 / sqrt (f0 * f0 + f1 * f1 + f2 * f2)).
  f_equal. ring.
Qed.

Definition c05_gauss_cF (dA dB : R) : R * R * R := ((1 - dB) * (1 - dA), (1 - dB) * dA, dB).
Definition c05_gauss_cA (dA dB : R) : R * R * R := (- (1 - dB), 1 - dB, 0).
Definition c05_gauss_cB (dA dB : R) : R * R * R := (- (1 - dA), - dA, 1).
Definition c05_bary_cF (dA dB : R) : R * R * R := (dA, dB, 1 - dA - dB).
Definition c05_bary_cA : R * R * R := (1, 0, -1).
Definition c05_bary_cB : R * R * R := (0, 1, -1).

Definition c05_jac_of_gram (cF cA cB : R * R * R) (G : R * R * R * R * R * R) : R :=
  c05_core_gram (c05_gq cF cF G) (c05_gq cA cF G) (c05_gq cB cF G) (c05_gq cA cA G) (c05_gq cA cB G) (c05_gq cB cB G).

Lemma c05_R_one_one : 1 / 1 = 1.
Proof. lra. Qed.

Ltac c05_gram_tac :=
  cbn [c05_R c05_add c05_sub c05_mul c05_div c05_neg c05_q c05_v0 c05_v1 c05_v2 fst snd];
  rewrite ?c05_R_one_one;
  rewrite c05_jac_core_gram; unfold c05_jac_of_gram;
  f_equal;
  cbv [c05_dot c05_gq c05_gram c05_gauss_cF c05_gauss_cA c05_gauss_cB c05_bary_cF c05_bary_cA c05_bary_cB fst snd];
  ring.

Lemma c05_jac_gauss_gram n1 n2 n3 dA dB :
  c05_jac_gauss c05_R n1 n2 n3 dA dB =
  c05_jac_of_gram (c05_gauss_cF dA dB) (c05_gauss_cA dA dB) (c05_gauss_cB dA dB) (c05_gram n1 n2 n3).
Proof.
  destruct n1 as [[x1 y1] z1], n2 as [[x2 y2] z2], n3 as [[x3 y3] z3].
  unfold c05_jac_gauss, c05_one. c05_gram_tac.
Qed.

Lemma c05_jac_bary_gram n1 n2 n3 dA dB :
  c05_jac_bary c05_R n1 n2 n3 dA dB =
  (1 / 2) * c05_jac_of_gram (c05_bary_cF dA dB) c05_bary_cA c05_bary_cB (c05_gram n1 n2 n3).
Proof.
  destruct n1 as [[x1 y1] z1], n2 as [[x2 y2] z2], n3 as [[x3 y3] z3].
  unfold c05_jac_bary, c05_one, c05_half.
  cbn [c05_R c05_mul c05_q]. f_equal. c05_gram_tac.
Qed.

(* corners with the same Gram matrix (same pairwise dot products) give the same Jacobian at every
   quadrature point *)
Lemma c05_jac_gauss_rigid n1 n2 n3 m1 m2 m3 dA dB :
  c05_gram n1 n2 n3 = c05_gram m1 m2 m3 ->
  c05_jac_gauss c05_R n1 n2 n3 dA dB = c05_jac_gauss c05_R m1 m2 m3 dA dB.
Proof. intros H. rewrite !c05_jac_gauss_gram, H. reflexivity. Qed.

Lemma c05_jac_bary_rigid n1 n2 n3 m1 m2 m3 dA dB :
  c05_gram n1 n2 n3 = c05_gram m1 m2 m3 ->
  c05_jac_bary c05_R n1 n2 n3 dA dB = c05_jac_bary c05_R m1 m2 m3 dA dB.
Proof. intros H. rewrite !c05_jac_bary_gram, H. reflexivity. Qed.

(* ---- orthogonal maps ---- *)
(* M is given by its rows; c05_ap M v = M v *)
Definition c05_ap (M : (R * R * R) * (R * R * R) * (R * R * R)) (v : R * R * R) : R * R * R :=
  (c05_dot (fst (fst M)) v, c05_dot (snd (fst M)) v, c05_dot (snd M) v).

(* M^T M = I: the columns are orthonormal *)
Definition c05_orth (M : (R * R * R) * (R * R * R) * (R * R * R)) : Prop :=
  let '((a0, a1, a2), (b0, b1, b2), (c0, c1, c2)) := M in
  a0 * a0 + b0 * b0 + c0 * c0 = 1 /\ a1 * a1 + b1 * b1 + c1 * c1 = 1 /\ a2 * a2 + b2 * b2 + c2 * c2 = 1 /\
  a0 * a1 + b0 * b1 + c0 * c1 = 0 /\ a0 * a2 + b0 * b2 + c0 * c2 = 0 /\ a1 * a2 + b1 * b2 + c1 * c2 = 0.

Lemma c05_orth_dot M u v : c05_orth M -> c05_dot (c05_ap M u) (c05_ap M v) = c05_dot u v.
Proof.
  destruct M as [[[[a0 a1] a2] [[b0 b1] b2]] [[c0 c1] c2]], u as [[u0 u1] u2], v as [[v0 v1] v2].
  cbv [c05_orth c05_ap c05_dot fst snd]. intros (H00 & H11 & H22 & H01 & H02 & H12).
  replace ((a0 * u0 + a1 * u1 + a2 * u2) * (a0 * v0 + a1 * v1 + a2 * v2) +
           (b0 * u0 + b1 * u1 + b2 * u2) * (b0 * v0 + b1 * v1 + b2 * v2) +
           (c0 * u0 + c1 * u1 + c2 * u2) * (c0 * v0 + c1 * v1 + c2 * v2))
    with (u0 * v0 * (a0 * a0 + b0 * b0 + c0 * c0) + u1 * v1 * (a1 * a1 + b1 * b1 + c1 * c1)
          + u2 * v2 * (a2 * a2 + b2 * b2 + c2 * c2)
          + (u0 * v1 + u1 * v0) * (a0 * a1 + b0 * b1 + c0 * c1)
          + (u0 * v2 + u2 * v0) * (a0 * a2 + b0 * b2 + c0 * c2)
          + (u1 * v2 + u2 * v1) * (a1 * a2 + b1 * b2 + c1 * c2)) by ring.
  rewrite H00, H11, H22, H01, H02, H12. ring.
Qed.

Lemma c05_orth_gram M n1 n2 n3 :
  c05_orth M -> c05_gram (c05_ap M n1) (c05_ap M n2) (c05_ap M n3) = c05_gram n1 n2 n3.
Proof. intros H. unfold c05_gram. rewrite !(c05_orth_dot M) by exact H. reflexivity. Qed.

Lemma c05_quad_tri_rigid tb n1 n2 n3 m1 m2 m3 acc :
  c05_gram n1 n2 n3 = c05_gram m1 m2 m3 ->
  c05_quad_tri c05_R tb n1 n2 n3 acc = c05_quad_tri c05_R tb m1 m2 m3 acc.
Proof.
  intros H. destruct tb as [dG dW|dG dW]; cbn [c05_quad_tri].
  - apply c05_fold_left_ext. intros a p _. apply c05_fold_left_ext. intros a' q _.
    rewrite (c05_jac_gauss_rigid _ _ _ _ _ _ (fst p) (fst q) H). reflexivity.
  - apply c05_fold_left_ext. intros a p _.
    rewrite (c05_jac_bary_rigid _ _ _ _ _ _ (fst (fst p)) (snd (fst p)) H). reflexivity.
Qed.

(* rigid motion of a face (Cartesian corners): the reported (area, jacobian) pair is unchanged, in
   exact arithmetic, for every rule and order *)
Lemma c05_face_area_rigid M rule order xs :
  c05_orth M ->
  c05_face_area c05_R rule order None (map (c05_ap M) xs) = c05_face_area c05_R rule order None xs.
Proof.
  intros HM. unfold c05_face_area. destruct (c05_select c05_R rule order) as [tb|]; [|reflexivity].
  cbn [option_map]. f_equal. rewrite !c05_face_loop_fan, c05_fan_map, c05_fold_left_map.
  apply c05_fold_left_ext. intros acc t _. cbn [c05_cv fst snd].
  apply c05_quad_tri_rigid. apply c05_orth_gram. exact HM.
Qed.

(* ========================================================================================== *)
(* non-vacuity                                                                                  *)

(* a rotation by the rational angle (3/5, 4/5) about z composed with the axis swap x <-> z and a
   reflection is orthogonal and not the identity *)
Definition c05_ex_M : (R * R * R) * (R * R * R) * (R * R * R) :=
  ((0, 0, -1), (4 / 5, 3 / 5, 0), (3 / 5, - (4 / 5), 0)).
Example c05_orth_nonvacuous : c05_orth c05_ex_M /\ c05_ap c05_ex_M (1, 0, 0) <> (1, 0, 0).
Proof.
  split.
  - cbv [c05_orth c05_ex_M]. repeat split; lra.
  - cbv [c05_ap c05_ex_M c05_dot fst snd]. intros H. injection H as H1 H2 H3. lra.
Qed.

Local Open Scope Z_scope.

(* a fan-diagonal cut of a real pentagon: the hypotheses-free statement has content *)
Example c05_subdivision_nonvacuous :
  exists tb, c05_select c05_fx C05_triangular 4 = Some tb /\
  let S := c05_S in
  let p0 := (S, 0, 0) in let p1 := (0, S, 0) in let p2 := (0, 0, S) in let p3 := (0, - S, 0) in
  0 < fst (c05_face_loop c05_fx tb None [p0; p1; p2]) /\
  0 < fst (c05_face_loop c05_fx tb None [p0; p2; p3]) /\
  fst (c05_face_loop c05_fx tb None ([p0] ++ [p1] ++ p2 :: [p3])) =
  fst (c05_face_loop c05_fx tb None [p0; p1; p2]) + fst (c05_face_loop c05_fx tb None [p0; p2; p3]).
Proof. eexists. split; [vm_compute; reflexivity|]. vm_compute. repeat split. Qed.

(* the cache theorem is about a machine that really computes: on a one-face grid the default
   computation succeeds with a positive area and a later read returns it *)
Definition c05_ex_grid : @c05_grid Z :=
  {| c05_lonlat := c05_fx_pos [(0, 0, 0); (90 * c05_S, 0, 0); (0, 90 * c05_S, 0)];
     c05_xyz := c05_fx_pos c05_octant; c05_conn := [[0; 1; 2]]; c05_npf := [3] |}.
Definition c05_ex_conv : Z -> Z -> c05_fx_vec :=
  c05_fx_conv [((0, 0), (c05_S, 0, 0)); ((90 * c05_S, 0), (0, c05_S, 0)); ((0, 90 * c05_S), (0, 0, c05_S))].
Example c05_cache_nonvacuous :
  exists a, snd (c05_step c05_fx false c05_ex_conv c05_ex_grid
                 (c05_run c05_fx false c05_ex_conv c05_ex_grid (c05_init)
                          [C05_compute C05_gaussian 3 true; C05_total C05_triangular 8; C05_get_jacobian])
                 C05_get_areas) = C05_areas [a] /\ 3 * c05_S / 2 < a.
Proof. eexists. split; [vm_compute; reflexivity|reflexivity]. Qed.

(* the fan of a quadrilateral whose first and last corners share x and y (mirror images across the
   equator) still has its two triangles, the second one ending in the last corner *)
Example c05_fan_nonvacuous :
  let q := [(3, 4, -5); (6, 1, -5); (6, 1, 5); (3, 4, 5)] in
  length (c05_fan q) = 2%nat /\ nth 1 (c05_fan q) ((0, 0, 0), (0, 0, 0), (0, 0, 0)) = ((3, 4, -5), (6, 1, 5), (3, 4, 5)).
Proof. split; reflexivity. Qed.

(* history independence is about a machine that computes: after a history the gaussian-3 request on
   the one-face example grid returns a positive area, the same as on the fresh grid *)
Example c05_history_nonvacuous :
  exists a j s,
    c05_step c05_fx true c05_ex_conv c05_ex_grid
             (c05_run c05_fx true c05_ex_conv c05_ex_grid c05_init
                      [C05_get_areas; C05_compute C05_triangular 8 false; C05_total C05_gaussian 2])
             (C05_compute C05_gaussian 3 true) = (s, C05_pairs [(a, j)]) /\ 3 * c05_S / 2 < a.
Proof. eexists. eexists. eexists. split; [vm_compute; reflexivity|reflexivity]. Qed.

(* the octant triangle in a table of width 3 and of width 6 (three fill entries): same result, positive *)
Example c05_padding_nonvacuous :
  exists a, c05_all_areas c05_fx (c05_fx_pos c05_octant) [[0; 1; 2]] [3] true C05_triangular 4 None = Some [a]
            /\ c05_all_areas c05_fx (c05_fx_pos c05_octant) (map (fun r => r ++ repeat FILL 3) [[0; 1; 2]]) [3] true C05_triangular 4 None = Some [a]
            /\ 3 * c05_S / 2 < fst a.
Proof. eexists. split; [vm_compute; reflexivity|]. split; [vm_compute; reflexivity|reflexivity]. Qed.
