(* Extraction of the executable models to OCaml.  ExtrOcamlBasic only: bool, option, list,
   prod, unit, sumbool are mapped to their OCaml counterparts; Z, positive, N, nat, Q stay the
   extracted inductive datatypes (no Extract Constant / Extract Inductive of our own). *)
From Coq Require Import ExtrOcamlBasic.
From Verif Require Import Base C02.
Extraction Language OCaml.
Extraction "model.ml"
  Z.add Z.mul Z.opp Z.abs Z.div_eucl Z.sub Z.eqb Z.leb Z.ltb Z.of_nat Z.to_nat
  Base.FILL
  C02.build_edges C02.face_edges C02.edges C02.n_nodes_per_face.
