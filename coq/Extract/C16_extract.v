(* Extraction of the exact part (Part 1) of Model/C16.v.  ExtrOcamlBasic only; Q stays the
   extracted record over Z and positive. *)
From Coq Require Import ExtrOcamlBasic.
From Verif Require Import Base C16.
Extraction Language OCaml.
Extraction "c16_model.ml"
  Z.add Z.mul Z.opp Z.abs Z.div_eucl Z.sub Z.eqb Z.leb Z.ltb Z.of_nat Z.to_nat
  Base.FILL
  C16.c16_plans C16.c16_data_run C16.c16_history_presence.
