(* Extraction of the C19 executable heap model.  ExtrOcamlBasic only. *)
From Coq Require Import ExtrOcamlBasic.
From Verif Require Import Base C19.
Extraction Language OCaml.
Extraction "c19_model.ml"
  Z.add Z.mul Z.opp Z.abs Z.div_eucl Z.sub Z.eqb Z.leb Z.ltb Z.of_nat Z.to_nat
  Base.FILL
  C19.c19_get C19.c19_obs C19.c19_reach C19.c19_wt C19.c19_apply C19.c19_run
  C19.c19_copy C19.c19_deepcopy
  C19.c19_process_connectivity C19.c19_process_connectivity_nocopy
  C19.c19_from_topology C19.c19_read_ugrid C19.c19_grid_init
  C19.c19_read_table C19.c19_table_of
  C19.c19_to_xarray_ugrid C19.c19_to_xarray_table C19.c19_export_geo
  C19.c19_srun C19.c19_sstep C19.c19_changed_roots C19.c19_sflags_current
  C19.c19_alias_table C19.c19_modified C19.c19_ds_bufs C19.c19_buf_data C19.c19_var_buf.
