(* Extraction of the C13 executable model (+ the C14 extreme-latitude specification the per-edge extremes are tied to). *)
From Coq Require Import ExtrOcamlBasic.
From Verif Require Import Base C14_consts C14 C13.
Extraction Language OCaml.
Extraction "c13_model.ml"
  Z.add Z.mul Z.opp Z.abs Z.div_eucl Z.sub Z.eqb Z.leb Z.ltb Z.of_nat Z.to_nat
  Base.FILL
  C13.c13_face_bounds C13.c13_pole_inside C13.c13_pole_in_face C13.c13_cycle C13.c13_insert C13.c13_empty C13.c13_lon_in
  C14.c14_extreme_spec C14.c14_on_arc.
