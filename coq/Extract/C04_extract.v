(* Extraction of the C04 symbolic dataflow model (Part 1 of Model/C04.v; nothing over R is
   extracted).  ExtrOcamlBasic only. *)
From Coq Require Import ExtrOcamlBasic.
From Verif Require Import Base C04.
Extraction Language OCaml.
Extraction "c04_model.ml"
  Z.add Z.mul Z.opp Z.abs Z.div_eucl Z.sub Z.eqb Z.leb Z.ltb Z.of_nat Z.to_nat
  Base.FILL
  C04.c04_run_enc.
