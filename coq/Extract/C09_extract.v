From Coq Require Import ExtrOcamlBasic.
From Verif Require Import Base C09 C09_edges.
Extraction Language OCaml.
Extraction "c09_model.ml"
  Z.add Z.mul Z.opp Z.abs Z.div_eucl Z.sub Z.eqb Z.leb Z.ltb Z.of_nat Z.to_nat
  Base.FILL C09.c09_slice_faces C09.c09_faces_touching C09.c09_lat_edges C09.c09_faces_at_lat C09_edges.c09_slice_edge_table_of C09_edges.c09_slice_edge_table.
