From Coq Require Import ExtrOcamlBasic.
From Verif Require Import Base C08.
Extraction Language OCaml.
Extraction "c08_model.ml"
  Z.add Z.mul Z.opp Z.abs Z.div_eucl Z.sub Z.eqb Z.leb Z.ltb Z.of_nat Z.to_nat
  Base.FILL C08.c08_run C08.c08_names C08.c08_observe.
