(* Extraction of the C06 executable model.  ExtrOcamlBasic only. *)
From Coq Require Import ExtrOcamlBasic.
From Verif Require Import Base C06.
Extraction Language OCaml.
Extraction "c06_model.ml"
  Z.add Z.mul Z.opp Z.abs Z.div_eucl Z.sub Z.eqb Z.leb Z.ltb Z.of_nat Z.to_nat
  Base.FILL
  C06.c06_integrate C06.c06_integrate_cur C06.c06_mask_sum C06.c06_integrate_grid C06.c06_grun.
