(* Extraction of the C12 executable model.  ExtrOcamlBasic only; Z, positive, nat, Q stay the
   extracted inductive datatypes. *)
From Coq Require Import ExtrOcamlBasic.
From Verif Require Import Base C11 C12.
Extraction Language OCaml.
Extraction "c12_model.ml"
  Z.add Z.mul Z.opp Z.abs Z.div_eucl Z.sub Z.eqb Z.leb Z.ltb Z.of_nat Z.to_nat Z.gcd
  Base.FILL
  C12.c12_kind_by_length C12.c12_kind_by_dim C12.c12_nn C12.c12_nn_by_dim C12.c12_idw C12.c12_idw_fast
  C12.c12_idw_weights C12.c12_out_dims C12.c12_nn_index.
