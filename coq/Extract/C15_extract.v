(* Extraction of the C15 executable model.  ExtrOcamlBasic only. *)
From Coq Require Import ExtrOcamlBasic.
From Verif Require Import Base C15.
Extraction Language OCaml.
Extraction "c15_model.ml"
  Z.add Z.mul Z.opp Z.abs Z.div_eucl Z.sub Z.eqb Z.leb Z.ltb Z.of_nat Z.to_nat
  Base.FILL
  C15.c15_am_faces C15.c15_spans C15.c15_poly C15.c15_gdf C15.c15_line C15.c15_poly_tables C15.c15_rows C15.c15_da_from_tables C15.c15_poly_full
  C15.c15_init C15.c15_call C15.c15_da_call C15.c15_step C15.c15_obj_get
  C15.c15_sp_of C15.c15_writes_of C15.c15_reads_of C15.c15_copies_of C15.c15_keys_ok.
