(* Extraction of the C18 executable model (ExtrOcamlBasic only). *)
From Coq Require Import ExtrOcamlBasic.
From Verif Require Import Base C18.
Extraction Language OCaml.
Extraction "c18_model.ml"
  Z.add Z.mul Z.opp Z.abs Z.div_eucl Z.sub Z.eqb Z.leb Z.ltb Z.of_nat Z.to_nat
  Base.FILL
  C18.c18_run C18.c18_node_faces C18.c18_order_nodes C18.c18_order_nodes_literal C18.c18_dual_data C18.c18_make_key
  C18.c18_angle_lt C18.c18_angle_gt0 C18.c18_angle_lt2pi.
