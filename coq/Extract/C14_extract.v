(* Extraction of the C14 executable model (ExtrOcamlBasic only; Z stays the extracted datatype). *)
From Coq Require Import ExtrOcamlBasic.
From Verif Require Import Base C14_consts C14.
Extraction Language OCaml.
Extraction "c14_model.ml"
  Z.add Z.mul Z.opp Z.abs Z.div_eucl Z.sub Z.eqb Z.leb Z.ltb Z.of_nat Z.to_nat
  Base.FILL
  C14.c14_on_arc C14.c14_arc_cross C14.c14_extreme_spec
  C14.c14_pwg C14.c14_gca_gca C14.c14_extreme C14.c14_zrot C14.c14_is_pole.
