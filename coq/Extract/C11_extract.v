(* Extraction of the C11 executable model.  ExtrOcamlBasic only (bool, option, list, prod, unit,
   sumbool map to OCaml's); Z, positive, nat stay the extracted inductive datatypes. *)
From Coq Require Import ExtrOcamlBasic.
From Verif Require Import Base C11 C11_keys.
Extraction Language OCaml.
Extraction "c11_model.ml"
  Z.add Z.mul Z.opp Z.abs Z.div_eucl Z.sub Z.eqb Z.leb Z.ltb Z.of_nat Z.to_nat
  Base.FILL
  C11.c11_tree_coords C11.c11_prepare C11.c11_keys C11.c11_knn C11.c11_within C11.c11_rkey
  C11.c11_radius_units C11.c11_query C11.c11_query_radius C11.c11_query_shape C11.c11_out_in_degrees
  C11.c11_n_elements C11.c11_k_ok C11.c11_trace C11.c11_init C11.c11_cfg_complete
  C11_keys.c11_ball_cfg C11_keys.c11_kd_cfg.
