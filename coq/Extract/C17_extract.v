(* Extraction of the C17 executable model (ExtrOcamlBasic only; Z, positive, nat, Q stay the
   extracted inductive datatypes). *)
From Coq Require Import ExtrOcamlBasic QArith.
From Verif Require Import Base C02 C17.
Extraction Language OCaml.
Extraction "c17_model.ml"
  Z.add Z.mul Z.opp Z.abs Z.div_eucl Z.sub Z.eqb Z.leb Z.ltb Z.of_nat Z.to_nat
  Base.FILL
  C17.c17_run_face C17.c17_run_edge C17.c17_gathers C17.c17_loop C17.c17_partitions
  C02.n_nodes_per_face C02.edges
  C17.c17_dispatch C17.c17_result_dims C17.c17_result_shape C17.c17_dim_size
  C17.c17_result_dtype C17.c17_face_row_of_gathers C17.c17_face_row_inplace_sort C17.c17_face_row_positional
  C17.c17_edge_row C17.c17_agg_of.
