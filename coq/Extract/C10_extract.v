From Coq Require Import ExtrOcamlBasic.
From Verif Require Import Base C10.
Extraction Language OCaml.
Extraction "c10_model.ml"
  Z.add Z.mul Z.opp Z.abs Z.div_eucl Z.sub Z.eqb Z.leb Z.ltb Z.of_nat Z.to_nat
  Base.FILL C10.c10_eval C10.c10_consistent C10.c10_step.
