(* Extraction of the C02 executable model.  ExtrOcamlBasic only: bool, option, list, prod, unit,
   sumbool map to OCaml's; Z, positive, N, nat, Q stay the extracted inductive datatypes (no
   Extract Constant / Extract Inductive of our own). *)
From Coq Require Import ExtrOcamlBasic.
From Verif Require Import Base C02 C02_check C02_sup.
Extraction Language OCaml.
Extraction "c02_model.ml"
  Z.add Z.mul Z.opp Z.abs Z.div_eucl Z.sub Z.eqb Z.leb Z.ltb Z.of_nat Z.to_nat
  Base.FILL
  C02.build_edges C02.face_edges C02.edges C02.n_nodes_per_face C02_check.c02_check C02_sup.sup_face_edges.
