(* Extraction of the C05 executable model (fixed-point instance).  ExtrOcamlBasic only: bool,
   option, list, prod, unit, sumbool map to OCaml's; Z, positive, nat stay the extracted inductive
   datatypes (no Extract Constant / Extract Inductive of our own). *)
From Coq Require Import ExtrOcamlBasic.
From Verif Require Import Base C05.
Extraction Language OCaml.
Extraction "c05_model.ml"
  Z.add Z.mul Z.opp Z.abs Z.div_eucl Z.sub Z.eqb Z.leb Z.ltb Z.of_nat Z.to_nat
  Base.FILL
  C05.c05_S C05.c05_fx_face_area C05.c05_fx_grid_areas C05.c05_fx_gauss_table C05.c05_fx_tri_table
  c05_gauss_okb c05_tri_okb C05.c05_default_rule c05_default_order c05_default_latlon c05_dim_cartesian3.
