(* Extraction of the C01 executable reader models.  ExtrOcamlBasic only. *)
From Coq Require Import ExtrOcamlBasic QArith.
From Verif Require Import Base C02 C01.
Extraction Language OCaml.
Extraction "c01_model.ml"
  Z.add Z.mul Z.opp Z.abs Z.div_eucl Z.sub Z.eqb Z.leb Z.ltb Z.of_nat Z.to_nat
  Base.FILL
  C01.c01_ugrid_conn C01.c01_ugrid_conn_fixed C01.c01_topo_conn C01.c01_mpas_padded C01.c01_mpas_plain
  C01.c01_scrip C01.c01_exodus C01.c01_exodus_coords C01.c01_esmf
  C01.c01_fv C01.c01_geos C01.c01_icon C01.c01_icon_encode C01.c01_geo
  C01.c01_wrap_all C01.c01_rd_run C01.c01_faces_of C01.c01_wf_facesb C01.c01_mpas_encode C01.c01_esmf_encode C01.c01_scrip_encode C01.c01_ugrid_dims C01.c01_sniff C01.c01_encode C01.c01_std.
