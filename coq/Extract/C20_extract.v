From Coq Require Import ExtrOcamlBasic.
From Verif Require Import Base C20.
Extraction Language OCaml.
Extraction "c20_model.ml"
  Z.add Z.mul Z.opp Z.abs Z.div_eucl Z.sub Z.eqb Z.leb Z.ltb Z.of_nat Z.to_nat
  Base.FILL C20.c20_eq C20.c20_ne C20.c20_eq_nongrid.
