From Coq Require Import ExtrOcamlBasic.
From Verif Require Import Base C03.
Extraction Language OCaml.
Extraction "c03_model.ml"
  Z.add Z.mul Z.opp Z.abs Z.div_eucl Z.sub Z.eqb Z.leb Z.ltb Z.of_nat Z.to_nat
  Base.FILL C03.c03_edge_faces C03.c03_hole_edges C03.c03_node_faces C03.c03_face_faces.
