(* Extraction of the C07 executable model.  ExtrOcamlBasic only: bool, option, list, prod, unit,
   sumbool map to OCaml's; Z, positive, nat, stay the extracted inductive datatypes
   (no Extract Constant / Extract Inductive of our own). *)
From Coq Require Import ExtrOcamlBasic.
From Verif Require Import Base C07.
Extraction Language OCaml.
Extraction "c07_model.ml"
  Z.add Z.mul Z.opp Z.abs Z.div_eucl Z.sub Z.eqb Z.leb Z.ltb Z.of_nat Z.to_nat
  Base.FILL
  C07.c07_faithful C07.c07_repaired C07.c07_base_template C07.c07_conn_names
  C07.c07_run C07.c07_one C07.c07_closed C07.c07_writable
  C07.c07_encode_ugrid C07.c07_read_ugrid C07.c07_encode_exodus C07.c07_exo_connect
  C07.c07_read_exodus_conn C07.c07_encode_scrip C07.c07_read_scrip C07.c07_positions
  C07.c07_dispatch C07.c07_digest C07.c07_ds_wfb.
