#!/bin/bash
# Offline build of the whole framework: Coq development (full .vo build), extraction, OCaml driver.
set -e
cd "$(dirname "$0")"
mkdir -p .cache/numba .cache/mpl .scratch evidence replays
if [ ! -d .pydeps/mpmath ]; then
  /venv/bin/pip install --no-index --find-links /opt/veriftools/wheels --target .pydeps mpmath >/dev/null 2>&1 || true
fi
export PYTHONPATH=/repo PYTHONHASHSEED=0 PYTHONDONTWRITEBYTECODE=1 NUMBA_CACHE_DIR=/verif/.cache/numba MPLCONFIGDIR=/verif/.cache/mpl
for t in harness/translators/*.py; do
  [ -e "$t" ] && /venv/bin/python -W ignore "$t" /repo coq/Gen
done
./tools/build.sh
for c in ocaml/*_cmds.ml; do
  p=$(basename $c _cmds.ml)
  flock .cache/build.lock make -s -C ocaml driver_$p
done
# forbidden constructs gate
if grep -rnE '\b(Admitted|admit|Axiom|Parameter|Conjecture|bypass_check)\b|Unset Guard|type-in-type' coq --include=*.v | grep -v '^\s*(\*' ; then
  echo "forbidden construct found"; exit 1
fi
echo setup-ok
