#!/bin/bash
# tools/seed_cross.sh <seed> <check ids...>  -- run OTHER properties' quick checks against a kept seeded change (scratch worktree
# /tmp/seedreY/wt, removed afterwards) and record the outcome in meta.json "cross".
S=$1; shift; D=/verif/seeded/$S; WT=/tmp/seedreY_$S/wt; mkdir -p /tmp/seedreY_$S
git -C /repo worktree add -q --detach $WT main || exit 2
cd $WT; git apply $D/patch.diff || { echo "$S APPLY-FAILS"; cd /; git -C /repo worktree remove --force $WT; exit 2; }
for C in "$@"; do
  rm -f /verif/replays/${C}_2026*
  NV=$(cd /verif && VERIF_REPO=$WT ./check $C quick 2>&1 | grep -c "^VIOLATION")
  CL=$(python3 - $C <<'PY'
import json,glob,sys
print(";".join(str(json.load(open(f)).get('clause')) for f in sorted(glob.glob('/verif/replays/%s_2026*_*.json' % sys.argv[1]))[:4]))
PY
)
  rm -f /verif/replays/${C}_2026*
  echo "$S cross-check $C violations=$NV clauses=$CL"
  python3 - $D $C "$NV" "$CL" <<'PY'
import json,sys
d,c,nv,cl=sys.argv[1:5]
m=json.load(open(d+'/meta.json'))
x=m.setdefault('cross',{})
x[c]={'violations_reported':int(nv),'clauses':cl.split(';') if cl else []}
json.dump(m,open(d+'/meta.json','w'),indent=1)
PY
done
cd /; git -C /repo worktree remove --force $WT; git -C /repo worktree prune; rm -rf /tmp/seedreY_$S
