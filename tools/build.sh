#!/bin/bash
# tools/build.sh [make targets relative to coq/]   -- serialised (flock) Coq build; regenerates _CoqProject
cd "$(dirname "$0")/.."
mkdir -p .cache
exec flock .cache/build.lock bash -c '
cd coq
( echo "-Q . Verif"; for d in Model Gen Proofs Props Extract; do ls $d/*.v 2>/dev/null | sort; done ) > _CoqProject.new
if ! cmp -s _CoqProject.new _CoqProject || [ ! -e Makefile ]; then mv _CoqProject.new _CoqProject; coq_makefile -f _CoqProject -o Makefile >/dev/null; else rm _CoqProject.new; fi
timeout 3000 make -j16 "$@"
' _ "$@"
