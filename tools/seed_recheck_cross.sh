#!/bin/bash
# tools/seed_recheck_cross.sh  -- for kept seeds whose recheck by the property's own check reported nothing, run the OTHER checks
# recorded in meta.json our_checks.run (serially) and record the result in meta.json recheck.cross
WT=/tmp/seedreX/wt; mkdir -p /tmp/seedreX
git -C /repo worktree add -q --detach $WT main 2>/dev/null || { cd $WT && git checkout -q -- . && git checkout -q --detach main; }
for D in /verif/seeded/*/; do
  S=$(basename $D); P=${S%%-*}
  OTHERS=$(python3 - $D $P <<'PY'
import json,sys
m=json.load(open(sys.argv[1]+'/meta.json'))
r=m.get('recheck')
if r and not r.get('caught') and not r.get('cross',{}).get('caught'):
    print(" ".join(c for c in m['our_checks']['run'] if c!=sys.argv[2]))
PY
)
  [ -z "$OTHERS" ] && continue
  cd $WT; git reset -q --hard; git clean -qfd -e .numba_cache
  git apply $D/patch.diff 2>/dev/null || { git apply -3 $D/patch.diff 2>/dev/null && git reset -q; } || { echo "$S APPLY-FAILS"; git reset -q --hard; continue; }
  for C in $OTHERS; do
    rm -f /verif/replays/${C}_2026*
    NV=$(cd /verif && VERIF_REPO=$WT ./check $C quick 2>&1 | grep -c "^VIOLATION")
    CL=$(python3 - $C <<'PY'
import json,glob,sys
print(";".join(str(json.load(open(f)).get('clause')) for f in sorted(glob.glob('/verif/replays/%s_2026*_*.json' % sys.argv[1]))[:4]))
PY
)
    rm -f /verif/replays/${C}_2026*
    echo "$S cross-check $C violations=$NV clauses=$CL"
    python3 - $D $C "$NV" "$CL" <<'PY'
import json,sys
d,c,nv,cl=sys.argv[1:5]
m=json.load(open(d+'/meta.json'))
x=m['recheck'].setdefault('cross',{'caught':False,'by':{}})
x['by'][c]={'violations_reported':int(nv),'clauses':cl.split(';') if cl else []}
x['caught']=x['caught'] or int(nv)>0
json.dump(m,open(d+'/meta.json','w'),indent=1)
PY
  done
done
cd /; git -C /repo worktree remove --force $WT; git -C /repo worktree prune; rm -rf /tmp/seedreX
