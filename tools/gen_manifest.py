#!/usr/bin/env python3
"""Regenerates /verif/MANIFEST.json from harness/registry.py."""
import json, os, sys
here = os.path.dirname(os.path.dirname(os.path.abspath(__file__)))
class registry:
    CHECKS = {}
    NOT_YET = {}
rdir = os.path.join(here, "harness", "registry")
for fn in sorted(os.listdir(rdir)):
    if fn.endswith(".json"):
        d = json.load(open(os.path.join(rdir, fn)))
        if d.get("not_applicable"):
            registry.NOT_YET[fn[:-5]] = d["not_applicable"]
        else:
            registry.CHECKS[fn[:-5]] = d
props = [json.loads(l)["id"] for l in open(os.path.join(here, "properties.jsonl"))]
checks = []
for pid in props:
    if pid in registry.CHECKS:
        c = registry.CHECKS[pid]
        checks.append({
            "property_id": pid,
            "quick_cmd": "./check %s quick" % pid,
            "thorough_cmd": "./check %s thorough" % pid,
            "evidence_file": "/verif/evidence/%s.json" % pid,
            "replay_cmd_template": "./check %s --replay {path}" % pid,
            "engine": "coq-proof+correspondence",
            "level_claimed": {"category": "proof", "text": c["text"], "design_ref": c["design_ref"]},
            "level_note": c["note"],
            "technique": c["technique"],
        })
na = [{"property_id": pid, "reason": registry.NOT_YET.get(pid, "check not built yet in this development (work in progress; see DESIGN.md section 9)")}
      for pid in props if pid not in registry.CHECKS]
man = {
    "version": 1,
    "setup_cmd": "./setup.sh",
    "hooks": {"guard": "UXARRAY_VERIF", "enable": "export UXARRAY_VERIF=1 (no hooks are compiled into /repo; the harness observes Grid._ds, caches and module globals from outside)",
              "baseline_off_cmd": "cd /repo && /venv/bin/python -m pytest -ra -q -p no:cacheprovider --timeout=900 --continue-on-collection-errors",
              "source_commits": [], "add_only": True},
    "engines": [{"name": "coq-proof+correspondence", "path": "/verif/coq", "serves_properties": sorted(registry.CHECKS),
                 "kind_free_text": "Coq 8.16.1 development (Model/ Proofs/ Props/ Gen/) + extracted OCaml model (ocaml/driver) + Python correspondence harness (harness/)"}],
    "checks": checks,
    "notes": "All checks: ./check Cxx quick|thorough. Known findings: known_findings.json. Design: DESIGN.md.",
    "not_applicable": na,
}
json.dump(man, open(os.path.join(here, "MANIFEST.json"), "w"), indent=1)
print("checks:", len(checks), "not_applicable:", len(na))
