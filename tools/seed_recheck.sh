#!/bin/bash
# tools/seed_recheck.sh <seed dir names...> -- re-run our quick check against kept seeded changes on the CURRENT /repo main
# (after strengthening). One scratch worktree /tmp/seedre/wt, removed at the end. Updates meta.json "recheck".
L=${LANE:-0}; WT=/tmp/seedre$L/wt; mkdir -p /tmp/seedre$L
git -C /repo worktree add -q --detach $WT main 2>/dev/null || { cd $WT && git checkout -q -- . && git checkout -q --detach main; }
for S in "$@"; do
  D=/verif/seeded/$S; P=${S%%-*}
  cd $WT; git reset -q --hard; git clean -qfd -e .numba_cache
  if ! git apply $D/patch.diff 2>/dev/null; then
    if ! git apply -3 $D/patch.diff 2>/dev/null; then echo "$S APPLY-FAILS"; git reset -q --hard; continue; fi
    git reset -q
  fi
  PYTHONPATH=$WT NUMBA_CACHE_DIR=$WT/.numba_cache timeout 600 /venv/bin/python -W ignore $D/demo.py >/tmp/seedre$L/demo.out 2>&1; DEMO=$?
  rm -f /verif/replays/${P}_2026*
  OUT=$(cd /verif && VERIF_REPO=$WT ./check $P quick 2>&1 | grep -v "KNOWN-FINDING\|conda"); CE=$?
  NV=$(echo "$OUT" | grep -c "^VIOLATION")
  CL=$(python3 - $P <<'PY'
import json,glob,sys
out=[]
for f in sorted(glob.glob('/verif/replays/%s_2026*_*.json' % sys.argv[1]))[:4]:
    r=json.load(open(f)); out.append(str(r.get('clause'))+":"+str(r.get('kind')))
print(";".join(out))
PY
)
  rm -f /verif/replays/${P}_2026*
  echo "$S demo_exit=$DEMO violations=$NV clauses=$CL"
  python3 - $D "$DEMO" "$NV" "$CL" <<'PY'
import json,sys,subprocess
d,demo,nv,cl=sys.argv[1:5]
m=json.load(open(d+'/meta.json'))
head=subprocess.run(['git','-C','/repo','rev-parse','--short','main'],capture_output=True,text=True).stdout.strip()
m['recheck']={'repo_main':head,'demo_exit_on_patched_tree':int(demo),'violations_reported':int(nv),'clauses':cl.split(';') if cl else [],'caught':int(nv)>0}
json.dump(m,open(d+'/meta.json','w'),indent=1)
PY
done
cd /; git -C /repo worktree remove --force $WT; git -C /repo worktree prune; rm -rf /tmp/seedre$L
