#!/usr/bin/env python3
"""tools/seed_keep.py <Cxx> <k> <caught: yes|no|tie> <check ids> <clauses...>  — copy a confirmed seeded change into /verif/seeded/"""
import json, os, shutil, sys, re
pid, k, caught, checks = sys.argv[1:5]
clauses = sys.argv[5:]
base = os.environ.get("SEED_BASE", "/tmp/seed")
tag = os.environ.get("SEED_TAG", "")
src = "%s/%s/out/%s" % (base, pid, k)
dst = "/verif/seeded/%s-%s%s" % (pid, tag.replace("_", "-"), k)
os.makedirs(dst, exist_ok=True)
for f in ("patch.diff", "demo.py", "notes.md"):
    shutil.copy(os.path.join(src, f), os.path.join(dst, f))
notes = open(os.path.join(src, "notes.md")).read()
m = re.search(r"(?is)(needs?|manifest)[^\n]*\n(.{0,600})", notes)
meta = {
    "property": pid,
    "what": notes.strip().split("\n")[0][:300],
    "needs_to_manifest": (m.group(0)[:700] if m else "see notes.md"),
    "confirmed_by_us": {
        "demo_on_clean_tree": "PASS (exit 0)", "demo_on_patched_tree": "FAIL (exit 1)",
        "stable_baseline_on_patched_tree": "177/177 (tools/run_baseline.sh on the scratch worktree)",
        "commands": ["tools/seed_eval.sh %s %s %s" % (pid, k, checks)],
    },
    "our_checks": {"run": checks.split(","), "caught": caught, "failing_clauses": clauses},
}
json.dump(meta, open(os.path.join(dst, "meta.json"), "w"), indent=1)
print("kept", dst)
