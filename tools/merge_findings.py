#!/usr/bin/env python3
"""Merges known_findings.d/*.json (per-property fragments written by the property owners) into the single
committed known_findings.json (entries are keyed by id; fragments win)."""
import glob, json, os
here = os.path.dirname(os.path.dirname(os.path.abspath(__file__)))
main = json.load(open(os.path.join(here, "known_findings.json")))
byid = {e["id"]: e for e in main}
order = [e["id"] for e in main]
for f in sorted(glob.glob(os.path.join(here, "known_findings.d", "*.json"))):
    for e in json.load(open(f)):
        if e["id"] not in byid:
            order.append(e["id"])
        byid[e["id"]] = e
out = [byid[i] for i in order]
out.sort(key=lambda e: (e["property"], 0 if e.get("status") == "known" else 1, e["id"]))
json.dump(out, open(os.path.join(here, "known_findings.json"), "w"), indent=1)
print("entries:", len(out), "known:", sum(1 for e in out if e.get("status") == "known"), "fixed:", sum(1 for e in out if e.get("status") == "fixed"))
