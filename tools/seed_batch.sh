#!/bin/bash
# tools/seed_batch.sh Cxx [extra checks]  -- evaluate seeds 1..3 of a property, compact log in /tmp/me/seed_<Cxx>.log
P=$1; shift
for k in 1 2 3; do
  [ -f ${SEED_BASE:-/tmp/seed}/$P/out/$k/patch.diff ] || continue
  echo "######## $P-$k"; /verif/tools/seed_eval.sh $P $k $P "$@"
done 2>&1 | grep -v "conda\|^  \[\|^   [^ ]" > /tmp/me/seed_${SEED_TAG}$P.log
grep "^####\|exit=\|baseline\|VIOLATION\|^      \|DOES NOT" /tmp/me/seed_${SEED_TAG}$P.log
