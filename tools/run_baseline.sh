#!/bin/bash
# runs /repo's test-suite (guard off) and compares with the 177 stable passes of /root/.vp/BASELINE.json
# usage: tools/run_baseline.sh [repo dir]
R=${1:-/repo}
OUT=/verif/.scratch/baseline_$$.xml
mkdir -p /verif/.scratch
cd $R && env -u UXARRAY_VERIF NUMBA_CACHE_DIR=/verif/.cache/numba_tests /venv/bin/python -m pytest -q -p no:cacheprovider --timeout=900 --continue-on-collection-errors --junitxml=$OUT >/dev/null 2>&1
python3 - $OUT <<'PY'
import json, sys, xml.etree.ElementTree as ET
base = set(json.load(open('/root/.vp/BASELINE.json'))['stable_pass'])
ok = set()
for tc in ET.parse(sys.argv[1]).getroot().iter('testcase'):
    if not any(ch.tag in ('failure', 'error', 'skipped') for ch in tc):
        ok.add(tc.get('classname') + '::' + tc.get('name'))
missing = sorted(base - ok)
print('baseline stable passes: %d/%d' % (len(base & ok), len(base)))
for m in missing: print('  NOW FAILING:', m)
sys.exit(1 if missing else 0)
PY
rc=$?
rm -f $OUT
git -C $R status --short | grep -v '^??' | head -3
exit $rc
