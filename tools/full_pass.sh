#!/bin/bash
# runs every claimed check (quick tier by default) on /repo and prints one line per property
cd "$(dirname "$0")/.."
TIER=${1:-quick}
for p in $(python3 -c "import json; print(' '.join(c['property_id'] for c in json.load(open('MANIFEST.json'))['checks']))"); do
  s=$(date +%s)
  out=$(./check $p $TIER 2>&1); rc=$?
  e=$(date +%s)
  kf=$(echo "$out" | grep -c KNOWN-FINDING)
  v=$(echo "$out" | grep -c VIOLATION)
  echo "$p exit=$rc wall=$((e-s))s known=$kf violations=$v"
  echo "$out" | grep VIOLATION | head -3
done
