#!/bin/bash
# tools/seed_eval.sh <Cxx> <k> [check ids...]  -- confirm a seeded change and run our check(s) against it.
# Uses the scratch worktree /tmp/seed/<Cxx>/wt; never touches /repo.
P=$1; K=$2; shift 2; CHECKS=${@:-$P}; SEED_BASE=${SEED_BASE:-/tmp/seed}
WT=$SEED_BASE/$P/wt; OUT=$SEED_BASE/$P/out/$K
cd $WT || exit 2
git checkout -q -- . ; git checkout -q --detach main
echo "== demo on clean tree"; PYTHONPATH=$WT NUMBA_CACHE_DIR=$WT/.numba_cache /venv/bin/python -W ignore $OUT/demo.py 2>&1 | tail -3; echo "exit=$?"
git apply $OUT/patch.diff || { echo "PATCH DOES NOT APPLY"; exit 2; }
git diff --stat | tail -2
echo "== demo on patched tree"; PYTHONPATH=$WT NUMBA_CACHE_DIR=$WT/.numba_cache /venv/bin/python -W ignore $OUT/demo.py 2>&1 | tail -4; 
if [ -z "$SKIP_BASELINE" ]; then echo "== baseline on patched tree"; /verif/tools/run_baseline.sh $WT 2>&1 | grep -v "^ M" | tail -3; fi
for c in $CHECKS; do
  echo "== ./check $c quick against patched tree"
  (cd /verif && VERIF_REPO=$WT ./check $c quick 2>&1 | grep -v KNOWN-FINDING | cut -c1-160 | head -4; echo "check-exit=${PIPESTATUS[0]}")
  python3 - $c <<'PY'
import json,glob,sys
for f in sorted(glob.glob('/verif/replays/%s_2026*_*.json' % sys.argv[1]))[:3]:
    r=json.load(open(f)); print('     ', r.get('clause'), r.get('info'), r.get('kind'), str(r.get('proof_errors',''))[:200])
PY
  rm -f /verif/replays/${c}_2026*_*
done
git checkout -q -- .
