(* ---- commands ---- *)
(* (table idx) -> (new_table node_indices) *)
let cmd_c09_slice (x : sx) : sx =
  match x with
  | L [t; idx] ->
      let (nt, ni) = c09_slice_faces (table_of_sx t) (list_of_sx z_of_sx idx) in
      L [sx_of_table nt; sx_of_list sx_of_z ni]
  | _ -> failwith "c09_slice"

(* (edge_z_pairs c edge_face) -> faces *)
let cmd_c09_lat (x : sx) : sx =
  match x with
  | L [ez; c; ef] ->
      sx_of_list sx_of_z (c09_faces_at_lat (list_of_sx (pair_of_sx z_of_sx z_of_sx) ez) (z_of_sx c) (table_of_sx ef))
  | _ -> failwith "c09_lat"

(* (incidence idx) -> faces *)
let cmd_c09_touch (x : sx) : sx =
  match x with
  | L [inc; idx] -> sx_of_list sx_of_z (c09_faces_touching (table_of_sx inc) (list_of_sx z_of_sx idx))
  | _ -> failwith "c09_touch"

(* (table edge_table face_edge idx) -> (carried_edge_table edge_indices) *)
let cmd_c09_edges (x : sx) : sx =
  match x with
  | L [t; e; fe; idx] ->
      let (tab, ei) = c09_slice_edge_table_of (table_of_sx t) (list_of_sx (pair_of_sx z_of_sx z_of_sx) e) (table_of_sx fe)
                        (list_of_sx z_of_sx idx) in
      L [sx_of_list (sx_of_pair sx_of_z sx_of_z) tab; sx_of_list sx_of_z ei]
  | _ -> failwith "c09_edges"

let commands : (string * (sx -> sx)) list = [
  "c09_edges", cmd_c09_edges;
  "c09_slice", cmd_c09_slice;
  "c09_lat", cmd_c09_lat;
  "c09_touch", cmd_c09_touch;
]
