(* ---- C14 commands: vectors are (x y z) of decimal integers ---- *)
let vec_of_sx = function
  | L [x; y; z] -> ((z_of_sx x, z_of_sx y), z_of_sx z)
  | _ -> failwith "vec_of_sx"
let sx_of_vec ((x, y), z) = L [sx_of_z x; sx_of_z y; sx_of_z z]
let sx_of_lat (s, q) = L [sx_of_z s; sx_of_z q]
let sx_of_optbool = function None -> A "E" | Some true -> A "1" | Some false -> A "0"

(* (a b p) -> (spec faithful) *)
let cmd_pwg (x : sx) : sx =
  match x with
  | L [a; b; p] ->
      let a = vec_of_sx a and b = vec_of_sx b and p = vec_of_sx p in
      L [ sx_of_bool (c14_on_arc a b p); sx_of_optbool (c14_pwg a b p) ]
  | _ -> failwith "pwg: expected (a b p)"

(* (a b c d) -> (spec_points faithful_points|E) *)
let cmd_gca (x : sx) : sx =
  match x with
  | L [a; b; c; d] ->
      let a = vec_of_sx a and b = vec_of_sx b and c = vec_of_sx c and d = vec_of_sx d in
      L [ sx_of_list sx_of_vec (c14_arc_cross a b c d);
          (match c14_gca_gca a b c d with None -> A "E" | Some l -> sx_of_list sx_of_vec l) ]
  | _ -> failwith "gca: expected (a b c d)"

(* (a da b db) -> (spec_max spec_min faithful_max faithful_min), each (s q): sin(lat) = s/sqrt(q) *)
let cmd_ext (x : sx) : sx =
  match x with
  | L [a; da; b; db] ->
      let a = vec_of_sx a and b = vec_of_sx b and da = z_of_sx da and db = z_of_sx db in
      L [ sx_of_lat (c14_extreme_spec a b true); sx_of_lat (c14_extreme_spec a b false);
          sx_of_lat (c14_extreme a da b db true); sx_of_lat (c14_extreme a da b db false) ]
  | _ -> failwith "ext: expected (a da b db)"

let commands : (string * (sx -> sx)) list = [
  "pwg", cmd_pwg;
  "gca", cmd_gca;
  "ext", cmd_ext;
]
