(* ---- commands ---- *)
let grid_of_sx = function
  | L [s; lon; lat; conn] ->
      { c20_spec = z_of_sx s;
        c20_lon = list_of_sx (pair_of_sx z_of_sx z_of_sx) lon;
        c20_lat = list_of_sx (pair_of_sx z_of_sx z_of_sx) lat;
        c20_conn = table_of_sx conn }
  | _ -> failwith "grid_of_sx"

(* (g h) -> (eq ne eq_swapped) *)
let cmd_c20 (x : sx) : sx =
  match x with
  | L [g; h] ->
      let g = grid_of_sx g and h = grid_of_sx h in
      L [sx_of_bool (c20_eq g h); sx_of_bool (c20_ne g h); sx_of_bool (c20_eq h g)]
  | _ -> failwith "c20: expected (g h)"

let cmd_c20_nongrid (x : sx) : sx = sx_of_bool (c20_eq_nongrid true true true true)

let commands : (string * (sx -> sx)) list = [
  "c20", cmd_c20;
  "c20_nongrid", cmd_c20_nongrid;
]
