(* ---- commands of the C05 driver ---- *)
let vec_of_sx = function
  | L [a; b; c] -> ((z_of_sx a, z_of_sx b), z_of_sx c)
  | _ -> failwith "vec_of_sx"
let sx_of_acc (a, j) = L [sx_of_z a; sx_of_z j]
let conv_of_sx = list_of_sx (function
  | L [L [lo; la]; v] -> ((z_of_sx lo, z_of_sx la), vec_of_sx v)
  | _ -> failwith "conv_of_sx")
let sx_of_opt f = function None -> A "N" | Some x -> f x

(* (rule order sph conv nodes) -> (area jacobian) | N ; rule: 0 gaussian, 1 triangular, else invalid *)
let cmd_area (x : sx) : sx =
  match x with
  | L [rule; order; sph; conv; nodes] ->
      sx_of_opt sx_of_acc
        (c05_fx_face_area (z_of_sx rule) (z_of_sx order) (bool_of_sx sph) (conv_of_sx conv)
           (list_of_sx vec_of_sx nodes))
  | _ -> failwith "c05_area: expected (rule order sph conv nodes)"

(* (fixdim rule order latlon conv lonlat xyz table npf) -> ((area jac) ...) | N *)
let cmd_grid (x : sx) : sx =
  match x with
  | L [fixdim; rule; order; latlon; conv; lonlat; xyz; t; npf] ->
      sx_of_opt (sx_of_list sx_of_acc)
        (c05_fx_grid_areas (bool_of_sx fixdim) (z_of_sx rule) (z_of_sx order) (bool_of_sx latlon)
           (conv_of_sx conv) (list_of_sx vec_of_sx lonlat) (list_of_sx vec_of_sx xyz)
           (table_of_sx t) (list_of_sx z_of_sx npf))
  | _ -> failwith "c05_grid: expected (fixdim rule order latlon conv lonlat xyz table npf)"

(* (kind order) -> (den points weights) | N ; kind 0 = gauss (scaled as the function returns it), 1 = tri *)
let cmd_table (x : sx) : sx =
  match x with
  | L [A "0"; n] ->
      sx_of_opt (fun (d, (g, w)) -> L [sx_of_z d; sx_of_list sx_of_z g; sx_of_list sx_of_z w])
        (c05_fx_gauss_table (z_of_sx n))
  | L [A "1"; n] ->
      sx_of_opt (fun (d, (p, w)) ->
          L [sx_of_z d; sx_of_list (fun ((a, b), c) -> L [sx_of_z a; sx_of_z b; sx_of_z c]) p; sx_of_list sx_of_z w])
        (c05_fx_tri_table (z_of_sx n))
  | _ -> failwith "c05_table: expected (kind order)"

(* () -> (default_is_triangular default_order default_latlon dim_cartesian3) *)
let cmd_defaults (_ : sx) : sx =
  L [sx_of_bool (match c05_default_rule with C05_triangular -> true | _ -> false);
     sx_of_z c05_default_order; sx_of_bool c05_default_latlon; sx_of_bool c05_dim_cartesian3]

let commands : (string * (sx -> sx)) list = [
  "c05_area", cmd_area;
  "c05_grid", cmd_grid;
  "c05_table", cmd_table;
  "c05_defaults", cmd_defaults;
]
