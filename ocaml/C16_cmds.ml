(* ---- commands ---- *)
let zpair_of_sx = pair_of_sx z_of_sx z_of_sx
let sx_of_zpair = sx_of_pair sx_of_z sx_of_z

(* (sup_end sup_efd edge_nodes edge_faces) -> (plan_end plan_efd), entries (tag i j) *)
let cmd_plans (x : sx) : sx =
  match x with
  | L [se; sf; en; ef] ->
      let b s = (int_of_sx s) <> 0 in
      let (p1, p2) = c16_plans (b se) (b sf) (list_of_sx zpair_of_sx en) (list_of_sx zpair_of_sx ef) in
      L [ sx_of_table p1; sx_of_table p2 ]
  | _ -> failwith "plans: expected (sup_end sup_efd edge_nodes edge_faces)"

(* (rows edge_nodes edge_faces dist node_centred), rationals as (num den) -> (diff grad) *)
let cmd_data (x : sx) : sx =
  match x with
  | L [rows; en; ef; dist; nc] ->
      let rows = list_of_sx (list_of_sx zpair_of_sx) rows in
      let (d, g) = c16_data_run rows (list_of_sx zpair_of_sx en) (list_of_sx zpair_of_sx ef)
                     (list_of_sx zpair_of_sx dist) ((int_of_sx nc) <> 0) in
      L [ sx_of_list (sx_of_list sx_of_zpair) d; sx_of_list (sx_of_list sx_of_zpair) g ]
  | _ -> failwith "data: expected (rows edge_nodes edge_faces dist node_centred)"

(* (sup_end sup_efd edge_nodes edge_faces (op ...)) -> per prefix of the history: (end present, efd present) *)
let cmd_history (x : sx) : sx =
  match x with
  | L [se; sf; en; ef; ops] ->
      let b s = (int_of_sx s) <> 0 in
      sx_of_table (c16_history_presence (b se) (b sf) (list_of_sx zpair_of_sx en) (list_of_sx zpair_of_sx ef)
                     (list_of_sx z_of_sx ops))
  | _ -> failwith "history: expected (sup_end sup_efd edge_nodes edge_faces ops)"

let commands : (string * (sx -> sx)) list = [
  "history", cmd_history;
  "plans", cmd_plans;
  "data", cmd_data;
]
