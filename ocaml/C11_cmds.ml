(* ---- C11 commands ---- *)
let kind_of_sx x = match int_of_sx x with 0 -> C11Nodes | 1 -> C11Faces | 2 -> C11Edges | _ -> failwith "kind"
let sys_of_sx x = match int_of_sx x with 0 -> C11Spherical | 1 -> C11Cartesian | _ -> failwith "system"
let metric_of_sx x = match int_of_sx x with 0 -> C11Hav | 1 -> C11L2 | 2 -> C11L1 | 3 -> C11Linf | _ -> failwith "metric"
let tree_of_sx x = match int_of_sx x with 0 -> C11Ball | 1 -> C11KD | _ -> failwith "tree"
let int_of_kind = function C11Nodes -> 0 | C11Faces -> 1 | C11Edges -> 2
let int_of_sys = function C11Spherical -> 0 | C11Cartesian -> 1
let int_of_metric = function C11Hav -> 0 | C11L2 -> 1 | C11L1 -> 2 | C11Linf -> 3
let sx_of_int n = A (string_of_int n)
let zl = list_of_sx z_of_sx
let pts_of_sx = list_of_sx zl
let sx_of_pts = sx_of_list (sx_of_list sx_of_z)
let cset_of_sx = function
  | L [a; b; c; d; e] -> { cs_lon = zl a; cs_lat = zl b; cs_x = zl c; cs_y = zl d; cs_z = zl e }
  | _ -> failwith "cset"
let grid_of_sx = function
  | L [n; f; e] -> { cg_node = cset_of_sx n; cg_face = cset_of_sx f; cg_edge = cset_of_sx e }
  | _ -> failwith "grid"
let sx_of_res = sx_of_list (sx_of_list (fun (d, j) -> L [sx_of_z d; sx_of_int (int_of_nat j)]))

(* (num grid kind sys) -> tree coordinates *)
let cmd_coords = function
  | L [num; g; k; s] -> sx_of_pts (c11_tree_coords (z_of_sx num) (grid_of_sx g) (kind_of_sx k) (sys_of_sx s))
  | _ -> failwith "coords"

(* (num T sys metric queries rad) -> (1 prepared) | (0) *)
let cmd_prepare = function
  | L [num; t; s; m; q; rad] ->
      (match c11_prepare (z_of_sx num) (z_of_sx t) (sys_of_sx s) (metric_of_sx m) (pts_of_sx q) (bool_of_sx rad) with
       | Some pq -> L [A "1"; sx_of_pts pq]
       | None -> L [A "0"])
  | _ -> failwith "prepare"

(* (metric tree queries k) -> per query ((key idx) ...) nearest first *)
let cmd_knn = function
  | L [m; tr; q; k] ->
      let m = metric_of_sx m and tr = pts_of_sx tr and k = nat_of_int (int_of_sx k) in
      sx_of_res (List.map (fun p -> c11_knn (c11_keys m tr p) k) (pts_of_sx q))
  | _ -> failwith "knn"

(* (metric tree queries rk) -> per query ((key idx) ...) within the key threshold *)
let cmd_within = function
  | L [m; tr; q; rk] ->
      let m = metric_of_sx m and tr = pts_of_sx tr and rk = z_of_sx rk in
      sx_of_res (List.map (fun p -> c11_within (c11_keys m tr p) rk) (pts_of_sx q))
  | _ -> failwith "within"

(* (num T pi tree sys metric r) -> (radius in tree units, key threshold) *)
let cmd_rkey = function
  | L [num; t; pi; tr; s; m; r] ->
      let ru = c11_radius_units (z_of_sx num) (z_of_sx t) (z_of_sx pi) (tree_of_sx tr) (sys_of_sx s) (z_of_sx r) in
      L [sx_of_z ru; sx_of_z (c11_rkey (metric_of_sx m) ru)]
  | _ -> failwith "rkey"

(* (num T grid kind sys metric queries rad k) -> (1 result shape out_in_degrees) | (0) *)
let cmd_query = function
  | L [num; t; g; kd; s; m; q; rad; k] ->
      let s' = sys_of_sx s and q' = pts_of_sx q and k' = nat_of_int (int_of_sx k) in
      (match c11_query (z_of_sx num) (z_of_sx t) (grid_of_sx g) (kind_of_sx kd) s' (metric_of_sx m) q'
               (bool_of_sx rad) k' with
       | Some res -> L [A "1"; sx_of_res res;
                        sx_of_list (fun n -> sx_of_int (int_of_nat n)) (c11_query_shape (nat_of_int (List.length q')) k');
                        sx_of_bool (c11_out_in_degrees s' (bool_of_sx rad))]
       | None -> L [A "0"])
  | _ -> failwith "query"

(* (num T pi tree grid kind sys metric queries rad r) -> (1 result out_in_degrees) | (0) *)
let cmd_query_radius = function
  | L [num; t; pi; tr; g; kd; s; m; q; rad; r] ->
      let s' = sys_of_sx s in
      (match c11_query_radius (z_of_sx num) (z_of_sx t) (z_of_sx pi) (tree_of_sx tr) (grid_of_sx g) (kind_of_sx kd) s'
               (metric_of_sx m) (pts_of_sx q) (bool_of_sx rad) (z_of_sx r) with
       | Some res -> L [A "1"; sx_of_res res; sx_of_bool (c11_out_in_degrees s' (bool_of_sx rad))]
       | None -> L [A "0"])
  | _ -> failwith "query_radius"

(* ((tree kind sys metric reconstruct) ...) -> per request (kind sys metric creator) of the object handed
   back, under the cache keys regenerated from the source (Gen/C11_keys.v); sys = -1 when the slot is empty *)
let req_of_sx = function
  | L [t; k; s; m; r] -> { rq_tree = tree_of_sx t; rq_kind = kind_of_sx k; rq_sys = sys_of_sx s;
                           rq_metric = metric_of_sx m; rq_reconstruct = bool_of_sx r }
  | _ -> failwith "req"
let cmd_trace (x : sx) : sx =
  let rs = list_of_sx req_of_sx x in
  sx_of_list (fun ((k, sm), id) ->
      match sm with
      | Some (s, m) -> L [sx_of_int (int_of_kind k); sx_of_int (int_of_sys s); sx_of_int (int_of_metric m); sx_of_int (int_of_nat id)]
      | None -> L [sx_of_int (int_of_kind k); A "-1"; A "-1"; sx_of_int (int_of_nat id)])
    (c11_trace c11_ball_cfg c11_kd_cfg c11_init rs)

(* () -> the regenerated keys and their completeness *)
let cmd_cfg (_ : sx) : sx =
  let f c = L [sx_of_bool c.cf_rb_kind; sx_of_bool c.cf_rb_sys; sx_of_bool c.cf_rb_metric; sx_of_bool c.cf_switch;
               sx_of_bool (c11_cfg_complete c)] in
  L [f c11_ball_cfg; f c11_kd_cfg]

let commands : (string * (sx -> sx)) list = [
  "coords", cmd_coords; "prepare", cmd_prepare; "knn", cmd_knn; "within", cmd_within; "rkey", cmd_rkey;
  "query", cmd_query; "query_radius", cmd_query_radius; "trace", cmd_trace; "cfg", cmd_cfg;
]
