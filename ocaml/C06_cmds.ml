(* ---- commands of the C06 driver ---- *)
(* (byname (nface nnode nedge) areas (shape dims name grid data))
     -> (ok shape dims name grid data) | (err code)   code: 0 index, 1 node, 2 edge, 3 size *)
let arr_of_sx = function
  | L [shape; dims; name; grid; data] ->
      { c06_shape = list_of_sx z_of_sx shape; c06_dims = list_of_sx z_of_sx dims;
        c06_name = z_of_sx name; c06_grid = z_of_sx grid; c06_data = list_of_sx z_of_sx data }
  | _ -> failwith "arr_of_sx"
let counts_of_sx = function
  | L [nf; nn; ne] -> { c06_nface = z_of_sx nf; c06_nnode = z_of_sx nn; c06_nedge = z_of_sx ne }
  | _ -> failwith "counts_of_sx"
let sx_of_result = function
  | C06_ok r -> L [A "ok"; sx_of_list sx_of_z r.c06_shape; sx_of_list sx_of_z r.c06_dims;
                   sx_of_z r.c06_name; sx_of_z r.c06_grid; sx_of_list sx_of_z r.c06_data]
  | C06_index_error -> L [A "err"; A "0"]
  | C06_node_error -> L [A "err"; A "1"]
  | C06_edge_error -> L [A "err"; A "2"]
  | C06_size_error -> L [A "err"; A "3"]

(* explicit dispatch variant (byname = 1: name check first; 0: size dispatch only, the code before 3b40859b) *)
let cmd_c06 (x : sx) : sx =
  match x with
  | L [bn; g; areas; a] ->
      sx_of_result (c06_integrate (bool_of_sx bn) (counts_of_sx g) (list_of_sx z_of_sx areas) (arr_of_sx a))
  | _ -> failwith "c06: expected (byname (nface nnode nedge) areas (shape dims name grid data))"

(* the model of the current tree: ((nface nnode nedge) areas (shape dims name grid data)) *)
let cmd_c06_cur (x : sx) : sx =
  match x with
  | L [g; areas; a] -> sx_of_result (c06_integrate_cur (counts_of_sx g) (list_of_sx z_of_sx areas) (arr_of_sx a))
  | _ -> failwith "c06_cur: expected ((nface nnode nedge) areas (shape dims name grid data))"

(* (areas mask) -> area of the faces selected by the 0/1 mask *)
let cmd_c06_mask (x : sx) : sx =
  match x with
  | L [areas; mask] -> sx_of_z (c06_mask_sum (list_of_sx z_of_sx areas) (list_of_sx z_of_sx mask))
  | _ -> failwith "c06_mask: expected (areas mask)"

(* integrate on a grid object with a history: (stored ops (nface nnode nedge) areas a)
   stored: N | list (what _ds["face_areas"] holds); ops: list of 0 (read face_areas) | (1 list) (assign);
   areas: compute_face_areas(rule, order) on the current coordinates *)
let cmd_c06_hist (x : sx) : sx =
  match x with
  | L [stored; ops; g; areas; a] ->
      let ar = list_of_sx z_of_sx areas in
      let areas_of _ _ = ar in
      let s0 = { c06_stored_areas = (match stored with A "N" -> None | l -> Some (list_of_sx z_of_sx l)); c06_stored_jac = None } in
      let ops = list_of_sx (function A "0" -> C06_op_read_face_areas
                                   | L [A "1"; l] -> C06_op_assign_face_areas (list_of_sx z_of_sx l)
                                   | L [A "2"] -> C06_op_compute (z_of_int 0, z_of_int 3)
                                   | _ -> failwith "op") ops in
      let s = c06_grun areas_of (z_of_int 1) (z_of_int 4) s0 ops in
      sx_of_result (c06_integrate_grid areas_of (counts_of_sx g) s (z_of_int 1) (z_of_int 4) (arr_of_sx a))
  | _ -> failwith "c06_hist: expected (stored ops counts areas arr)"

let commands : (string * (sx -> sx)) list = [
  "c06", cmd_c06;
  "c06_cur", cmd_c06_cur;
  "c06_mask", cmd_c06_mask;
  "c06_hist", cmd_c06_hist;
]
