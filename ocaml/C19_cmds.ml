(* ---- C19 commands: heaps travel as lists of cells
     (B v ...) buffer | (D (k v) ...) dict | (V b a) Variable | (S a (name v) ...) Dataset ---- *)
let nat_of_sx s = nat_of_int (int_of_sx s)
let sx_of_nat n = A (string_of_int (int_of_nat n))

let cell_of_sx = function
  | L (A "B" :: vs) -> C19Buf (List.map z_of_sx vs)
  | L (A "D" :: kvs) -> C19Dict (List.map (pair_of_sx z_of_sx z_of_sx) kvs)
  | L [A "V"; b; a] -> C19Var (nat_of_sx b, nat_of_sx a)
  | L (A "S" :: a :: vars) -> C19Ds (List.map (pair_of_sx z_of_sx nat_of_sx) vars, nat_of_sx a)
  | _ -> failwith "cell_of_sx"
let heap_of_sx = list_of_sx cell_of_sx

let op_of_sx = function
  | L [A "SV"; n; d; at] -> C19SetVar (z_of_sx n, list_of_sx z_of_sx d, list_of_sx (pair_of_sx z_of_sx z_of_sx) at)
  | L [A "SD"; n; d] -> C19SetData (z_of_sx n, list_of_sx z_of_sx d)
  | L [A "WB"; n; d] -> C19WriteBuf (z_of_sx n, list_of_sx z_of_sx d)
  | L [A "SA"; n; k; v] -> C19SetAttr (z_of_sx n, z_of_sx k, z_of_sx v)
  | L [A "DV"; n] -> C19DelVar (z_of_sx n)
  | _ -> failwith "op_of_sx"

let opt_z_of_sx = function A "N" -> None | s -> Some (z_of_sx s)
let inputs_of_sx = list_of_sx (pair_of_sx z_of_sx nat_of_sx)

(* modified input tokens, alias pairs (grid var, input token), is the grid root the given root,
   data of the named grid variables *)
let report h h' g inputs root names =
  L [ sx_of_list sx_of_z (c19_modified h h' inputs);
      sx_of_list (sx_of_pair sx_of_z sx_of_z) (c19_alias_table h' g inputs);
      sx_of_bool (g = root);
      sx_of_list (fun n -> match c19_var_buf h' g n with
                           | Some b -> L [sx_of_z n; sx_of_list sx_of_z (c19_buf_data h' b)]
                           | None -> L [sx_of_z n; A "N"]) names;
      sx_of_bool (c19_wt h' g);
      sx_of_list sx_of_z (List.map fst (c19_ds_bufs h' g)) ]

let cmd_topology (x : sx) : sx =
  match x with
  | L [h; coords; conns; dts; fv; si; inputs] ->
      let h = heap_of_sx h in
      let coords = list_of_sx (function L [n; ia; i] -> (z_of_sx n, (bool_of_sx ia, nat_of_sx i)) | _ -> failwith "coords") coords in
      let conns = list_of_sx (pair_of_sx z_of_sx nat_of_sx) conns in
      let (h', g) = c19_from_topology h coords conns (bool_of_sx dts) (opt_z_of_sx fv) (z_of_sx si) in
      report h h' g (inputs_of_sx inputs) (nat_of_int 0) (List.map fst conns @ List.map fst coords)
  | _ -> failwith "topology: (heap coords conns dtype_std fv si inputs)"

let cmd_ugrid (x : sx) : sx =
  match x with
  | L [h; d; names; dts; inputs] ->
      let h = heap_of_sx h and d = nat_of_sx d in
      let names = list_of_sx z_of_sx names in
      let (h', g) = c19_read_ugrid h d names (bool_of_sx dts) in
      report h h' g (inputs_of_sx inputs) d names
  | _ -> failwith "ugrid: (heap d conn_names dtype_std inputs)"

let cmd_adopt (x : sx) : sx =
  match x with
  | L [h; d; inputs; names] ->
      let h = heap_of_sx h and d = nat_of_sx d in
      let (h', g) = c19_grid_init h d in
      report h h' g (inputs_of_sx inputs) d (list_of_sx z_of_sx names)
  | _ -> failwith "adopt: (heap d inputs names)"

let cmd_table (x : sx) : sx =
  match x with
  | L [h; d; t; cg; over; inputs] ->
      let h = heap_of_sx h and d = nat_of_sx d in
      let t = c19_table_of (z_of_sx t) in
      let (h', g) = c19_read_table h d t (bool_of_sx cg) (list_of_sx z_of_sx over) in
      report h h' g (inputs_of_sx inputs) d []
  | _ -> failwith "table: (heap d format_id copy_gattrs over inputs)"

(* copy experiment: side 0: ops on the original, observe the copy; 1: ops on the copy, observe the
   original.  Output: shares root?, observed side changed?, equal at copy time *)
let cmd_copy (x : sx) : sx =
  match x with
  | L [h; d; side; ops] ->
      let h = heap_of_sx h and d = nat_of_sx d in
      let (h1, c) = c19_copy h d in
      let ops = list_of_sx op_of_sx ops in
      let (m, o) = if bool_of_sx side then (c, d) else (d, c) in
      let before = c19_obs h1 o in
      let h2 = c19_run h1 m ops in
      L [sx_of_bool (c = d); sx_of_bool (c19_obs h2 o <> before); sx_of_bool (c19_obs h1 c = c19_obs h d)]
  | _ -> failwith "copy: (heap d side ops)"

(* to_xarray("ugrid") called ncalls times; ops applied to the last returned dataset.
   Output: returned root is the grid's, grid report changed by the edits, Variable objects shared,
   buffers shared *)
let cmd_export_ugrid (x : sx) : sx =
  match x with
  | L [h; d; ncalls; ops] ->
      let h = heap_of_sx h and d = nat_of_sx d in
      let rec go h k = let (h', e) = c19_to_xarray_ugrid h d in if k <= 1 then (h', e) else go h' (k - 1) in
      let (h1, e) = go h (int_of_sx ncalls) in
      let before = c19_obs h1 d in
      let h2 = c19_run h1 e (list_of_sx op_of_sx ops) in
      let vars_of r = match c19_get h1 r with Some (C19Ds (vs, _)) -> List.map snd vs | _ -> [] in
      let shared_vars = List.exists (fun v -> List.mem v (vars_of d)) (vars_of e) in
      let shared_bufs = c19_alias_table h1 e (c19_ds_bufs h1 d) <> [] in
      L [sx_of_bool (e = d); sx_of_bool (c19_obs h2 d <> before); sx_of_bool shared_vars; sx_of_bool shared_bufs]
  | _ -> failwith "export_ugrid: (heap d ncalls ops)"

let cmd_export_table (x : sx) : sx =
  match x with
  | L [h; d; t; ops] ->
      let h = heap_of_sx h and d = nat_of_sx d in
      let t = c19_table_of (z_of_sx t) in
      let (h1, e) = c19_to_xarray_table h d t in
      let before = c19_obs h1 d in
      let h2 = c19_run h1 e (list_of_sx op_of_sx ops) in
      L [sx_of_bool (e = d); sx_of_bool (c19_obs h2 d <> before);
         sx_of_list (sx_of_pair sx_of_z sx_of_z) (c19_alias_table h1 e (c19_ds_bufs h1 d))]
  | _ -> failwith "export_table: (heap d table ops)"

let cmd_export_geo (x : sx) : sx =
  match x with
  | L [deep; h; cached] ->
      let h = heap_of_sx h and cached = nat_of_sx cached in
      let (h1, e) = c19_export_geo (bool_of_sx deep) h cached in
      L [sx_of_bool (e = cached)]
  | _ -> failwith "export_geo: (deep heap cached)"

(* session: (heap root steps), step = (C k) copy | (E k) export | (O k op) mutation through root k.
   Output per step: indexes of the roots alive before the step whose report changed *)
let cmd_session (x : sx) : sx =
  match x with
  | L [h; d; steps] ->
      let step_of = function
        | L [A "C"; k] -> C19SCopy (nat_of_sx k)
        | L [A "E"; k] -> C19SExport (nat_of_sx k)
        | L [A "O"; k; o] -> C19SOp (nat_of_sx k, op_of_sx o)
        | _ -> failwith "step" in
      let w = ref (heap_of_sx h, [nat_of_sx d]) and outs = ref [] in
      List.iter (fun s ->
        let w' = c19_sstep c19_sflags_current !w (step_of s) in
        outs := sx_of_list sx_of_nat (c19_changed_roots !w w') :: !outs;
        w := w') (match steps with L l -> l | _ -> failwith "steps");
      L [L (List.rev !outs); A (string_of_int (List.length (snd !w)))]
  | _ -> failwith "session: (heap root steps)"

let commands : (string * (sx -> sx)) list = [
  "topology", cmd_topology; "ugrid", cmd_ugrid; "adopt", cmd_adopt; "table", cmd_table;
  "copy", cmd_copy; "export_ugrid", cmd_export_ugrid; "export_table", cmd_export_table;
  "export_geo", cmd_export_geo; "session", cmd_session;
]
