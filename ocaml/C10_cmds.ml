(* ---- commands ---- *)
let hook_of_string = function
  | "HReplace" -> HReplace | "HCopyShallow" -> HCopyShallow | "HCopyDeep" -> HCopyDeep
  | "HConstructDirect" -> HConstructDirect | "HInit" -> HInit | "HPlain" -> HPlain | _ -> HRaises

let dimop_of_sx = function
  | A "keep" -> DKeep
  | A "reverse" -> DReverse
  | L [A "drop"; d] -> DDrop (z_of_sx d)
  | L [A "resize"; d; n] -> DResize (z_of_sx d, z_of_sx n)
  | L [A "add"; d; n] -> DAdd (z_of_sx d, z_of_sx n)
  | _ -> failwith "dimop"

let op_of_sx = function
  | L [A "x"; A h; o] -> XOp (hook_of_string h, dimop_of_sx o)
  | L [A "isel"; f] -> UIselGrid (z_of_sx f)
  | A "integrate" -> UIntegrate
  | A "edgeop" -> UEdgeOp
  | L [A "topo"; d] -> UTopoAgg (z_of_sx d)
  | L [A "remap"; f; d] -> URemap (z_of_sx f, z_of_sx d)
  | L [A "dual"; f] -> UDual (z_of_sx f)
  | _ -> failwith "op"

(* ((sizes: (n e f) per family) (dims) (ops)) -> per step: (is_ux family generation dims consistent) *)
let cmd_c10 (x : sx) : sx =
  match x with
  | L [L fams; dims; L ops] ->
      let tbl = List.map (function L [n; e; f] -> ((z_of_sx n, z_of_sx e), z_of_sx f) | _ -> failwith "fam") fams in
      let sz (f : z) = (try List.nth tbl (int_of_z f) with _ -> ((Z0, Z0), Z0)) in
      let v0 = { v_ux = true; v_grid = Some (Z0, Z0); v_dims = list_of_sx (pair_of_sx z_of_sx z_of_sx) dims } in
      let rec go v acc = function
        | [] -> List.rev acc
        | o :: rest ->
            let v' = c10_step sz v (op_of_sx o) in
            let g = (match v'.v_grid with Some (f, g) -> L [sx_of_z f; sx_of_z g] | None -> A "N") in
            go v' (L [sx_of_bool v'.v_ux; g; sx_of_list (sx_of_pair sx_of_z sx_of_z) v'.v_dims; sx_of_bool (c10_consistent sz v')] :: acc) rest in
      L (go v0 [] ops)
  | _ -> failwith "c10"

let commands : (string * (sx -> sx)) list = [
  "c10", cmd_c10;
]
