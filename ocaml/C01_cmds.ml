(* ---- C01 commands: one per reader model ---- *)
let ent_of_sx = function
  | A "NAN" -> ENan
  | x -> EInt (z_of_sx x)
let opt_of_sx f = function A "N" -> None | x -> Some (f x)
let etable_of_sx = list_of_sx (list_of_sx ent_of_sx)
let pairs_of_sx = list_of_sx (pair_of_sx z_of_sx z_of_sx)
let sx_of_pairs = sx_of_list (sx_of_pair sx_of_z sx_of_z)
let sx_of_zlist = sx_of_list sx_of_z
let zlist_of_sx = list_of_sx z_of_sx

let cmd_ugrid = function
  | L [std; fv; st; t] ->
      let d = { ud_std_dtype = bool_of_sx std; ud_fill = opt_of_sx ent_of_sx fv; ud_start = opt_of_sx z_of_sx st } in
      L [ sx_of_table (c01_ugrid_conn d (etable_of_sx t)); sx_of_table (c01_ugrid_conn_fixed d (etable_of_sx t)) ]
  | _ -> failwith "ugrid: (std fv start table)"

let cmd_topo = function
  | L [std; fv; st; t] ->
      let (r, b) = c01_topo_conn (bool_of_sx std) (opt_of_sx ent_of_sx fv) (z_of_sx st) (etable_of_sx t) in
      L [ sx_of_table r; sx_of_bool b ]
  | _ -> failwith "topo: (std fv start table)"

let cmd_mpas_padded = function
  | L [t; ne] -> sx_of_table (c01_mpas_padded (table_of_sx t) (zlist_of_sx ne))
  | _ -> failwith "mpas_padded: (table ne)"

let cmd_mpas_plain = function
  | L [t] -> sx_of_table (c01_mpas_plain (table_of_sx t))
  | _ -> failwith "mpas_plain: (table)"

let cmd_scrip = function
  | L [w; c] ->
      let (u, t) = c01_scrip (list_of_sx pairs_of_sx c) (nat_of_int (int_of_sx w)) in
      L [ sx_of_pairs u; sx_of_table t ]
  | _ -> failwith "scrip: (w corners)"

let cmd_exodus = function
  | L [v; bl; w] ->
      let blocks = list_of_sx table_of_sx bl in
      ignore v;
      L [ sx_of_table (c01_exodus (nat_of_int (int_of_sx w)) blocks) ]
  | _ -> failwith "exodus: (coord2d blocks w)"

let cmd_exodus_coords = function
  | L [v; cx; cy; cz] ->
      let ((a, b), c) = c01_exodus_coords (bool_of_sx v) (zlist_of_sx cx) (zlist_of_sx cy) (zlist_of_sx cz) in
      L [ sx_of_zlist a; sx_of_zlist b; sx_of_zlist c ]
  | _ -> failwith "exodus_coords: (coord2d cx cy cz)"

let cmd_esmf = function
  | L [a; t; ns] ->
      let attr = opt_of_sx z_of_sx a in
      L [ sx_of_table (c01_esmf attr (etable_of_sx t) (zlist_of_sx ns)) ]
  | _ -> failwith "esmf: (attr table ns)"

let cmd_fv = function
  | L [w; r] ->
      let (u, t) = c01_fv (list_of_sx pairs_of_sx r) (nat_of_int (int_of_sx w)) in
      L [ sx_of_pairs u; sx_of_table t ]
  | _ -> failwith "fv: (w rows)"

let cmd_geos = function
  | L [nf; n1; n2] ->
      sx_of_table (c01_geos (nat_of_int (int_of_sx nf)) (nat_of_int (int_of_sx n1)) (nat_of_int (int_of_sx n2)))
  | _ -> failwith "geos: (nf n1 n2)"

let cmd_icon = function
  | L [n; t; std] ->
      ignore std;
      L [ sx_of_table (c01_icon (nat_of_int (int_of_sx n)) (table_of_sx t)); sx_of_bool true ]
  | _ -> failwith "icon: (ncell table std)"

let cmd_icon_encode = function
  | L [k; t] -> sx_of_table (c01_icon_encode (nat_of_int (int_of_sx k)) (table_of_sx t))
  | _ -> failwith "icon_encode: (k rows)"

let cmd_geo = function
  | L [w; f] ->
      let feats = list_of_sx (list_of_sx pairs_of_sx) f in
      let ((lo, la), t) = c01_geo (nat_of_int (int_of_sx w)) feats in
      L [ sx_of_zlist lo; sx_of_zlist la; sx_of_table t ]
  | _ -> failwith "geo: (w feats)"

let q_of_sx = function
  | L [n; d] -> (match z_of_sx d with
      | Zpos p -> { qnum = z_of_sx n; qden = p }
      | _ -> failwith "q_of_sx: denominator")
  | _ -> failwith "q_of_sx"
let sx_of_q (q : q) = L [ sx_of_z q.qnum; sx_of_z (Zpos q.qden) ]

let cmd_wrap = function
  | L l -> sx_of_list sx_of_q (c01_wrap_all (List.map q_of_sx l))
  | _ -> failwith "wrap: list of (num den)"

let rd_of_sx x = match int_of_sx x with
  | 0 -> RdNodeLon | 1 -> RdNodeLat | 2 -> RdFaceAreas | 3 -> RdFaceJacobian | _ -> RdOther
let qlist_of_sx = list_of_sx q_of_sx
let sx_of_qopt = function None -> A "N" | Some l -> sx_of_list sx_of_q l

let cmd_lazy = function
  | L [derived; computed; lon0; areas0; reads] ->
      let s0 = { lz_lon = opt_of_sx qlist_of_sx lon0; lz_areas = opt_of_sx qlist_of_sx areas0 } in
      let s = c01_rd_run (qlist_of_sx derived) (qlist_of_sx computed) s0 (list_of_sx rd_of_sx reads) in
      L [ sx_of_qopt s.lz_lon; sx_of_qopt s.lz_areas ]
  | _ -> failwith "lazy: (derived computed lon0 areas0 reads)"

let sx_of_ent = function EInt z -> sx_of_z z | ENan -> A "NAN"

let cmd_faces_of = function
  | L [n; w; t; faces] ->
      L [ sx_of_table (c01_faces_of (table_of_sx t));
          sx_of_bool (c01_wf_facesb (z_of_sx n) (nat_of_int (int_of_sx w)) (table_of_sx faces)) ]
  | _ -> failwith "faces_of: (n w table faces)"

let cmd_mpas_encode = function
  | L [z; w; f] -> sx_of_table (c01_mpas_encode (bool_of_sx z) (nat_of_int (int_of_sx w)) (table_of_sx f))
  | _ -> failwith "mpas_encode: (zeros w faces)"

let cmd_esmf_encode = function
  | L [s; w; f] -> sx_of_list (sx_of_list sx_of_ent) (c01_esmf_encode (z_of_sx s) (nat_of_int (int_of_sx w)) (table_of_sx f))
  | _ -> failwith "esmf_encode: (s w faces)"

let cmd_scrip_encode = function
  | L [w; f] -> sx_of_list sx_of_pairs (c01_scrip_encode (nat_of_int (int_of_sx w)) (list_of_sx pairs_of_sx f))
  | _ -> failwith "scrip_encode: (w faces)"

let cmd_ugrid_dims = function
  | L [a; b; c; e] ->
      let ((x, y), z) = c01_ugrid_dims (bool_of_sx a) (bool_of_sx b) (bool_of_sx c) (bool_of_sx e) in
      L [ sx_of_bool x; sx_of_bool y; sx_of_bool z ]
  | _ -> failwith "ugrid_dims: 4 flags"

let cmd_sniff = function
  | L [a; b; c; d; e; f; g; h] ->
      sx_of_z (c01_sniff { k_coord = bool_of_sx a; k_coordx = bool_of_sx b; k_grid_center_lon = bool_of_sx c;
                           k_is_ugrid = bool_of_sx d; k_verticesOnCell = bool_of_sx e; k_maxNodePElement = bool_of_sx f;
                           k_nf_YCdim_XCdim = bool_of_sx g; k_vertex_of_cell = bool_of_sx h })
  | _ -> failwith "sniff: 8 flags"

let commands : (string * (sx -> sx)) list = [
  "ugrid", cmd_ugrid; "topo", cmd_topo; "mpas_padded", cmd_mpas_padded; "mpas_plain", cmd_mpas_plain;
  "scrip", cmd_scrip; "exodus", cmd_exodus; "exodus_coords", cmd_exodus_coords; "esmf", cmd_esmf; "fv", cmd_fv;
  "geos", cmd_geos; "icon", cmd_icon; "icon_encode", cmd_icon_encode; "geo", cmd_geo; "wrap", cmd_wrap;
  "sniff", cmd_sniff; "lazy", cmd_lazy; "faces_of", cmd_faces_of; "mpas_encode", cmd_mpas_encode; "esmf_encode", cmd_esmf_encode;
  "scrip_encode", cmd_scrip_encode; "ugrid_dims", cmd_ugrid_dims;
]
