(* ---- C17 commands ---- *)
let pos_of_z = function Zpos p -> p | _ -> failwith "positive expected"
let q_of_sx = function
  | L [n; d] -> { qnum = z_of_sx n; qden = pos_of_z (z_of_sx d) }
  | _ -> failwith "q_of_sx"
let sx_of_q (q : q) : sx = L [sx_of_z q.qnum; sx_of_z (Zpos q.qden)]
let sx_of_option f = function None -> A "N" | Some x -> f x

(* (k table data) with data = list of leading rows, each a list of (num den) *)
let cmd_face (x : sx) : sx =
  match x with
  | L [k; t; data] ->
      let r = c17_run_face (z_of_sx k) (table_of_sx t) (list_of_sx (list_of_sx q_of_sx) data) in
      sx_of_option (sx_of_list (sx_of_list (sx_of_option sx_of_q))) r
  | _ -> failwith "c17face: expected (k table data)"

let cmd_edge (x : sx) : sx =
  match x with
  | L [k; t; data] ->
      let tt = table_of_sx t in
      let r = c17_run_edge (z_of_sx k) tt (list_of_sx (list_of_sx q_of_sx) data) in
      L [ sx_of_list (sx_of_pair sx_of_z sx_of_z) (edges tt);
          sx_of_option (sx_of_list (sx_of_list sx_of_q)) r ]
  | _ -> failwith "c17edge: expected (k table data)"

(* (table) -> loop partitions (size, face_inds) and gathers (face, index row) *)
let cmd_parts (x : sx) : sx =
  match x with
  | L [t] ->
      let tt = table_of_sx t in
      L [ sx_of_list (sx_of_pair sx_of_z (sx_of_list sx_of_z)) (c17_loop (c17_partitions (n_nodes_per_face tt)));
          sx_of_list (sx_of_pair sx_of_z (sx_of_list sx_of_z)) (c17_gathers tt) ]
  | _ -> failwith "c17parts: expected (table)"

(* dims encoded: 0 n_node, 1 n_edge, 2 n_face, k>=10 other ; dest: 0 face 1 edge 2 node 3 bad, N none *)
let dim_of_sx s = match int_of_sx s with
  | 0 -> C17_n_node | 1 -> C17_n_edge | 2 -> C17_n_face | k -> C17_other (z_of_int k)
let sx_of_dim = function
  | C17_n_node -> A "0" | C17_n_edge -> A "1" | C17_n_face -> A "2" | C17_other k -> sx_of_z k
let dest_of_int = function 0 -> C17_to_face | 1 -> C17_to_edge | 2 -> C17_to_node | _ -> C17_to_bad
let cmd_dispatch (x : sx) : sx =
  match x with
  | L [dims; dest; shape; n] ->
      let dims = list_of_sx dim_of_sx dims in
      let dest = (match dest with A "N" -> None | d -> Some (dest_of_int (int_of_sx d))) in
      (match c17_dispatch dims dest with
       | C17_ValueError -> L [A "ValueError"]
       | C17_NotImplemented -> L [A "NotImplementedError"]
       | C17_run d ->
           L [A "run"; sx_of_list sx_of_dim (c17_result_dims dims d);
              sx_of_list sx_of_z (c17_result_shape (list_of_sx z_of_sx shape) (z_of_sx n))])
  | _ -> failwith "c17dispatch: expected (dims dest shape n)"

(* (k table data) : the same loop body with the gathers processed in REVERSE order *)
let cmd_face_rev (x : sx) : sx =
  match x with
  | L [k; t; data] ->
      let tt = table_of_sx t in
      let rows = list_of_sx (list_of_sx q_of_sx) data in
      let gs = List.rev (c17_gathers tt) in
      L (List.map (fun row -> sx_of_option (sx_of_list (sx_of_option sx_of_q))
                     (c17_face_row_of_gathers (c17_agg_of (z_of_sx k)) gs tt row)) rows)
  | _ -> failwith "c17facerev"

(* (k edge_table data) : node -> edge over a supplied edge table, own order and orientation *)
let cmd_edge_table (x : sx) : sx =
  match x with
  | L [k; en; data] ->
      let en = list_of_sx (pair_of_sx z_of_sx z_of_sx) en in
      let rows = list_of_sx (list_of_sx q_of_sx) data in
      L (List.map (fun row -> sx_of_option (sx_of_list sx_of_q) (c17_edge_row (c17_agg_of (z_of_sx k)) en row)) rows)
  | _ -> failwith "c17edgetable"

(* (agg src) -> dtype code ; agg in model order 0..9, dtype 0 bool 1 int32 2 int64 3 float32 4 float64 *)
let agg_of_int = function 0 -> C17_mean | 1 -> C17_max | 2 -> C17_min | 3 -> C17_prod | 4 -> C17_sum
  | 5 -> C17_std | 6 -> C17_var | 7 -> C17_median | 8 -> C17_all | _ -> C17_any
let dt_of_int = function 0 -> C17_bool | 1 -> C17_int32 | 2 -> C17_int64 | 3 -> C17_float32 | _ -> C17_float64
let int_of_dt = function C17_bool -> 0 | C17_int32 -> 1 | C17_int64 -> 2 | C17_float32 -> 3 | C17_float64 -> 4
let cmd_dtype (x : sx) : sx =
  match x with
  | L [a; d] -> A (string_of_int (int_of_dt (c17_result_dtype (agg_of_int (int_of_sx a)) (dt_of_int (int_of_sx d)))))
  | _ -> failwith "c17dtype"

let commands : (string * (sx -> sx)) list = [
  "c17facerev", cmd_face_rev;
  "c17edgetable", cmd_edge_table;
  "c17dtype", cmd_dtype;
  "c17face", cmd_face;
  "c17edge", cmd_edge;
  "c17parts", cmd_parts;
  "c17dispatch", cmd_dispatch;
]
