(* ---- C17 commands ---- *)
let pos_of_z = function Zpos p -> p | _ -> failwith "positive expected"
let q_of_sx = function
  | L [n; d] -> { qnum = z_of_sx n; qden = pos_of_z (z_of_sx d) }
  | _ -> failwith "q_of_sx"
let sx_of_q (q : q) : sx = L [sx_of_z q.qnum; sx_of_z (Zpos q.qden)]
let sx_of_option f = function None -> A "N" | Some x -> f x

(* (k table data) with data = list of leading rows, each a list of (num den) *)
let cmd_face (x : sx) : sx =
  match x with
  | L [k; t; data] ->
      let r = c17_run_face (z_of_sx k) (table_of_sx t) (list_of_sx (list_of_sx q_of_sx) data) in
      sx_of_option (sx_of_list (sx_of_list (sx_of_option sx_of_q))) r
  | _ -> failwith "c17face: expected (k table data)"

let cmd_edge (x : sx) : sx =
  match x with
  | L [k; t; data] ->
      let tt = table_of_sx t in
      let r = c17_run_edge (z_of_sx k) tt (list_of_sx (list_of_sx q_of_sx) data) in
      L [ sx_of_list (sx_of_pair sx_of_z sx_of_z) (edges tt);
          sx_of_option (sx_of_list (sx_of_list sx_of_q)) r ]
  | _ -> failwith "c17edge: expected (k table data)"

(* (table) -> loop partitions (size, face_inds) and gathers (face, index row) *)
let cmd_parts (x : sx) : sx =
  match x with
  | L [t] ->
      let tt = table_of_sx t in
      L [ sx_of_list (sx_of_pair sx_of_z (sx_of_list sx_of_z)) (c17_loop (c17_partitions (n_nodes_per_face tt)));
          sx_of_list (sx_of_pair sx_of_z (sx_of_list sx_of_z)) (c17_gathers tt) ]
  | _ -> failwith "c17parts: expected (table)"

(* dims encoded: 0 n_node, 1 n_edge, 2 n_face, k>=10 other ; dest: 0 face 1 edge 2 node 3 bad, N none *)
let dim_of_sx s = match int_of_sx s with
  | 0 -> C17_n_node | 1 -> C17_n_edge | 2 -> C17_n_face | k -> C17_other (z_of_int k)
let sx_of_dim = function
  | C17_n_node -> A "0" | C17_n_edge -> A "1" | C17_n_face -> A "2" | C17_other k -> sx_of_z k
let dest_of_int = function 0 -> C17_to_face | 1 -> C17_to_edge | 2 -> C17_to_node | _ -> C17_to_bad
let cmd_dispatch (x : sx) : sx =
  match x with
  | L [dims; dest; shape; n] ->
      let dims = list_of_sx dim_of_sx dims in
      let dest = (match dest with A "N" -> None | d -> Some (dest_of_int (int_of_sx d))) in
      (match c17_dispatch dims dest with
       | C17_ValueError -> L [A "ValueError"]
       | C17_NotImplemented -> L [A "NotImplementedError"]
       | C17_run d ->
           L [A "run"; sx_of_list sx_of_dim (c17_result_dims dims d);
              sx_of_list sx_of_z (c17_result_shape (list_of_sx z_of_sx shape) (z_of_sx n))])
  | _ -> failwith "c17dispatch: expected (dims dest shape n)"

let commands : (string * (sx -> sx)) list = [
  "c17face", cmd_face;
  "c17edge", cmd_edge;
  "c17parts", cmd_parts;
  "c17dispatch", cmd_dispatch;
]
