(* ---- commands ---- *)
let var_names = [
  "NPF", V_NPF; "EN", V_EN; "FE", V_FE; "EF", V_EF; "NF", V_NF; "FF", V_FF; "HOLE", V_HOLE; "NXYZ", V_NXYZ;
  "FCEN", V_FCEN; "ECEN", V_ECEN; "AREAS", V_AREAS; "END", V_END; "EFD", V_EFD; "ENZ", V_ENZ; "BOUNDS", V_BOUNDS;
  "TOPO", V_TOPO ]
let var_of_string s = List.assoc s var_names
let string_of_var v = fst (List.find (fun (_, w) -> w = v) var_names)

let op_of_sx = function
  | L [A "get"; A v] -> OpGet (var_of_string v)
  | A "areas" -> OpAreas
  | A "encode_ugrid" -> OpEncodeUgrid
  | A "pure" -> OpPure
  | _ -> failwith "op_of_sx"

(* (op ...) -> list of sets of variables present after each prefix of the history *)
let cmd_c08 (x : sx) : sx =
  match x with
  | L ops ->
      let ops = List.map op_of_sx ops in
      let rec go s acc = function
        | [] -> List.rev acc
        | o :: rest -> let s' = c08_run s [o] in go s' (L (List.map (fun v -> A (string_of_var v)) (c08_names s')) :: acc) rest in
      L (go [] [] ops)
  | _ -> failwith "c08"

let commands : (string * (sx -> sx)) list = [
  "c08", cmd_c08;
]
