(* driver: reads one case per line (S-expressions of integers, F = fill value), applies the
   extracted model function selected by argv[1], prints one result per line. *)
open Model

type sx = A of string | L of sx list

let tokenize (s : string) : string list =
  let b = Buffer.create 16 and out = ref [] in
  let flush () = if Buffer.length b > 0 then (out := Buffer.contents b :: !out; Buffer.clear b) in
  String.iter (fun c -> match c with
    | '(' -> flush (); out := "(" :: !out
    | ')' -> flush (); out := ")" :: !out
    | ' ' | '\t' | '\r' | '\n' -> flush ()
    | c -> Buffer.add_char b c) s;
  flush (); List.rev !out

let parse (s : string) : sx =
  let toks = ref (tokenize s) in
  let rec rd () = match !toks with
    | [] -> failwith "eof"
    | "(" :: r -> toks := r; let acc = ref [] in
        let rec loop () = match !toks with
          | ")" :: r -> toks := r
          | _ -> acc := rd () :: !acc; loop () in
        loop (); L (List.rev !acc)
    | t :: r -> toks := r; A t in
  rd ()

(* ---- conversions between OCaml ints/strings and the extracted binary numbers ---- *)
let rec pos_of_int (n : int) : positive =
  if n = 1 then XH else if n land 1 = 0 then XO (pos_of_int (n lsr 1)) else XI (pos_of_int (n lsr 1))
let z_of_int (n : int) : z = if n = 0 then Z0 else if n > 0 then Zpos (pos_of_int n) else Zneg (pos_of_int (-n))
let rec int_of_pos (p : positive) : int = match p with XH -> 1 | XO q -> 2 * int_of_pos q | XI q -> 2 * int_of_pos q + 1
let int_of_z (x : z) : int = match x with Z0 -> 0 | Zpos p -> int_of_pos p | Zneg p -> - (int_of_pos p)
let rec nat_of_int (n : int) : nat = if n <= 0 then O else S (nat_of_int (n - 1))
let rec int_of_nat (n : nat) : int = match n with O -> 0 | S m -> 1 + int_of_nat m

(* arbitrary-size decimal strings <-> z, via the extracted arithmetic itself *)
let z10 = z_of_int 10
let z_of_string (s : string) : z =
  let neg = String.length s > 0 && s.[0] = '-' in
  let acc = ref Z0 in
  String.iteri (fun i c -> if not (i = 0 && neg) then
    acc := Z.add (Z.mul !acc z10) (z_of_int (Char.code c - 48))) s;
  if neg then Z.opp !acc else !acc
let string_of_z (x : z) : string =
  let neg = (match x with Zneg _ -> true | _ -> false) in
  let x = ref (Z.abs x) in
  if !x = Z0 then "0" else begin
    let b = Buffer.create 20 in
    while !x <> Z0 do
      let (q, r) = Z.div_eucl !x z10 in
      Buffer.add_char b (Char.chr (48 + int_of_z r)); x := q
    done;
    let s = Buffer.contents b in
    let n = String.length s in
    let r = String.init n (fun i -> s.[n - 1 - i]) in
    if neg then "-" ^ r else r end

let z_of_sx = function
  | A "F" -> fILL
  | A t -> if String.length t < 17 then z_of_int (int_of_string t) else z_of_string t
  | L _ -> failwith "z_of_sx"
let sx_of_z (x : z) : sx = if x = fILL then A "F" else A (string_of_z x)
let list_of_sx f = function L l -> List.map f l | A _ -> failwith "list_of_sx"
let sx_of_list f l = L (List.map f l)
let sx_of_bool b = A (if b then "1" else "0")
let bool_of_sx = function A "1" -> true | A "0" -> false | _ -> failwith "bool_of_sx"
let sx_of_pair f g (a, b) = L [f a; g b]
let pair_of_sx f g = function L [a; b] -> (f a, g b) | _ -> failwith "pair_of_sx"
let int_of_sx = function A t -> int_of_string t | _ -> failwith "int_of_sx"
let table_of_sx = list_of_sx (list_of_sx z_of_sx)
let sx_of_table = sx_of_list (sx_of_list sx_of_z)

let rec print_sx b = function
  | A s -> Buffer.add_string b s
  | L l -> Buffer.add_char b '(';
      List.iteri (fun i x -> if i > 0 then Buffer.add_char b ' '; print_sx b x) l;
      Buffer.add_char b ')'

