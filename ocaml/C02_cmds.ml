(* ---- commands ---- *)
let cmd_c02 (x : sx) : sx =
  match x with
  | L [m; t] ->
      let m = nat_of_int (int_of_sx m) and t = table_of_sx t in
      let r = build_edges t in
      L [ sx_of_list (sx_of_pair sx_of_z sx_of_z) r.er_edges;
          sx_of_table (face_edges t m);
          sx_of_list sx_of_z (n_nodes_per_face t);
          sx_of_list sx_of_bool r.er_mask ]
  | _ -> failwith "c02: expected (m table)"


(* certified checker on a candidate output: (table edges face_edge npf) -> 0/1 *)
let cmd_c02_check (x : sx) : sx =
  match x with
  | L [t; e; fe; npf] ->
      sx_of_bool (c02_check (table_of_sx t) (list_of_sx (pair_of_sx z_of_sx z_of_sx) e) (table_of_sx fe) (list_of_sx z_of_sx npf))
  | _ -> failwith "c02_check"

(* source-supplied edge table: (m table supplied) -> (kept edges face_edge) *)
let cmd_c02_sup (x : sx) : sx =
  match x with
  | L [m; t; s] ->
      let r = sup_face_edges (table_of_sx t) (nat_of_int (int_of_sx m)) (list_of_sx (pair_of_sx z_of_sx z_of_sx) s) in
      L [ sx_of_bool r.sr_kept; sx_of_list (sx_of_pair sx_of_z sx_of_z) r.sr_edges; sx_of_table r.sr_face_edges ]
  | _ -> failwith "c02_sup"

let commands : (string * (sx -> sx)) list = [
  "c02_sup", cmd_c02_sup;
  "c02", cmd_c02;
  "c02_check", cmd_c02_check;
]
