(* ---- C07 commands ----
   input  (run):  ((copy fill acc deg readall striphelpers scrippad) tmpl steps)
                  tmpl  = N (BASE_GRID_TOPOLOGY_ATTRS as imported) | dict
                  step  = (encode_as fmt ds areas_ok)
                  ds    = ((name (dims) dict data) ...)
                  dict  = ((key s (words)) | (key n z) | (key a) | (key b) | (key o) ...)
                  data  = (i table) | (q table-with-N) | (f tokens) | (x)
   output (run):  (template_after (result ...))
                  result = (fmt ugrid closed writable exodus scrip direct file)
   names are integers (base-256 digits = bytes of the name) *)
let sx_of_opt f = function None -> A "N" | Some x -> f x
let opt_of_sx f = function A "N" -> None | x -> Some (f x)

let aval_of_sx = function
  | [A "s"; ws] -> C07_AStr (list_of_sx z_of_sx ws)
  | [A "n"; v] -> C07_ANum (z_of_sx v)
  | [A "a"] -> C07_ANumArr
  | [A "b"] -> C07_ABool
  | [A "o"] -> C07_AObj
  | _ -> failwith "aval_of_sx"
let dict_of_sx = list_of_sx (function L (k :: rest) -> (z_of_sx k, aval_of_sx rest) | _ -> failwith "dict_of_sx")
let sx_of_aval = function
  | C07_AStr ws -> [A "s"; sx_of_list sx_of_z ws]
  | C07_ANum v -> [A "n"; sx_of_z v]
  | C07_ANumArr -> [A "a"]
  | C07_ABool -> [A "b"]
  | C07_AObj -> [A "o"]
let sx_of_dict d = L (List.map (fun (k, v) -> L (sx_of_z k :: sx_of_aval v)) d)

let data_of_sx = function
  | L [A "i"; t] -> C07_DInt (table_of_sx t)
  | L [A "q"; t] -> C07_DNaN (list_of_sx (list_of_sx (opt_of_sx z_of_sx)) t)
  | L [A "f"; l] -> C07_DFloat (list_of_sx z_of_sx l)
  | L [A "x"] -> C07_DNone
  | _ -> failwith "data_of_sx"

let var_of_sx = function
  | L [n; dims; attrs; data] ->
      { cv_name = z_of_sx n; cv_dims = list_of_sx z_of_sx dims; cv_attrs = dict_of_sx attrs;
        cv_data = data_of_sx data }
  | _ -> failwith "var_of_sx"

let variant_of_sx = function
  | L [c; f; a; d; r; h; p] ->
      { vr_copy_template = bool_of_sx c; vr_exo_fill = z_of_sx f; vr_exo_accumulate = bool_of_sx a;
        vr_exo_deg2rad = bool_of_sx d; vr_exo_read_all = bool_of_sx r; vr_strip_helpers = bool_of_sx h;
        vr_scrip_pad = bool_of_sx p }
  | _ -> failwith "variant_of_sx"

let step_of_sx = function
  | L [ea; fmt; ds; ok] ->
      { sp_encode_as = bool_of_sx ea; sp_format = z_of_sx fmt; sp_ds = list_of_sx var_of_sx ds;
        sp_areas_ok = bool_of_sx ok }
  | _ -> failwith "step_of_sx"

let sx_of_decoded d =
  L [sx_of_table d.dc_fnc; sx_of_list sx_of_z d.dc_lon; sx_of_list sx_of_z d.dc_lat]

let sx_of_ugrid o =
  let topo = match List.filter (fun v -> v.cv_name = c07_s_grid_topology) o.uo_ds with
    | v :: _ -> sx_of_dict v.cv_attrs | [] -> A "N" in
  L [sx_of_dict o.uo_template; sx_of_list (fun v -> sx_of_z v.cv_name) o.uo_ds;
     sx_of_bool o.uo_same_object; topo]

let sx_of_coord = function
  | C07_CoordXYZ (_, _, _) -> A "X"
  | C07_CoordFromLonLat (b, _, _) -> L [A "L"; sx_of_bool b]
  | C07_CoordError -> A "E"

let sx_of_exodus o =
  L [sx_of_list (fun b -> L [sx_of_table b.eb_connect; A (string_of_int (int_of_nat b.eb_width));
                             sx_of_z b.eb_first_gid]) o.xo_blocks;
     sx_of_coord o.xo_coord]

let sx_of_result r =
  L [ (match r.rs_fmt with Some C07_UGRID -> A "U" | Some C07_EXODUS -> A "E"
                         | Some C07_SCRIP -> A "S" | None -> A "N");
      sx_of_opt sx_of_ugrid r.rs_ugrid;
      sx_of_bool r.rs_closed; sx_of_bool r.rs_writable;
      sx_of_opt sx_of_exodus r.rs_exodus;
      sx_of_opt (sx_of_list (sx_of_list (sx_of_pair sx_of_z sx_of_z))) r.rs_scrip;
      sx_of_opt sx_of_decoded r.rs_direct;
      sx_of_opt sx_of_decoded r.rs_file ]

let cmd_run (x : sx) : sx =
  match x with
  | L [vr; tmpl; steps] ->
      let vr = variant_of_sx vr in
      let tmpl = (match tmpl with A "N" -> c07_base_template | d -> dict_of_sx d) in
      let (t2, rs) = c07_run vr tmpl (list_of_sx step_of_sx steps) in
      L [sx_of_dict t2; sx_of_list sx_of_result rs]
  | _ -> failwith "run: expected (variant template steps)"

(* the well-formedness hypothesis of the theorems, per step *)
let cmd_wf (x : sx) : sx =
  match x with
  | L [_; _; steps] -> sx_of_list (fun st -> sx_of_bool (c07_ds_wfb (step_of_sx st).sp_ds)) (match steps with L l -> l | _ -> [])
  | _ -> failwith "wf"

let cmd_digest (x : sx) : sx =
  match x with
  | L [vr; tmpl; steps] ->
      let vr = variant_of_sx vr in
      let tmpl = (match tmpl with A "N" -> c07_base_template | d -> dict_of_sx d) in
      sx_of_list sx_of_z (c07_digest vr tmpl (list_of_sx step_of_sx steps))
  | _ -> failwith "digest: expected (variant template steps)"

(* the constants of the model, so that the harness can compare them with the strings of /repo *)
let cmd_consts (_ : sx) : sx =
  L [ sx_of_dict c07_base_template; sx_of_list sx_of_z c07_conn_names;
      sx_of_list sx_of_z c07_fmt_names_to_xarray; sx_of_list sx_of_z c07_fmt_names_encode_as;
      L [sx_of_z c07_s_grid_topology; sx_of_z c07_s_fnc; sx_of_z c07_s_node_lon; sx_of_z c07_s_node_lat;
         sx_of_z c07_s_node_x; sx_of_z c07_s_node_y; sx_of_z c07_s_node_z;
         sx_of_z c07_s_fillvalue; sx_of_z c07_s_start_index; sx_of_z c07_s_cf_role;
         sx_of_z c07_s_n_edge; sx_of_z c07_s_face_lon; sx_of_z c07_s_edge_lon] ]

let commands : (string * (sx -> sx)) list = [
  "run", cmd_run;
  "consts", cmd_consts;
  "digest", cmd_digest;
  "wf", cmd_wf;
]
