(* ---- C18 commands ---- *)
let vec_of_sx = function
  | L [x; y; z] -> ((z_of_sx x, z_of_sx y), z_of_sx z)
  | _ -> failwith "vec_of_sx"

(* (table node_pos dual_pos) -> (dual connectivity, primal node of each dual face, node_face rows) *)
let cmd_dual (x : sx) : sx =
  match x with
  | L [t; np; dp] ->
      let tt = table_of_sx t in
      let np = list_of_sx vec_of_sx np and dp = list_of_sx vec_of_sx dp in
      let (conn, nodes) = c18_run tt np dp in
      L [ sx_of_table conn; sx_of_list sx_of_z nodes;
          sx_of_table (c18_node_faces tt (nat_of_int (List.length np))) ]
  | _ -> failwith "c18dual: expected (table node_pos dual_pos)"

(* dims encoded 0 n_node 1 n_face 2 n_edge k>=10 other *)
let dim_of_sx s = match int_of_sx s with
  | 0 -> C18_n_node | 1 -> C18_n_face | 2 -> C18_n_edge | k -> C18_other (z_of_int k)
let sx_of_dim = function
  | C18_n_node -> A "0" | C18_n_face -> A "1" | C18_n_edge -> A "2" | C18_other k -> sx_of_z k
let cmd_data (x : sx) : sx =
  match x with
  | L [dims; data] ->
      let (d, v) = c18_dual_data (list_of_sx dim_of_sx dims) (list_of_sx z_of_sx data) in
      L [ sx_of_list sx_of_dim d; sx_of_list sx_of_z v ]
  | _ -> failwith "c18data: expected (dims data)"

let commands : (string * (sx -> sx)) list = [
  "c18dual", cmd_dual;
  "c18data", cmd_data;
]
