(* ---- C15 commands ---- *)
let nat_of_sx s = nat_of_int (int_of_sx s)
let sx_of_nat n = A (string_of_int (int_of_nat n))
let per_of_sx = function A "0" -> C15Exclude | A "1" -> C15Split | A "2" -> C15Ignore | _ -> failwith "periodic"
let nan_of_sx = function
  | A "N" -> None
  | l -> Some (list_of_sx (pair_of_sx bool_of_sx bool_of_sx) l)
let sx_of_out (o : c15_out) =
  L [sx_of_list sx_of_nat o.o_faces; sx_of_list sx_of_z o.o_data; sx_of_list sx_of_nat o.o_c2o]

(* (m faces) -> antimeridian face indices; faces = corner longitudes (micro-degrees) per face *)
let cmd_am (x : sx) : sx =
  match x with
  | L [m; faces] ->
      let faces = list_of_sx (list_of_sx z_of_sx) faces in
      L [sx_of_list sx_of_nat (c15_am_faces (nat_of_sx m) faces);
         sx_of_list sx_of_bool (List.map c15_spans faces)]
  | _ -> failwith "am: (m faces)"

let cmd_poly (x : sx) : sx =
  match x with
  | L [per; n; am; nan; pieces; values] ->
      sx_of_out (c15_poly (per_of_sx per) (nat_of_sx n) (list_of_sx nat_of_sx am) (nan_of_sx nan)
                   (list_of_sx nat_of_sx pieces) (list_of_sx z_of_sx values))
  | _ -> failwith "poly: (per n am nan pieces values)"

let cmd_gdf (x : sx) : sx =
  match x with
  | L [per; n; am; nan; values] ->
      sx_of_out (c15_gdf (per_of_sx per) (nat_of_sx n) (list_of_sx nat_of_sx am) (nan_of_sx nan) (list_of_sx z_of_sx values))
  | _ -> failwith "gdf: (per n am nan values)"

let cmd_line (x : sx) : sx =
  match x with
  | L [per; n; am; nan] ->
      sx_of_list sx_of_nat (c15_line (per_of_sx per) (nat_of_sx n) (list_of_sx nat_of_sx am) (nan_of_sx nan))
  | _ -> failwith "line: (per n am nan)"

(* (method steps): method 1 gdf 2 poly 3 line; step = (var|N per proj engine cache override).
   Output per step: (built-from tokens, returned object id, tables read back (DA steps));
   then the registry: (id built columns) of every object handed out *)
let cmd_hist (x : sx) : sx =
  match x with
  | L [meth; steps] ->
      let meth = z_of_sx meth in
      let sp = c15_sp_of meth and writes = c15_writes_of meth and reads = c15_reads_of meth and copies = c15_copies_of meth in
      let step_of = function
        | L [var; per; proj; eng; cache; ovr] ->
            ((match var with A "N" -> None | v -> Some (z_of_sx v)),
             { a_periodic = z_of_sx per; a_projection = z_of_sx proj; a_engine = z_of_sx eng;
               a_cache = bool_of_sx cache; a_override = bool_of_sx ovr })
        | _ -> failwith "step" in
      let steps = list_of_sx step_of steps in
      let st = ref c15_init and objs = ref [] and outs = ref [] and ids = ref [] in
      List.iter (fun (var, a) ->
        let ((built, tables), _) = c15_da_call sp reads !st a in
        let ((st', objs'), id) = c15_step sp writes copies (!st, !objs) (var, a) in
        st := st'; objs := objs'; ids := id :: !ids;
        outs := L [sx_of_list sx_of_z built; sx_of_nat id;
                   (match var with None -> A "N" | Some _ -> sx_of_list (sx_of_list sx_of_z) tables)] :: !outs) steps;
      let reg = List.map (fun id -> match c15_obj_get id !objs with
                    | Some (b, cols) -> L [sx_of_nat id; sx_of_list sx_of_z b; sx_of_list sx_of_z cols]
                    | None -> L [sx_of_nat id; A "N"; A "N"]) (List.rev !ids) in
      L [L (List.rev !outs); L reg; sx_of_bool (c15_keys_ok sp)]
  | _ -> failwith "hist: (method steps)"

(* (per m faces nan pieces values): the builder's side tables from the corner longitudes, the
   face-by-face row list, the data re-indexed with those tables, the pipeline's polygon -> face list *)
let cmd_tables (x : sx) : sx =
  match x with
  | L [per; m; faces; nan; pieces; values] ->
      let per = per_of_sx per and m = nat_of_sx m in
      let faces = list_of_sx (list_of_sx z_of_sx) faces and nan = nan_of_sx nan in
      let pieces = list_of_sx nat_of_sx pieces and values = list_of_sx z_of_sx values in
      let t = c15_poly_tables per m faces nan pieces in
      L [sx_of_list sx_of_nat t.t_am;
         (match t.t_non_nan with None -> A "N" | Some l -> sx_of_list sx_of_nat l);
         sx_of_list sx_of_nat t.t_c2o;
         sx_of_list sx_of_nat (c15_rows per m faces pieces);
         sx_of_list sx_of_z (c15_da_from_tables per t values);
         sx_of_list sx_of_nat (c15_poly_full per m faces nan pieces values).o_faces]
  | _ -> failwith "tables: (per m faces nan pieces values)"

let commands : (string * (sx -> sx)) list = [
  "am", cmd_am; "poly", cmd_poly; "gdf", cmd_gdf; "line", cmd_line; "hist", cmd_hist; "tables", cmd_tables;
]
