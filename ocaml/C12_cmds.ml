(* ---- C12 commands ---- *)
let sx_of_int n = A (string_of_int n)
let zl = list_of_sx z_of_sx
let pos_of_z = function Zpos p -> p | _ -> failwith "positive expected"
(* rationals travel as (num den) *)
let q_of_sx = function L [n; d] -> { qnum = z_of_sx n; qden = pos_of_z (z_of_sx d) } | _ -> failwith "q"
(* printed unreduced; the harness reduces *)
let sx_of_q (q : q) : sx = L [sx_of_z q.qnum; sx_of_z (Zpos q.qden)]
let rows_of_sx = list_of_sx (list_of_sx q_of_sx)
let sx_of_rows = sx_of_list (sx_of_list sx_of_q)
let dists_of_sx = function
  | L [n; f; e] -> { cd_node = list_of_sx zl n; cd_face = list_of_sx zl f; cd_edge = list_of_sx zl e }
  | _ -> failwith "dists"
let int_of_kind = function C11Nodes -> 0 | C11Faces -> 1 | C11Edges -> 2
let kind_of_sx x = match int_of_sx x with 0 -> C11Nodes | 1 -> C11Faces | 2 -> C11Edges | _ -> failwith "kind"
let dim_of_sx x = match int_of_sx x with 0 -> C12DNode | 1 -> C12DFace | 2 -> C12DEdge | n -> C12DOther (z_of_int n)
let int_of_dim = function C12DNode -> 0 | C12DFace -> 1 | C12DEdge -> 2 | C12DOther z -> int_of_z z

(* (nn nf ne len) -> kind as coded, -1 = error *)
let cmd_kind = function
  | L [nn; nf; ne; len] ->
      (match c12_kind_by_length (z_of_sx nn) (z_of_sx nf) (z_of_sx ne) (z_of_sx len) with
       | Some k -> sx_of_int (int_of_kind k) | None -> A "-1")
  | _ -> failwith "kind"

(* (nn nf ne dists data) -> (1 rows) | (0) *)
let cmd_nn = function
  | L [nn; nf; ne; t; data] ->
      (match c12_nn (z_of_sx nn) (z_of_sx nf) (z_of_sx ne) (dists_of_sx t) (rows_of_sx data) with
       | Some r -> L [A "1"; sx_of_rows r] | None -> L [A "0"])
  | _ -> failwith "nn"

(* (dim dists data) -> repaired variant *)
let cmd_nn_by_dim = function
  | L [d; t; data] ->
      (match c12_nn_by_dim (dim_of_sx d) (dists_of_sx t) (rows_of_sx data) with
       | Some r -> L [A "1"; sx_of_rows r] | None -> L [A "0"])
  | _ -> failwith "nn_by_dim"

(* (nn nf ne dists data scale p (eps) k) -> (1 rows) | (0)   [one-division form, C12_idw_fast] *)
let cmd_idw = function
  | L [nn; nf; ne; t; data; sc; p; eps; k] ->
      (match c12_idw_fast (z_of_sx nn) (z_of_sx nf) (z_of_sx ne) (dists_of_sx t) (rows_of_sx data)
               (pos_of_z (z_of_sx sc)) (nat_of_int (int_of_sx p)) (q_of_sx eps) (nat_of_int (int_of_sx k)) with
       | Some r -> L [A "1"; sx_of_rows r] | None -> L [A "0"])
  | _ -> failwith "idw"

(* (scale p (eps) k keys) -> ((idx (w)) ...) normalised weights *)
let cmd_weights = function
  | L [sc; p; eps; k; keys] ->
      sx_of_list (fun (i, w) -> L [sx_of_int (int_of_nat i); sx_of_q w])
        (c12_idw_weights (pos_of_z (z_of_sx sc)) (nat_of_int (int_of_sx p)) (q_of_sx eps) (nat_of_int (int_of_sx k)) (zl keys))
  | _ -> failwith "weights"

(* ((dims) dest) -> dims of the result *)
let cmd_dims = function
  | L [dims; dest] -> sx_of_list (fun d -> sx_of_int (int_of_dim d)) (c12_out_dims (list_of_sx dim_of_sx dims) (kind_of_sx dest))
  | _ -> failwith "dims"

let commands : (string * (sx -> sx)) list = [
  "kind", cmd_kind; "nn", cmd_nn; "nn_by_dim", cmd_nn_by_dim; "idw", cmd_idw; "weights", cmd_weights; "dims", cmd_dims;
]
