(* ---- C13 commands ---- *)
let vec_of_sx = function
  | L [x; y; z] -> ((z_of_sx x, z_of_sx y), z_of_sx z)
  | _ -> failwith "vec_of_sx"
let sx_of_lat (s, q) = L [sx_of_z s; sx_of_z q]
let sx_of_box b = L [sx_of_z b.c13_lat_lo; sx_of_z b.c13_lat_hi; sx_of_z b.c13_lon_lo; sx_of_z b.c13_lon_hi]
let edge_of_sx = function
  | L [lat1; lon1; lat2; emax; emin; here] ->
      { c13_lat1 = z_of_sx lat1; c13_lon1 = z_of_sx lon1; c13_lat2 = z_of_sx lat2;
        c13_emax = z_of_sx emax; c13_emin = z_of_sx emin; c13_pole_here = bool_of_sx here }
  | _ -> failwith "edge_of_sx"

(* (P H has_north has_south (edge ...)) -> box *)
let cmd_bounds (x : sx) : sx =
  match x with
  | L [p; h; hn; hs; es] ->
      let p = z_of_sx p and h = z_of_sx h and es = list_of_sx edge_of_sx es in
      sx_of_box (c13_face_bounds p h (bool_of_sx hn) (bool_of_sx hs) es)
  | _ -> failwith "bounds: expected (P H hn hs edges)"

(* ((a b) ...) integer direction vectors of the edges -> ((max min) ...) as (s q): sin(lat) = s / sqrt q *)
let cmd_ext (x : sx) : sx =
  sx_of_list (function
    | L [a; b] -> let a = vec_of_sx a and b = vec_of_sx b in
        L [sx_of_lat (c14_extreme_spec a b true); sx_of_lat (c14_extreme_spec a b false)]
    | _ -> failwith "ext: expected (a b)") (match x with L l -> l | _ -> failwith "ext")

(* (v1 v2 ...) corners in traversal order -> (model_has_north model_has_south exact_north exact_south), E = raises *)
let cmd_poles (x : sx) : sx =
  let vs = list_of_sx vec_of_sx x in
  let es = c13_cycle vs in
  let ob = function None -> A "E" | Some true -> A "1" | Some false -> A "0" in
  L [ ob (c13_pole_inside true es); ob (c13_pole_inside false es);
      sx_of_bool (c13_pole_in_face ((z_of_int 0, z_of_int 0), z_of_int 1) es);
      sx_of_bool (c13_pole_in_face ((z_of_int 0, z_of_int 0), z_of_int (-1)) es) ]

let commands : (string * (sx -> sx)) list = [
  "poles", cmd_poles;
  "bounds", cmd_bounds;
  "ext", cmd_ext;
]
