(* ---- commands ---- *)
(* (face_edge npf n_edge table n_node n_face width) -> (edge_face holes node_face face_face) *)
let cmd_c03 (x : sx) : sx =
  match x with
  | L [fe; npf; ne; t; nn; nf; w] ->
      let fe = table_of_sx fe and npf = list_of_sx z_of_sx npf and t = table_of_sx t in
      let ne = nat_of_int (int_of_sx ne) and nn = nat_of_int (int_of_sx nn)
      and nf = nat_of_int (int_of_sx nf) and w = nat_of_int (int_of_sx w) in
      let ef = c03_edge_faces fe npf ne in
      L [ sx_of_list (sx_of_pair sx_of_z sx_of_z) ef;
          sx_of_list sx_of_z (c03_hole_edges ef);
          sx_of_table (c03_node_faces t nn);
          sx_of_table (c03_face_faces ef nf w) ]
  | _ -> failwith "c03: bad input"

let commands : (string * (sx -> sx)) list = [
  "c03", cmd_c03;
]
