
let () =
  let cmd = Sys.argv.(1) in
  let f = try List.assoc cmd commands with Not_found -> (prerr_endline ("unknown command " ^ cmd); exit 2) in
  let b = Buffer.create 65536 in
  (try while true do
    let line = input_line stdin in
    if String.trim line <> "" then begin
      Buffer.clear b;
      (try print_sx b (f (parse line)) with e -> Buffer.add_string b ("(ERR " ^ String.escaped (Printexc.to_string e) ^ ")"));
      print_endline (Buffer.contents b)
    end
  done with End_of_file -> ())
