(* ---- commands ---- *)
(* input: ((seven variant flags) (node edge face sc_node sc_edge sc_face) (op ...)) ; output: one
   encoded state per prefix of the history (initial state first) *)
let cmd_c04 (x : sx) : sx =
  match x with
  | L [fl; c; ops] ->
      let r = c04_run_enc (list_of_sx z_of_sx fl) (list_of_sx z_of_sx c) (list_of_sx z_of_sx ops) in
      sx_of_list (sx_of_list (sx_of_list sx_of_z)) r
  | _ -> failwith "c04: expected (flags case ops)"

let commands : (string * (sx -> sx)) list = [
  "c04", cmd_c04;
]
